(* Proofs about the hot-reload decision table (Model/C13_Reload.v), for every table and every pair of configurations. *)
From Coq Require Import List String ZArith Bool Lia.
Require Import MTX.Model.C13_Reload.
Import ListNotations.
Local Open Scope string_scope.
Local Open Scope list_scope.

Lemma mem_In x l : mem x l = true <-> In x l.
Proof.
  unfold mem. rewrite existsb_exists. split.
  - intros [y [Hy He]]. apply String.eqb_eq in He. subst. exact Hy.
  - intros H. exists x. split; [exact H|apply String.eqb_refl].
Qed.

Section Pair.
Variable tbl : list row.
Variable ptrs : list string.
Variables old new : conf.

Definition changed (f : string) : Prop := val (old f) <> val (new f).

(* two loads never alias a pointee unless the values agree (equal pointers => equal pointees) *)
Definition ptr_wf : Prop := forall f, addr (old f) = addr (new f) -> val (old f) = val (new f).

Lemma changed_differs f k : ptr_wf -> changed f -> differs ptrs old new f k = true.
Proof.
  intros Hwf Hc. unfold differs, changed in *.
  assert (negb (Z.eqb (val (old f)) (val (new f))) = true) as Hv.
  { destruct (Z.eqb_spec (val (old f)) (val (new f))); [contradiction|reflexivity]. }
  destruct k; try exact Hv. destruct (mem f ptrs); [|exact Hv].
  destruct (Z.eqb_spec (addr (old f)) (addr (new f))) as [E|E]; [|reflexivity].
  exfalso. apply Hc. apply Hwf. exact E.
Qed.

Lemma reach_fields_sound n : forall c f,
  In f (reach_fields n tbl c) -> ptr_wf -> changed f -> Closes tbl ptrs old new c.
Proof.
  induction n as [|n IH]; intros c f Hin Hwf Hc; simpl in Hin; [contradiction|].
  apply in_flat_map in Hin. destruct Hin as [r [Hr Hin]].
  destruct (String.eqb_spec (comp r) c) as [E|E]; [|contradiction]. subst c.
  apply in_app_or in Hin. destruct Hin as [Hin|Hin].
  - apply in_map_iff in Hin. destruct Hin as [[f' k] [Hf Hfk]]. simpl in Hf. subst f'.
    eapply Closes_cmp; [exact Hr|exact Hfk|apply changed_differs; assumption].
  - apply in_flat_map in Hin. destruct Hin as [d [Hd Hin]].
    eapply Closes_ref; [exact Hr|exact Hd|]. eapply IH; eassumption.
Qed.

Lemma reach_comps_sound n : forall c d,
  In d (reach_comps n tbl c) -> Closes tbl ptrs old new d -> Closes tbl ptrs old new c.
Proof.
  induction n as [|n IH]; intros c d Hin Hd; simpl in Hin; [contradiction|].
  destruct Hin as [E|Hin]; [subst; exact Hd|].
  apply in_flat_map in Hin. destruct Hin as [r [Hr Hin]].
  destruct (String.eqb_spec (comp r) c) as [E|E]; [|contradiction]. subst c.
  apply in_flat_map in Hin. destruct Hin as [e [He Hin]].
  eapply Closes_ref; [exact Hr|exact He|]. eapply IH; eassumption.
Qed.

(* T1: every changed parameter of a component closes it, or is pushed into it in place *)
Lemma applied : incomplete tbl = [] -> ptr_wf ->
  forall r f, In r tbl -> In f (params r) -> changed f ->
  Closes tbl ptrs old new (comp r) \/ In f (reloads r).
Proof.
  intros Hinc Hwf r f Hr Hf Hc.
  destruct (mem f (reach_fields (S (List.length tbl)) tbl (comp r)) || mem f (reloads r)) eqn:E.
  - apply orb_prop in E. destruct E as [E|E]; apply mem_In in E.
    + left. eapply reach_fields_sound; eassumption.
    + right. exact E.
  - exfalso. unfold incomplete in Hinc.
    assert (In (comp r, f) (flat_map (fun r0 => map (fun f0 => (comp r0, f0))
              (filter (fun f0 => negb (mem f0 (reach_fields (S (List.length tbl)) tbl (comp r0)) || mem f0 (reloads r0))) (params r0))) tbl)) as Hin.
    { apply in_flat_map. exists r. split; [exact Hr|]. apply in_map. apply filter_In. split; [exact Hf|]. rewrite E. reflexivity. }
    rewrite Hinc in Hin. contradiction.
Qed.

(* T2: a component holding a reference to a closed component is closed too *)
Lemma dependents : dangling tbl = [] ->
  forall r d, In r tbl -> In d (refs r) -> Closes tbl ptrs old new d -> Closes tbl ptrs old new (comp r).
Proof.
  intros Hd r d Hr Hin Hc.
  destruct (mem d (reach_comps (S (List.length tbl)) tbl (comp r))) eqn:E.
  - apply mem_In in E. eapply reach_comps_sound; eassumption.
  - exfalso. unfold dangling in Hd.
    assert (In (comp r, d) (flat_map (fun r0 => map (fun d0 => (comp r0, d0))
              (filter (fun d0 => negb (mem d0 (reach_comps (S (List.length tbl)) tbl (comp r0)))) (refs r0))) tbl)) as Hin'.
    { apply in_flat_map. exists r. split; [exact Hr|]. apply in_map. apply filter_In. split; [exact Hin|]. rewrite E. reflexivity. }
    rewrite Hd in Hin'. contradiction.
Qed.

(* holds-a-reference-to, transitively *)
Inductive RefDep : string -> string -> Prop :=
| RefDep_refl c : RefDep c c
| RefDep_step r d e : In r tbl -> In d (refs r) -> RefDep d e -> RefDep (comp r) e.

Lemma loose_cmp r f k : loose tbl ptrs = [] -> In r tbl -> In (f, k) (cmps r) ->
  In f (params r) /\ (k = CmpVal -> mem f ptrs = false).
Proof.
  intros Hl Hr Hfk.
  destruct (negb (mem f (params r)) || match k with CmpVal => mem f ptrs | _ => false end) eqn:E.
  - exfalso. unfold loose in Hl.
    assert (In (comp r, f) (flat_map (fun r0 =>
      map (fun fk => (comp r0, fst fk))
          (filter (fun fk => negb (mem (fst fk) (params r0)) || match snd fk with CmpVal => mem (fst fk) ptrs | _ => false end) (cmps r0))
      ++ map (fun d => (comp r0, d)) (filter (fun d => negb (mem d (refs r0))) (close_refs r0))) tbl)) as Hin.
    { apply in_flat_map. exists r. split; [exact Hr|]. apply in_or_app. left.
      apply in_map_iff. exists (f, k). split; [reflexivity|]. apply filter_In. split; [exact Hfk|exact E]. }
    rewrite Hl in Hin. contradiction.
  - apply orb_false_elim in E. destruct E as [E1 E2]. split.
    + apply mem_In. destruct (mem f (params r)); [reflexivity|discriminate].
    + intros ->. exact E2.
Qed.

Lemma loose_ref r d : loose tbl ptrs = [] -> In r tbl -> In d (close_refs r) -> In d (refs r).
Proof.
  intros Hl Hr Hd. destruct (mem d (refs r)) eqn:E; [apply mem_In; exact E|].
  exfalso. unfold loose in Hl.
  assert (In (comp r, d) (flat_map (fun r0 =>
      map (fun fk => (comp r0, fst fk))
          (filter (fun fk => negb (mem (fst fk) (params r0)) || match snd fk with CmpVal => mem (fst fk) ptrs | _ => false end) (cmps r0))
      ++ map (fun d => (comp r0, d)) (filter (fun d => negb (mem d (refs r0))) (close_refs r0))) tbl)) as Hin.
  { apply in_flat_map. exists r. split; [exact Hr|]. apply in_or_app. right.
    apply in_map. apply filter_In. split; [exact Hd|]. rewrite E. reflexivity. }
  rewrite Hl in Hin. contradiction.
Qed.

Lemma differs_changed f k : (k = CmpVal -> mem f ptrs = false) -> differs ptrs old new f k = true -> changed f.
Proof.
  intros Hk Hd. unfold differs, changed in *.
  destruct k; try (destruct (Z.eqb_spec (val (old f)) (val (new f))); [discriminate|assumption]).
  rewrite (Hk eq_refl) in Hd. destruct (Z.eqb_spec (val (old f)) (val (new f))); [discriminate|assumption].
Qed.

(* T3: a component is closed only if a parameter of it, or of a component it (transitively) holds, changed in value *)
Lemma minimal : loose tbl ptrs = [] ->
  forall c, Closes tbl ptrs old new c ->
  exists r f, In r tbl /\ RefDep c (comp r) /\ In f (params r) /\ changed f.
Proof.
  intros Hl c Hc. induction Hc as [r f k Hr Hfk Hd | r d Hr Hd Hc IH].
  - destruct (loose_cmp r f k Hl Hr Hfk) as [Hp Hk].
    exists r, f. repeat split; try assumption; [apply RefDep_refl|eapply differs_changed; eassumption].
  - destruct IH as [r' [f [Hr' [Hdep [Hp Hch]]]]].
    exists r', f. repeat split; try assumption.
    eapply RefDep_step; [exact Hr|eapply loose_ref; eassumption|exact Hdep].
Qed.

End Pair.

(* ---------------- the straight-line evaluation computes Closes ---------------- *)

Definition names (env : list (string * bool)) : list string := map fst env.

(* declaration order: each predicate is defined once and only mentions predicates defined before it *)
Fixpoint well_ordered (seen : list string) (rows : list row) : bool :=
  match rows with
  | [] => true
  | r :: rs => negb (mem (comp r) seen) && forallb (fun d => mem d seen) (close_refs r)
               && well_ordered (comp r :: seen) rs
  end.

Lemma lookupb_in c env : lookupb c env = true -> In c (names env).
Proof.
  induction env as [|[k b] e IH]; simpl; [discriminate|].
  destruct (String.eqb_spec k c); [left; assumption|right; apply IH; assumption].
Qed.

Section Eval.
Variable ptrs : list string.
Variables old new : conf.

Lemma eval_rows_spec : forall rows done env,
  well_ordered (names env) rows = true ->
  names env = map comp (rev done) ->
  (forall c, In c (names env) -> (lookupb c env = true <-> Closes done ptrs old new c)) ->
  (forall r d, In r done -> In d (close_refs r) -> In d (names env)) ->
  forall c, lookupb c (eval_rows ptrs old new rows env) = true <-> Closes (done ++ rows) ptrs old new c.
Proof.
  induction rows as [|r rs IH]; intros done env Hwo Hn Henv Hclosed c; simpl.
  - rewrite app_nil_r. split.
    + intros H. apply Henv; [apply lookupb_in; exact H|exact H].
    + intros H. assert (In c (names env)) as Hin.
      { rewrite Hn. destruct H as [r' ? ? Hr' _ _|r' ? Hr' _ _]; apply in_map, in_rev; rewrite rev_involutive; exact Hr'. }
      apply Henv; assumption.
  - simpl in Hwo. apply andb_prop in Hwo. destruct Hwo as [Hwo Hrest]. apply andb_prop in Hwo. destruct Hwo as [Hfresh Hrefs].
    replace (done ++ r :: rs) with ((done ++ [r]) ++ rs) by (rewrite <- app_assoc; reflexivity).
    assert (~ In (comp r) (names env)) as Hnotin.
    { intros H. apply mem_In in H. rewrite H in Hfresh. discriminate. }
    rewrite forallb_forall in Hrefs.
    assert (forall d, In d (close_refs r) -> In d (names env)) as Hrefs' by (intros d Hd; apply mem_In, Hrefs, Hd).
    (* Closes over done ++ [r] restricted to old names equals Closes over done *)
    assert (forall d, In d (names env) -> (Closes (done ++ [r]) ptrs old new d <-> Closes done ptrs old new d)) as Hsame.
    { intros d Hd. split.
      - intros H. induction H as [r' f k Hr' Hfk Hdf | r' d' Hr' Hd' Hc IHc].
        + apply in_app_or in Hr'. destruct Hr' as [Hr'|[<-|[]]]; [eapply Closes_cmp; eassumption|contradiction].
        + apply in_app_or in Hr'. destruct Hr' as [Hr'|[<-|[]]]; [|contradiction].
          eapply Closes_ref; [exact Hr'|exact Hd'|]. apply IHc. eapply Hclosed; eassumption.
      - intros H. induction H as [r' f k Hr' Hfk Hdf | r' d' Hr' Hd' Hc IHc].
        + eapply Closes_cmp; [apply in_or_app; left; exact Hr'|exact Hfk|exact Hdf].
        + eapply Closes_ref; [apply in_or_app; left; exact Hr'|exact Hd'|]. apply IHc. eapply Hclosed; eassumption. }
    apply IH.
    + exact Hrest.
    + simpl. rewrite rev_app_distr. simpl. f_equal. exact Hn.
    + intros d Hd. simpl in Hd. simpl. destruct (String.eqb_spec (comp r) d) as [E|E].
      * subst d. split.
        -- intros Hb. apply orb_prop in Hb. destruct Hb as [Hb|Hb].
           ++ apply existsb_exists in Hb. destruct Hb as [[f k] [Hfk Hdf]].
              eapply Closes_cmp; [apply in_or_app; right; left; reflexivity|exact Hfk|exact Hdf].
           ++ apply existsb_exists in Hb. destruct Hb as [d [Hd' Hl]].
              eapply Closes_ref; [apply in_or_app; right; left; reflexivity|exact Hd'|].
              apply Hsame; [apply Hrefs'; exact Hd'|]. apply Henv; [apply Hrefs'; exact Hd'|exact Hl].
        -- intros Hc. remember (comp r) as cr eqn:Ecr.
           destruct Hc as [r' f k Hr' Hfk Hdf | r' d' Hr' Hd' Hc].
           ++ apply in_app_or in Hr'. destruct Hr' as [Hr'|[<-|[]]].
              ** exfalso. apply Hnotin. rewrite Hn. apply in_map, in_rev. rewrite rev_involutive. exact Hr'.
              ** apply orb_true_intro. left. apply existsb_exists. exists (f, k). split; assumption.
           ++ apply in_app_or in Hr'. destruct Hr' as [Hr'|[<-|[]]].
              ** exfalso. apply Hnotin. rewrite Hn. apply in_map, in_rev. rewrite rev_involutive. exact Hr'.
              ** apply orb_true_intro. right. apply existsb_exists. exists d'. split; [exact Hd'|].
                 apply Henv; [apply Hrefs'; exact Hd'|]. apply Hsame; [apply Hrefs'; exact Hd'|exact Hc].
      * destruct Hd as [Hd|Hd]; [contradiction|].
        rewrite Hsame by exact Hd. apply Henv. exact Hd.
    + intros r' d Hr' Hd. apply in_app_or in Hr'. simpl. destruct Hr' as [Hr'|[<-|[]]].
      * right. eapply Hclosed; eassumption.
      * right. apply Hrefs'. exact Hd.
Qed.

Lemma closes_eval_correct tbl c : well_ordered [] tbl = true ->
  (closes_eval tbl ptrs old new c = true <-> Closes tbl ptrs old new c).
Proof.
  intros Hwo. unfold closes_eval.
  apply (eval_rows_spec tbl [] [] Hwo eq_refl).
  - intros d [].
  - intros r d [].
Qed.

End Eval.
