(* The model side of the end-to-end cases (Model.C03_Auth.e2e_model) only ever predicts an admission that satisfies
   the end-to-end judgement: the oracle admitted the requested name, the name is valid and configured, and a reload
   between authorization and attachment left the configuration serving it unchanged. Derived from flow_sound. *)
From Coq Require Import List ZArith Bool Lia.
Require Import MTX.Model.C14_PathConf MTX.Model.C03_Auth MTX.Proofs.C14_PathConf MTX.Proofs.C03_Auth.
Import ListNotations.
Local Open Scope Z_scope.

Definition e2e_none : str -> str -> option (list str) := fun _ _ => None.

Lemma has_attached_in evs : has_attached evs = true -> exists k n, In (Attached k n) evs.
Proof.
  unfold has_attached. rewrite existsb_exists. intros [e [Hin He]].
  destruct e as [p n c i | n key c | k n | r]; try discriminate. now exists k, n.
Qed.

Lemma resolve_e2e n (c : option Z) key c' g :
  resolve e2e_none (e2e_confs n c) n = Found key c' g -> valid_name n = true /\ c = Some c'.
Proof.
  unfold resolve. destruct (valid_name n) eqn:Hv; [|discriminate].
  destruct c as [c0|]; unfold e2e_confs, find; cbn [lookup].
  - rewrite str_eqb_refl. intros H. inversion H. auto.
  - rewrite Hv. cbn. discriminate.
Qed.

Lemma e2e_flow_ok publish : flow_ok (e2e_flow publish) = true.
Proof. destruct publish; reflexivity. Qed.

Lemma e2e_model_sound publish n cr ip conf0 reload oreq :
  e2e_model publish n cr ip conf0 reload oreq = true ->
  oreq = true /\ valid_name n = true /\ (exists c, e2e_in_force conf0 reload = Some c) /\
  (publish = true -> conf0 = e2e_in_force conf0 reload).
Proof.
  unfold e2e_model. intros H. apply has_attached_in in H. destruct H as [k [n' Hin]].
  pose proof (e2e_flow_ok publish) as Hok.
  destruct (@flow_sound _ _ _ _ _ _ _ _ _ _ Hok Hin) as [Hn [Hauth [key [c [g [Hres Htwo]]]]]].
  cbn [e_n1 e_cr1 e_ip1] in *. subst n'.
  repeat rewrite andb_true_iff in Hauth. destruct Hauth as [_ Ho].
  split; [exact Ho|].
  assert (Hlast : last (match reload with Some c1 => [e2e_confs n c1] | None => [] end) (e2e_confs n conf0)
                  = e2e_confs n (e2e_in_force conf0 reload)) by (destruct reload; reflexivity).
  rewrite Hlast in Hres. apply resolve_e2e in Hres. destruct Hres as [Hv Hc1].
  split; [exact Hv|]. split; [now exists c|].
  intros Hp. subst publish.
  assert (Hk : kind_publish k = true).
  { cbn [e2e_flow] in Hin. unfold flow_events in Hin.
    destruct (find_answer _) as [c0|]; [|destruct Hin].
    unfold do_add in Hin. cbn [r_name r_skip] in Hin.
    destruct (resolve _ _ _) as [? ? ?| |]; cbn in Hin;
      repeat match type of Hin with
             | In _ (if ?b then _ else _) => destruct b
             end;
      destruct Hin as [Hin|[]]; inversion Hin; reflexivity. }
  destruct (Htwo eq_refl Hk) as [key0 [g0 Hres0]].
  apply resolve_e2e in Hres0. destruct Hres0 as [_ Hc0]. congruence.
Qed.

(* non-vacuity: admissions the model predicts, and the three ways it refuses *)
Lemma e2e_model_examples :
  let n := [112; 49] in
  (e2e_model true n 3 0 (Some 1) None true, e2e_model true n 3 0 (Some 1) (Some (Some 1)) true,
   e2e_model false n 2 1 (Some 1) None true,
   e2e_model true n 3 0 (Some 1) (Some (Some 2)) true, e2e_model true n 3 0 (Some 1) None false,
   e2e_model false [112; 47] 2 1 (Some 1) None true, e2e_model false n 2 1 None None true)
  = (true, true, true, false, false, false, false).
Proof. vm_compute. reflexivity. Qed.
