(* Proofs about Model/C20b_HlsMux.v: for every schedule of requests / releases / expiries / kicks / losses of all
   sessions, the hook calls of every hls session alternate start/stop beginning with a start, and the pair of session s is
   open exactly while the muxer can reach s - so nothing is left open once everything reachable has been closed.
   The variant that does not close the CDN session it replaces is refuted. *)
From Coq Require Import List Bool Arith Lia.
Require Import MTX.Lib.Trace MTX.Model.C20b_SessionHooks MTX.Model.C20b_HlsMux.
Import ListNotations.
Import HX.

Lemma memb_In s l : memb s l = true <-> In s l.
Proof.
  unfold memb. rewrite existsb_exists. split.
  - intros [x [Hx He]]. apply Nat.eqb_eq in He. subst. exact Hx.
  - intros H. exists s. split; [exact H|apply Nat.eqb_refl].
Qed.

Lemma memb_false s l : ~ In s l -> memb s l = false.
Proof. intros H. destruct (memb s l) eqn:E; [|reflexivity]. apply memb_In in E. contradiction. Qed.

Lemma memb_true s l : In s l -> memb s l = true.
Proof. apply memb_In. Qed.

Lemma proj_app s a b : proj s (a ++ b) = proj s a ++ proj s b.
Proof. unfold proj. rewrite filter_app, map_app. reflexivity. Qed.

Lemma proj_cons_eq s h t : proj s ((s, h) :: t) = h :: proj s t.
Proof. unfold proj. simpl. rewrite Nat.eqb_refl. reflexivity. Qed.

Lemma proj_cons_ne s i h t : i <> s -> proj s ((i, h) :: t) = proj s t.
Proof. intros H. unfold proj. simpl. apply Nat.eqb_neq in H. rewrite H. reflexivity. Qed.

Lemma proj_stops s l : NoDup l ->
  proj s (map (fun i => (i, HStop)) l) = if memb s l then [HStop] else [].
Proof.
  induction l as [|a l IH]; intros Hnd; [reflexivity|].
  inversion Hnd as [|? ? Hna Hnd']; subst. simpl map.
  destruct (Nat.eq_dec a s) as [->|Hne].
  - rewrite proj_cons_eq, (IH Hnd'), (memb_false _ _ Hna).
    unfold memb. simpl. rewrite Nat.eqb_refl. reflexivity.
  - rewrite (proj_cons_ne _ _ _ _ Hne), (IH Hnd').
    unfold memb. simpl. assert (E : Nat.eqb s a = false) by (apply Nat.eqb_neq; congruence).
    rewrite E. reflexivity.
Qed.

(* ---- the state invariant ------------------------------------------------------------------------------------------- *)
Record WF (st : mst) : Prop := mk_WF {
  wf_reg_lt : forall i, In i (m_reg st) -> i < m_nxt st;
  wf_reg_nd : NoDup (m_reg st);
  wf_cdn : forall c, m_cdn st = Some c -> c < m_nxt st /\ ~ In c (m_reg st);
  wf_pend : forall x, In x (m_pend st) -> fst x < m_nxt st /\ ~ In (fst x) (m_reg st) /\ m_cdn st <> Some (fst x);
}.

Lemma WF0 : WF mst0.
Proof. constructor; simpl; intros; try contradiction; try discriminate. constructor. Qed.

Lemma reach_pending st x : WF st -> In x (m_pend st) -> reach st (fst x) = false.
Proof.
  intros W H. destruct (wf_pend _ W _ H) as [_ [Hr Hc]]. unfold reach.
  rewrite (memb_false _ _ Hr), orb_false_r. unfold cdn_sel. destruct (m_cdn st) as [c|]; [|reflexivity].
  apply Nat.eqb_neq. congruence.
Qed.

Lemma pend_find_In r p c : pend_find r p = Some c -> In (r, c) p.
Proof.
  unfold pend_find. destruct (find _ p) as [x|] eqn:E; [|discriminate]. intros [= <-].
  apply find_some in E. destruct E as [Hin He]. apply Nat.eqb_eq in He. destruct x as [a b]. simpl in *. subst. exact Hin.
Qed.

Lemma pend_del_In r p x : In x (pend_del r p) -> In x p /\ fst x <> r.
Proof.
  unfold pend_del. rewrite filter_In. intros [H1 H2]. split; [exact H1|].
  apply negb_true_iff, Nat.eqb_neq in H2. exact H2.
Qed.

(* close2 on the selected sessions *)
Lemma close_sel_spec sel st s : WF st ->
  mon_run (alt_mon hcls) (reach st s) (proj s (snd (close_sel sel st))) = Some (reach (fst (close_sel sel st)) s) /\
  reach (fst (close_sel sel st)) s = reach st s && negb (sel s).
Proof.
  intros W. unfold close_sel. cbn [fst snd].
  assert (Hnd : NoDup (filter sel (m_reg st) ++
                       match m_cdn st with Some c => if sel c then [c] else [] | None => [] end)).
  { pose proof (wf_reg_nd _ W) as Hr. pose proof (NoDup_filter sel Hr) as Hf.
    destruct (m_cdn st) as [c|] eqn:Ec; [|rewrite app_nil_r; exact Hf].
    destruct (sel c); [|rewrite app_nil_r; exact Hf].
    destruct (wf_cdn _ W c Ec) as [_ Hc].
    rewrite <- (rev_involutive (filter sel (m_reg st) ++ [c])).
    apply NoDup_rev. rewrite rev_app_distr. simpl. constructor.
    - rewrite <- in_rev. rewrite filter_In. tauto.
    - apply NoDup_rev. exact Hf. }
  rewrite (proj_stops s _ Hnd).
  assert (Hm : memb s (filter sel (m_reg st) ++
                       match m_cdn st with Some c => if sel c then [c] else [] | None => [] end)
               = reach st s && sel s).
  { unfold memb. rewrite existsb_app. unfold reach.
    assert (E1 : existsb (Nat.eqb s) (filter sel (m_reg st)) = memb s (m_reg st) && sel s).
    { destruct (memb s (m_reg st)) eqn:Em.
      - apply memb_In in Em. destruct (sel s) eqn:Es.
        + apply memb_true. rewrite filter_In. tauto.
        + apply memb_false. rewrite filter_In. intros [_ H]. congruence.
      - apply memb_false. rewrite filter_In. intros [H _]. apply memb_true in H. congruence. }
    rewrite E1. unfold cdn_sel. destruct (m_cdn st) as [c|]; simpl.
    - destruct (Nat.eqb_spec s c) as [->|Hne].
      + destruct (sel c), (memb c (m_reg st)); simpl; rewrite ?Nat.eqb_refl; reflexivity.
      + apply Nat.eqb_neq in Hne.
        destruct (sel c), (sel s), (memb s (m_reg st)); simpl; rewrite ?Hne; reflexivity.
    - destruct (memb s (m_reg st)), (sel s); reflexivity. }
  rewrite Hm.
  assert (Hr : reach (mk_mst (m_nxt st) (m_pend st) (if cdn_sel sel (m_cdn st) then None else m_cdn st)
                             (filter (fun i => negb (sel i)) (m_reg st))) s = reach st s && negb (sel s)).
  { unfold reach. cbn [m_cdn m_reg].
    assert (E1 : memb s (filter (fun i => negb (sel i)) (m_reg st)) = memb s (m_reg st) && negb (sel s)).
    { destruct (memb s (m_reg st)) eqn:Em.
      - apply memb_In in Em. destruct (sel s) eqn:Es; simpl.
        + apply memb_false. rewrite filter_In. rewrite Es. simpl. intros [_ H]. discriminate.
        + apply memb_true. rewrite filter_In. rewrite Es. tauto.
      - apply memb_false. rewrite filter_In. intros [H _]. apply memb_true in H. congruence. }
    rewrite E1. unfold cdn_sel. destruct (m_cdn st) as [c|]; simpl.
    - destruct (Nat.eqb_spec s c) as [->|Hne].
      + destruct (sel c), (memb c (m_reg st)); simpl; rewrite ?Nat.eqb_refl; reflexivity.
      + apply Nat.eqb_neq in Hne.
        destruct (sel c), (sel s), (memb s (m_reg st)); simpl; rewrite ?Hne; reflexivity.
    - destruct (memb s (m_reg st)), (sel s); reflexivity. }
  split; [|exact Hr]. rewrite Hr.
  destruct (reach st s); destruct (sel s); reflexivity.
Qed.

Lemma close_sel_WF sel st : WF st -> WF (fst (close_sel sel st)).
Proof.
  intros W. unfold close_sel. cbn [fst]. constructor; cbn [m_nxt m_pend m_cdn m_reg].
  - intros i H. apply filter_In in H. apply (wf_reg_lt _ W). tauto.
  - apply NoDup_filter, (wf_reg_nd _ W).
  - intros c H. destruct (cdn_sel sel (m_cdn st)); [discriminate|].
    destruct (wf_cdn _ W c H) as [H1 H2]. split; [exact H1|]. rewrite filter_In. tauto.
  - intros x H. destruct (wf_pend _ W x H) as [H1 [H2 H3]]. split; [exact H1|]. split.
    + rewrite filter_In. tauto.
    + destruct (cdn_sel sel (m_cdn st)); [discriminate|exact H3].
Qed.

(* ---- every step keeps the invariant and moves each session's monitor from "reachable before" to "reachable after" -- *)
Lemma step_WF st o : WF st -> WF (fst (step true st o)).
Proof.
  intros W. destruct o as [c|r ok|ids|id|]; try (apply close_sel_WF; exact W).
  - (* MArrive *)
    simpl. constructor; cbn [m_nxt m_pend m_cdn m_reg].
    + intros i H. pose proof (wf_reg_lt _ W i H). lia.
    + apply (wf_reg_nd _ W).
    + intros c0 H. destruct (wf_cdn _ W c0 H). split; [lia|assumption].
    + intros x H.
      assert (Hold : In x (m_pend st) -> fst x < S (m_nxt st) /\ ~ In (fst x) (m_reg st) /\ m_cdn st <> Some (fst x)).
      { intros Hx. destruct (wf_pend _ W x Hx) as [H1 [H2 H3]]. repeat split; [lia|assumption|assumption]. }
      destruct (c && match m_cdn st with Some _ => true | None => false end); [apply Hold, H|].
      destruct H as [<-|H]; [|apply Hold, H]. simpl. repeat split; [lia| |].
      * intros Hi. pose proof (wf_reg_lt _ W _ Hi). lia.
      * intros Hc. destruct (wf_cdn _ W _ Hc). lia.
  - (* MProceed *)
    simpl. destruct (pend_find r (m_pend st)) as [c|] eqn:Ef; [|exact W].
    apply pend_find_In in Ef. destruct (wf_pend _ W _ Ef) as [Hlt [Hnr Hnc]]. simpl in Hlt, Hnr, Hnc.
    assert (Hp : forall x, In x (pend_del r (m_pend st)) ->
                 fst x < m_nxt st /\ ~ In (fst x) (m_reg st) /\ m_cdn st <> Some (fst x) /\ fst x <> r).
    { intros x Hx. apply pend_del_In in Hx. destruct Hx as [Hx Hne].
      destruct (wf_pend _ W x Hx) as [H1 [H2 H3]]. tauto. }
    destruct ok; [destruct c|]; cbn [fst]; constructor; cbn [m_nxt m_pend m_cdn m_reg];
      try apply (wf_reg_lt _ W); try apply (wf_reg_nd _ W).
    + intros c0 [= <-]. tauto.
    + intros x Hx. destruct (Hp x Hx) as [H1 [H2 [H3 H4]]]. repeat split; [assumption|assumption|congruence].
    + intros i [<-|H]; [exact Hlt|apply (wf_reg_lt _ W i H)].
    + constructor; [exact Hnr|apply (wf_reg_nd _ W)].
    + intros c0 H. destruct (wf_cdn _ W c0 H) as [H1 H2]. split; [exact H1|]. intros [<-|Hi]; [congruence|tauto].
    + intros x Hx. destruct (Hp x Hx) as [H1 [H2 [H3 H4]]]. repeat split; [assumption| |assumption].
      intros [E|Hi]; [congruence|tauto].
    + apply (wf_cdn _ W).
    + intros x Hx. destruct (Hp x Hx) as [H1 [H2 [H3 H4]]]. tauto.
Qed.

Lemma step_mon st o s : WF st ->
  mon_run (alt_mon hcls) (reach st s) (proj s (snd (step true st o))) = Some (reach (fst (step true st o)) s).
Proof.
  intros W. destruct o as [c|r ok|ids|id|]; try (apply close_sel_spec; exact W).
  - reflexivity.
  - simpl. destruct (pend_find r (m_pend st)) as [c|] eqn:Ef; [|reflexivity].
    apply pend_find_In in Ef. pose proof (reach_pending _ _ W Ef) as Hrr. simpl in Hrr.
    destruct (wf_pend _ W _ Ef) as [_ [Hnr Hnc]]. simpl in Hnr, Hnc.
    destruct ok; [destruct c|]; cbn [fst snd]; [| |reflexivity].
    + (* CDN session registered: the occupant of muxer.cdnSession is closed first *)
      assert (Hr' : forall t, reach (mk_mst (m_nxt st) t (Some r) (m_reg st)) s = Nat.eqb s r || memb s (m_reg st))
        by reflexivity.
      rewrite Hr'.
      destruct (Nat.eq_dec s r) as [->|Hsr].
      * rewrite Hrr, Nat.eqb_refl. destruct (m_cdn st) as [o|] eqn:Ec.
        -- assert (o <> r) by congruence. simpl app. rewrite proj_cons_ne, proj_cons_eq by assumption. reflexivity.
        -- simpl app. rewrite proj_cons_eq. reflexivity.
      * assert (E : Nat.eqb s r = false) by (apply Nat.eqb_neq; exact Hsr). rewrite E. simpl orb.
        assert (Hp : forall t, proj s (t ++ [(r, HStart)]) = proj s t).
        { intros t. rewrite proj_app, proj_cons_ne by congruence. apply app_nil_r. }
        rewrite Hp.
        destruct (m_cdn st) as [o|] eqn:Ec.
        -- destruct (wf_cdn _ W o Ec) as [_ Hno].
           destruct (Nat.eq_dec o s) as [->|Hos].
           ++ rewrite proj_cons_eq. unfold reach, cdn_sel. rewrite Ec, Nat.eqb_refl. simpl.
              rewrite (memb_false _ _ Hno). reflexivity.
           ++ rewrite proj_cons_ne by exact Hos. unfold reach, cdn_sel. rewrite Ec.
              assert (E2 : Nat.eqb s o = false) by (apply Nat.eqb_neq; congruence).
              rewrite E2. reflexivity.
        -- unfold reach, cdn_sel. rewrite Ec. reflexivity.
    + (* ordinary session *)
      destruct (Nat.eq_dec s r) as [->|Hsr].
      * rewrite proj_cons_eq, Hrr. simpl. unfold reach. cbn [m_cdn m_reg]. unfold memb. simpl.
        rewrite Nat.eqb_refl, orb_true_r. reflexivity.
      * rewrite proj_cons_ne by congruence. simpl. unfold reach. cbn [m_cdn m_reg]. unfold memb. simpl.
        assert (E : Nat.eqb s r = false) by (apply Nat.eqb_neq; exact Hsr). rewrite E. reflexivity.
Qed.

(* ---- all schedules --------------------------------------------------------------------------------------------------- *)
Lemma run_inv ops : forall st s, WF st ->
  mon_run (alt_mon hcls) (reach st s) (proj s (trace (step true) st ops)) = Some (reach (final (step true) st ops) s) /\
  WF (final (step true) st ops).
Proof.
  induction ops as [|o r IH]; intros st s W.
  - split; [reflexivity|exact W].
  - rewrite trace_cons, final_cons, proj_app, mon_run_app, (step_mon st o s W).
    apply IH, step_WF, W.
Qed.

Theorem hls_mux_pairs : forall ops s,
  mon_run (alt_mon hcls) false (proj s (mtrace true ops)) = Some (reach (mfinal true ops) s).
Proof. intros ops s. apply (run_inv ops mst0 s WF0). Qed.

Lemma no_panic_stops (l : list nat) : existsb (fun e => is_panic (snd e)) (map (fun i => (i, HStop)) l) = false.
Proof. induction l as [|x l IH]; [reflexivity|exact IH]. Qed.

Lemma no_panic_step st o : existsb (fun e => is_panic (snd e)) (snd (step true st o)) = false.
Proof.
  destruct o as [c|r ok|ids|id|]; try (unfold step, close_sel; cbn [snd]; apply no_panic_stops).
  - reflexivity.
  - simpl. destruct (pend_find r (m_pend st)) as [c|]; [|reflexivity].
    destruct ok; [destruct c|]; simpl; try reflexivity. destruct (m_cdn st); reflexivity.
Qed.

Lemma no_panic ops : forall st, existsb (fun e => is_panic (snd e)) (trace (step true) st ops) = false.
Proof.
  induction ops as [|o r IH]; intros st; [reflexivity|].
  rewrite trace_cons, existsb_app, no_panic_step, IH. reflexivity.
Qed.

Lemma proj_no_panic s t : existsb (fun e => is_panic (snd e)) t = false -> existsb is_panic (proj s t) = false.
Proof.
  induction t as [|[i h] t IH]; [reflexivity|]. simpl. intros H. apply orb_false_iff in H. destruct H as [H1 H2].
  unfold proj. simpl. destruct (Nat.eqb i s); simpl; [rewrite H1|]; apply IH, H2.
Qed.

(* boolean form, as used for the other hook sites (pairs_okb): well-formed pairs at any time ... *)
Theorem hls_mux_pairs_okb : forall ops s, pairs_okb false (proj s (mtrace true ops)) = true.
Proof.
  intros ops s. pose proof (hls_mux_pairs ops s) as H. unfold pairs_okb, mtrace in *.
  rewrite (proj_no_panic s _ (no_panic ops mst0)), H. reflexivity.
Qed.

(* ... and closed once the muxer has dropped all its sessions (instance crash, muxer destroyed, Server.Close), however
   many requests were held together before and whatever is released afterwards without being admitted *)
Lemma reach_close_all st s : WF st -> reach (fst (step true st MCloseAll)) s = false.
Proof. intros W. simpl step. rewrite (proj2 (close_sel_spec (fun _ => true) st s W)). apply andb_false_r. Qed.

Definition quiet (o : mop) : bool :=
  match o with MProceed _ true => false | _ => true end.

Lemma quiet_keeps_unreachable o st s : quiet o = true -> WF st -> reach st s = false -> reach (fst (step true st o)) s = false.
Proof.
  intros Hq W Hr. destruct o as [c|r ok|ids|id|].
  - exact Hr.
  - destruct ok; [discriminate|]. simpl. destruct (pend_find r (m_pend st)); exact Hr.
  - simpl step. rewrite (proj2 (close_sel_spec _ st s W)), Hr. reflexivity.
  - simpl step. rewrite (proj2 (close_sel_spec _ st s W)), Hr. reflexivity.
  - simpl step. rewrite (proj2 (close_sel_spec _ st s W)), Hr. reflexivity.
Qed.

Lemma quiet_post post : forall st s, forallb quiet post = true -> WF st -> reach st s = false ->
  reach (final (step true) st post) s = false.
Proof.
  induction post as [|o r IH]; intros st s Hq W H0; [exact H0|].
  simpl in Hq. apply andb_true_iff in Hq. destruct Hq as [Ho Hr]. rewrite final_cons.
  apply (IH _ _ Hr); [apply step_WF, W|apply quiet_keeps_unreachable; assumption].
Qed.

Theorem hls_mux_closed_after_close : forall pre post s,
  forallb quiet post = true ->
  pairs_okb true (proj s (mtrace true (pre ++ MCloseAll :: post))) = true.
Proof.
  intros pre post s Hq. pose proof (hls_mux_pairs (pre ++ MCloseAll :: post) s) as H. unfold pairs_okb, mtrace in *.
  rewrite (proj_no_panic s _ (no_panic _ mst0)), H. clear H.
  assert (E : reach (mfinal true (pre ++ MCloseAll :: post)) s = false).
  { unfold mfinal. rewrite final_app, final_cons.
    destruct (run_inv pre mst0 s WF0) as [_ W].
    apply (quiet_post post _ s Hq); [apply step_WF, W|apply reach_close_all, W]. }
  rewrite E. reflexivity.
Qed.

(* the variant whose addSession drops the replaced CDN session without close2(): two CDN requests pass the handler's
   "no CDN session yet" check together, the second one registered overwrites the first, whose pair stays open for ever *)
Definition witness_concurrent_first : list mop :=
  [MArrive true; MArrive true; MProceed 0 true; MProceed 1 true; MCloseAll].

Theorem hls_mux_replace_without_close_refuted :
  mtrace false witness_concurrent_first = [(0, HStart); (1, HStart); (1, HStop)] /\
  pairs_okb true (proj 0 (mtrace false witness_concurrent_first)) = false /\
  mtrace true witness_concurrent_first = [(0, HStart); (0, HStop); (1, HStart); (1, HStop)] /\
  pairs_okb true (proj 0 (mtrace true witness_concurrent_first)) = true.
Proof. vm_compute. repeat split. Qed.
