(* Path event loop: state-level theorems of C16, C18, C19 (read off the invariant), the C19 finding on
   the pre-repair model, and the step-level facts that need no invariant. *)
From Coq Require Import List ZArith Bool Lia.
Require Import MTX.Lib.Trace MTX.Model.PathSM MTX.Proofs.PathSM MTX.Proofs.PathSM_Attach MTX.Proofs.PathSM_List.
Import ListNotations.
Local Open Scope Z_scope.

(* request ids on hold *)
Definition held (s : pstate) : list Z := s_dhold s ++ map fst (s_rhold s).

(* what "a held request has a deadline" means: the matching automaton waits and its start timer is armed *)
Definition has_deadline (s : pstate) : Prop :=
  s_stream s = None /\
  if od_static (s_conf s)
  then s_ssState s = OdWaiting /\ s_ssReadyT s = true /\ s_ssRunning s = true
  else od_pub (s_conf s) = true /\ s_pubState s = OdWaiting /\ s_pubReadyT s = true /\ s_hUnDemand s = true.

Ltac facts H :=
  enum H; cbn; unfold od_static, od_pub; cbn;
  repeat split; intros; try reflexivity; try discriminate; try congruence; try tauto.

(* the sub-stream that should be the current one: the attached publisher's, else the ready static source's,
   else the offline one of an alwaysAvailable stream; none without stream *)
Definition expected_sub (s : pstate) : sub :=
  match s_stream s with
  | None => SNone
  | Some _ =>
      match s_source s with
      | Some p => SPub p
      | None => if s_instReady s then SStatic else if c_aa (s_conf s) then SOffline else SNone
      end
  end.

Lemma live_facts fx s : inv_b fx s = true -> s_closed s = false ->
  (c_static (s_conf s) = true -> s_source s = None) /\
  (c_static (s_conf s) = false -> c_aa (s_conf s) = false -> (s_source s = None <-> s_stream s = None)) /\
  (s_stream s = None -> s_readers s = []) /\
  (s_stream s <> None -> s_hUnavail s = true) /\
  (s_stream s = None -> s_hOffline s = false) /\
  (c_aa (s_conf s) = true -> s_stream s <> None) /\
  (c_aa (s_conf s) = false -> s_stream s <> None -> s_hOffline s = true) /\
  (c_aa (s_conf s) = true -> (s_hOffline s = true <-> (s_source s <> None \/ s_instReady s = true))) /\
  s_sub s = expected_sub s.
Proof.
  intros H Hc. start s. cbn in Hc. subst. facts H.
  all: try (left; discriminate); try (right; reflexivity); try (intuition congruence).
Qed.

Lemma held_nil_iff s : held s = [] <-> s_dhold s = [] /\ s_rhold s = [].
Proof.
  unfold held. split.
  - intros H. apply app_eq_nil in H. destruct H as [H1 H2]. split; [exact H1|].
    destruct (s_rhold s); [reflexivity|discriminate].
  - intros [-> ->]. reflexivity.
Qed.

Lemma deadline_fact s : inv_b true s = true -> s_closed s = false -> held s <> [] -> has_deadline s.
Proof.
  intros H Hc Hh. rewrite held_nil_iff in Hh. unfold has_deadline. start s. cbn in Hc, Hh. subst.
  enum H; cbn; unfold od_static, od_pub; cbn; try (exfalso; apply Hh; split; reflexivity);
  repeat split; reflexivity.
Qed.

Lemma closed_facts fx s : inv_b fx s = true -> s_closed s = true ->
  held s = [] /\ s_stream s = None /\ s_source s = None /\ s_readers s = [] /\ s_hOffline s = false /\ s_hUnDemand s = false /\
  s_sub s = SNone.
Proof.
  intros H Hc. start s. cbn in Hc. subst. unfold inv_b, closed_b, no_holds_b in H. cbn in H.
  split_hyps. prune.
  destruct str, src, hof, hud, sb; cbn in *; try discriminate. repeat split; reflexivity.
Qed.

(* ---- C16 ------------------------------------------------------------------------------------------ *)
Lemma c16_one_source fx cf ops :
  conf_ok cf = true ->
  let s := final (step_gen fx) (init_state cf) ops in
  (c_static cf = true -> s_source s = None) /\
  (c_static cf = false -> c_aa cf = false -> (s_source s = None <-> s_stream s = None)) /\
  (c_aa cf = true -> s_closed s = false -> s_stream s <> None).
Proof.
  intros Hc s. pose proof (inv_run fx cf ops Hc) as [Hb _]. fold s in Hb.
  assert (Hcf : s_conf s = cf).
  { unfold s. rewrite conf_run. apply init_fields. }
  destruct (s_closed s) eqn:Ecl.
  - destruct (closed_facts _ _ Hb Ecl) as (_ & A & B & _). rewrite A, B. split; [tauto|]. split; [tauto|]. intros _ Hx. discriminate Hx.
  - destruct (live_facts _ _ Hb Ecl) as (A & B & _ & _ & _ & C & _). rewrite Hcf in *. split; [exact A|]. split; [exact B|]. intros Ha _. exact (C Ha).
Qed.

(* the current sub-stream after any history *)
Lemma c16_current_substream fx cf ops :
  conf_ok cf = true ->
  let s := final (step_gen fx) (init_state cf) ops in s_sub s = expected_sub s.
Proof.
  intros Hc s. pose proof (inv_run fx cf ops Hc) as [Hb _]. fold s in Hb.
  destruct (s_closed s) eqn:Ecl.
  - destruct (closed_facts _ _ Hb Ecl) as (_ & A & _ & _ & _ & _ & B). unfold expected_sub. rewrite A, B. reflexivity.
  - apply (live_facts _ _ Hb Ecl).
Qed.

Lemma c16_reject_when_busy fx s q p ok old :
  s_closed s = false -> c_static (s_conf s) = false -> c_override (s_conf s) = false ->
  s_source s = Some old ->
  step_gen fx s (AddPublisher q p ok) = (s, [EAnswer q (AErr E_BUSY)]).
Proof.
  intros Hc Hs Ho Hsrc. unfold step_gen, do_add_publisher. rewrite Hc, Hs, Hsrc, Ho. reflexivity.
Qed.

(* ---- C18 ------------------------------------------------------------------------------------------ *)
Lemma c18_bounded fx cf ops :
  conf_ok cf = true -> c_maxr cf <> 0 ->
  Z.of_nat (length (s_readers (final (step_gen fx) (init_state cf) ops))) <= Z.max 0 (c_maxr cf).
Proof.
  intros Hc Hm. pose proof (inv_run fx cf ops Hc) as [_ [_ Hl]].
  rewrite conf_run in Hl. destruct (init_fields cf) as [_ E]. rewrite E in Hl. apply Hl. exact Hm.
Qed.

Lemma c18_nodup fx cf ops :
  conf_ok cf = true -> NoDup (s_readers (final (step_gen fx) (init_state cf) ops)).
Proof. intros Hc. pose proof (inv_run fx cf ops Hc) as [_ [Hn _]]. exact Hn. Qed.

Lemma c18_readd_unchanged fx s q r g :
  s_closed s = false -> s_stream s = Some g -> In r (s_readers s) ->
  step_gen fx s (AddReader q r) = (s, [EAnswer q (AStream g)]).
Proof.
  intros Hc Hs Hin. unfold step_gen, do_add_reader, add_reader_post, cur_stream. rewrite Hc, Hs.
  apply mem_in in Hin. rewrite Hin. reflexivity.
Qed.

Lemma c18_readers_need_stream fx cf ops :
  conf_ok cf = true ->
  let s := final (step_gen fx) (init_state cf) ops in s_stream s = None -> s_readers s = [].
Proof.
  intros Hc s Hs. pose proof (inv_run fx cf ops Hc) as [Hb _]. fold s in Hb.
  destruct (s_closed s) eqn:Ecl.
  - apply (closed_facts _ _ Hb Ecl).
  - apply (live_facts _ _ Hb Ecl). exact Hs.
Qed.

(* ---- C19 ------------------------------------------------------------------------------------------ *)
Lemma c19_held_has_deadline cf ops :
  conf_ok cf = true ->
  let s := final step (init_state cf) ops in
  held s <> [] -> s_closed s = false /\ has_deadline s.
Proof.
  intros Hc s Hh. pose proof (inv_run true cf ops Hc) as [Hb _]. change (step_gen true) with step in Hb. fold s in Hb.
  destruct (s_closed s) eqn:Ecl.
  - destruct (closed_facts _ _ Hb Ecl) as (A & _). contradiction.
  - split; [reflexivity|]. apply deadline_fact; assumption.
Qed.

(* the finding, on the code as it was before the repair *)
Definition c19_witness_conf : pconf := mkConf false false true 0 true true true true true true false.
Definition c19_witness_ops : list pop :=
  [AddReader 1 1; AddPublisher 2 1 true; RemovePublisher 1; RemoveReader 1; AddReader 3 2; TimerFire TPubClose].

Lemma c19_held_has_deadline_refuted :
  exists cf ops,
    conf_ok cf = true /\
    let s := final step_unfixed (init_state cf) ops in
    held s = [3] /\ s_closed s = false /\ ~ has_deadline s /\
    (* no timer is armed, the command is not running, and request 3 was never answered *)
    s_pubReadyT s = false /\ s_pubCloseT s = false /\ s_hUnDemand s = false /\
    ~ In 3 (keys (fun e => match e with EAnswer q _ => Some q | _ => None end)
                 (trace step_unfixed (init_state cf) ops)).
Proof.
  exists c19_witness_conf, c19_witness_ops. vm_compute.
  repeat split; try reflexivity.
  - intros (_ & _ & H & _). discriminate H.
  - intros [H|[H|[]]]; discriminate H.
Qed.

(* the same history on the repaired code: the new reader restarts the command and has a deadline *)
Lemma c19_witness_repaired :
  let s := final step (init_state c19_witness_conf) c19_witness_ops in
  held s = [3] /\ s_pubState s = OdWaiting /\ s_pubReadyT s = true /\ s_hUnDemand s = true.
Proof. vm_compute. repeat split; reflexivity. Qed.
