(* decode (encode au) = au for the rtph265 packetizer model: the decoder model, fed the stamped packets of one
   access unit, answers "more packets needed" for all but the last packet and returns the access unit at the
   last one, and is then ready for the next unit. Same plan as C23_RtpH264Rt/Rt2.v. *)
From Coq Require Import List ZArith Bool Lia Arith.
Require Import MTX.Lib.IntWrap MTX.Model.C23_RtpH264 MTX.Model.C23_RtpH265.
Require Import MTX.Proofs.C23_RtpH264 MTX.Proofs.C23_RtpH264Seq MTX.Proofs.C23_RtpH264Rt MTX.Proofs.C23_RtpH264Rt2
               MTX.Proofs.C23_RtpH265.
Import ListNotations.
Local Open Scope Z_scope.

(* ------------------------------------------------------------------ finite sweeps for the bit-level facts *)

Definition fu5_hdr (s e b0 : Z) : Z := Z.lor (Z.lor (Z.shiftl s 7) (Z.shiftl e 6)) (fu5_typ b0).

Definition hdr5_check (b0 : Z) : bool :=
  (Z.land (Z.shiftr (fu5_h0 b0) 1) 63 =? 49)
  && forallb (fun s => forallb (fun e =>
       (Z.shiftr (fu5_hdr s e b0) 7 =? s) && (Z.land (Z.shiftr (fu5_hdr s e b0) 6) 1 =? e)
       && (Z.land (fu5_hdr s e b0) 63 =? fu5_typ b0)) [0; 1]) [0; 1].

Lemma hdr5_sweep : forallb hdr5_check (zrange 256) = true.
Proof. vm_compute. reflexivity. Qed.

Lemma fu5_facts b0 s e : 0 <= b0 < 256 -> (s = 0 \/ s = 1) -> (e = 0 \/ e = 1) ->
  Z.land (Z.shiftr (fu5_h0 b0) 1) 63 = 49 /\ Z.shiftr (fu5_hdr s e b0) 7 = s
  /\ Z.land (Z.shiftr (fu5_hdr s e b0) 6) 1 = e /\ Z.land (fu5_hdr s e b0) 63 = fu5_typ b0.
Proof.
  intros Hb Hs He. pose proof (sweep 256 hdr5_check hdr5_sweep b0 ltac:(simpl; lia)) as H.
  unfold hdr5_check in H. apply andb_prop in H. destruct H as [H1 H2]. apply Z.eqb_eq in H1.
  rewrite forallb_forall in H2. specialize (H2 s ltac:(simpl; destruct Hs; auto)).
  rewrite forallb_forall in H2. specialize (H2 e ltac:(simpl; destruct He; auto)).
  apply andb_prop in H2. destruct H2 as [H2 H4]. apply andb_prop in H2. destruct H2 as [H2 H3].
  apply Z.eqb_eq in H2, H3, H4. auto.
Qed.

(* the two-byte NAL unit header rebuilt by the decoder from the FU header *)
Definition head5 (b0 b1 : Z) : Z :=
  Z.lor (Z.lor (Z.shiftl (Z.land (fu5_h0 b0) 129) 8) (Z.shiftl (fu5_typ b0) 9)) b1.

Definition head5_check (b0 : Z) : bool :=
  forallb (fun b1 => (Z.land (Z.shiftr (head5 b0 b1) 8) 255 =? b0) && (Z.land (head5 b0 b1) 255 =? b1)) (zrange 256).

Lemma head5_sweep : forallb head5_check (zrange 256) = true.
Proof. vm_compute. reflexivity. Qed.

Lemma head5_facts b0 b1 : 0 <= b0 < 256 -> 0 <= b1 < 256 ->
  Z.land (Z.shiftr (head5 b0 b1) 8) 255 = b0 /\ Z.land (head5 b0 b1) 255 = b1.
Proof.
  intros H0 H1. pose proof (sweep 256 head5_check head5_sweep b0 ltac:(simpl; lia)) as H.
  unfold head5_check in H. rewrite forallb_forall in H.
  specialize (H b1 (in_zrange 256 b1 ltac:(change (Z.of_nat 256) with 256; lia))).
  apply andb_prop in H. destruct H as [A B]. apply Z.eqb_eq in A, B. auto.
Qed.

(* the first byte of an aggregation packet is 96 whatever the layer id *)
Lemma agg5_h0 layer : Z.lor 96 (Z.land layer 32) = 96.
Proof.
  apply Z.bits_inj'. intros n Hn. rewrite Z.lor_spec, Z.land_spec.
  change 32 with (2 ^ 5). rewrite Z.pow2_bits_eqb by lia.
  destruct (5 =? n) eqn:E; [apply Z.eqb_eq in E; subst n; reflexivity|].
  rewrite andb_false_r, orb_false_r. reflexivity.
Qed.

(* ------------------------------------------------------------------ the frame buffer *)

Definition fbstate5 (d : dec5) (F : list bytes) : Prop :=
  d.(d5_fb) = F /\ d.(d5_fblen) = blen F /\ d.(d5_fbsize) = au_size F.

Definition clean5 (d : dec5) : Prop := fbstate5 d [].

Lemma dec5_init_clean : clean5 dec5_init.
Proof. repeat split. Qed.

Lemma decode5_of_nalus d pkt d1 nalus F :
  decode5_nalus d pkt = (d1, inl nalus) -> fbstate5 d1 F ->
  blen F + blen nalus <= max_nalus5 -> au_size F + au_size nalus <= max_au_size5 ->
  exists d2, decode5 d pkt = (d2, last_out pkt.(p_marker) (F ++ nalus))
             /\ fbstate5 d2 (if pkt.(p_marker) then [] else F ++ nalus).
Proof.
  intros Hdn (Hfb & Hlen & Hsz) Hl1 Hl2. unfold decode5. rewrite Hdn, Hlen, Hsz, Hfb.
  destruct (blen F + blen nalus >? max_nalus5) eqn:E1; [apply Z.gtb_lt in E1; lia|].
  destruct (au_size F + au_size nalus >? max_au_size5) eqn:E2; [apply Z.gtb_lt in E2; lia|].
  unfold last_out. destruct (p_marker pkt).
  - eexists. split; [reflexivity|]. repeat split.
  - eexists. split; [reflexivity|]. unfold fbstate5. cbn [d5_fb d5_fblen d5_fbsize].
    rewrite blen_app, au_size_app. repeat split.
Qed.

Lemma decode5_run_app d a b :
  decode5_run d (a ++ b) =
  let '(oa, d1) := decode5_run d a in let '(ob, d2) := decode5_run d1 b in (oa ++ ob, d2).
Proof.
  revert d. induction a as [|p a IH]; intros d.
  - cbn [app decode5_run]. destruct (decode5_run d b). reflexivity.
  - cbn [app decode5_run]. destruct (decode5 d p) as [d1 o]. rewrite IH.
    destruct (decode5_run d1 a) as [oa d2]. destruct (decode5_run d2 b) as [ob d3]. reflexivity.
Qed.

(* ------------------------------------------------------------------ NAL units that survive the round trip *)

(* two-byte header present (bytes in range), not one of the RTP-only types 48 (aggregation), 49 (fragmentation),
   50 (PACI), no start code 00 00 01 inside *)
Definition nal5_ok (n : bytes) : Prop :=
  match n with
  | b0 :: b1 :: _ => 0 <= b0 < 256 /\ 0 <= b1 < 256 /\ ~ (48 <= fu5_typ b0 <= 50) /\ no_sc n
  | _ => False
  end.

Lemma nal5_ok_len2 n : nal5_ok n -> len2 n.
Proof.
  unfold len2. destruct n as [|b0 [|b1 r]]; [intros []|intros []|]. intros _. rewrite !blen_cons.
  pose proof (blen_nonneg r). lia.
Qed.

Lemma nal5_ok_nonempty n : nal5_ok n -> n <> [].
Proof. destruct n; [intros []|discriminate]. Qed.

(* ------------------------------------------------------------------ single NAL unit packet *)

Lemma single5_decode d seq ts m ssrc n F :
  nal5_ok n -> fbstate5 d F ->
  blen F + 1 <= max_nalus5 -> au_size F + blen n <= max_au_size5 ->
  exists d2, decode5 d (mkpkt seq ts m ssrc n) = (d2, last_out m (F ++ [n]))
             /\ fbstate5 d2 (if m then [] else F ++ [n]).
Proof.
  intros Hok Hst Hl1 Hl2. destruct n as [|b0 [|b1 r]]; [destruct Hok|destruct Hok|]. destruct Hok as (Hb0 & Hb1 & Htyp & Hsc).
  assert (Hdn : decode5_nalus d (mkpkt seq ts m ssrc (b0 :: b1 :: r)) = (reset_frags5 d, inl [b0 :: b1 :: r])).
  { unfold decode5_nalus. cbn [p_payload]. fold (fu5_typ b0).
    destruct (fu5_typ b0 =? 48) eqn:E1; [apply Z.eqb_eq in E1; lia|].
    destruct (fu5_typ b0 =? 49) eqn:E2; [apply Z.eqb_eq in E2; lia|].
    destruct (fu5_typ b0 =? 50) eqn:E3; [apply Z.eqb_eq in E3; lia|]. reflexivity. }
  pose proof (decode5_of_nalus d (mkpkt seq ts m ssrc (b0 :: b1 :: r)) _ [b0 :: b1 :: r] F Hdn) as H.
  cbn [p_marker] in H. apply H.
  - exact Hst.
  - unfold blen at 2. cbn [length]. lia.
  - cbn [au_size]. lia.
Qed.

(* ------------------------------------------------------------------ aggregation packet *)

Lemma match_nonnil5 (f : nat) (l : bytes) (acc : list bytes) : l <> [] ->
  match l with [] => Some acc | c :: r => agg5_loop f (c :: r) acc end = agg5_loop f l acc.
Proof. destruct l; [congruence|reflexivity]. Qed.

Lemma agg5_loop_entries : forall nalus acc fuel,
  nalus <> [] -> Forall (fun n => n <> [] /\ blen n < 65536) nalus -> (length nalus <= fuel)%nat ->
  agg5_loop fuel (concat (map stap_entry nalus)) acc = Some (acc ++ nalus).
Proof.
  induction nalus as [|n ns IH]; intros acc fuel Hne Hall Hfuel; [congruence|].
  destruct fuel as [|f]; [simpl in Hfuel; lia|].
  inversion Hall as [|? ? [Hn Hlen] Hall']; subst.
  cbn [map concat]. unfold stap_entry at 1. cbn [app agg5_loop].
  rewrite (stap_size (blen n)) by (pose proof (blen_nonneg n); lia).
  destruct (blen n =? 0) eqn:E0.
  { apply Z.eqb_eq in E0. destruct n; [congruence|rewrite blen_cons in E0; pose proof (blen_nonneg n); lia]. }
  destruct (blen n >? blen (n ++ concat (map stap_entry ns))) eqn:E1.
  { apply Z.gtb_lt in E1. rewrite blen_app in E1. pose proof (blen_nonneg (concat (map stap_entry ns))). lia. }
  cbn [orb]. rewrite firstn_blen_app, skipn_blen_app.
  destruct ns as [|n2 ns'].
  - cbn [map concat]. reflexivity.
  - remember (n2 :: ns') as ns eqn:Ens.
    assert (Hc : concat (map stap_entry ns) <> []).
    { rewrite Ens. cbn [map concat]. unfold stap_entry at 1. discriminate. }
    rewrite (match_nonnil5 f _ (acc ++ [n]) Hc). rewrite IH; [rewrite <- app_assoc; reflexivity|rewrite Ens; discriminate|exact Hall'|].
    simpl in Hfuel. lia.
Qed.

Lemma agg5_decode d seq ts m ssrc nalus F :
  nalus <> [] -> Forall (fun n => n <> [] /\ blen n < 65536) nalus -> fbstate5 d F ->
  blen F + blen nalus <= max_nalus5 -> au_size F + au_size nalus <= max_au_size5 ->
  exists d2, decode5 d (mkpkt seq ts m ssrc (agg5_payload nalus)) = (d2, last_out m (F ++ nalus))
             /\ fbstate5 d2 (if m then [] else F ++ nalus).
Proof.
  intros Hne Hall Hst Hl1 Hl2.
  assert (Hdn : decode5_nalus d (mkpkt seq ts m ssrc (agg5_payload nalus))
                = (set_first5 (reset_frags5 d), inl nalus)).
  { unfold decode5_nalus, agg5_payload. destruct (min_ids nalus 255 255) as [layer tid]. cbn [p_payload].
    rewrite agg5_h0. change (Z.land (Z.shiftr 96 1) 63 =? 48) with true. cbv iota.
    rewrite (agg5_loop_entries nalus [] _ Hne Hall) by (pose proof (concat_stap_len nalus); lia).
    reflexivity. }
  pose proof (decode5_of_nalus d (mkpkt seq ts m ssrc (agg5_payload nalus)) _ nalus F Hdn) as H.
  cbn [p_marker] in H. apply H; try assumption.
Qed.

(* ------------------------------------------------------------------ fragmentation units, one at a time *)

Lemma fu5_first d seq ts m ssrc b0 b1 chunk :
  0 <= b0 < 256 -> 0 <= b1 < 256 ->
  decode5 d (mkpkt seq ts m ssrc (fu5_h0 b0 :: b1 :: fu5_hdr 1 0 b0 :: chunk))
  = (set_first5 (set_frags5 (reset_frags5 d) (b0 :: b1 :: chunk) (2 + blen chunk) (wrapu16 (seq + 1))), DMore).
Proof.
  intros Hb0 Hb1. destruct (fu5_facts b0 1 0 Hb0 (or_intror eq_refl) (or_introl eq_refl)) as (H1 & H2 & H3 & H4).
  destruct (head5_facts b0 b1 Hb0 Hb1) as [G1 G2].
  unfold decode5, decode5_nalus. cbn [p_payload p_seq]. cbv zeta.
  rewrite H1. change (49 =? 48) with false. change (49 =? 49) with true. cbv iota.
  rewrite H2. change (1 =? 1) with true. cbv iota.
  rewrite H3. change (negb (0 =? 0)) with false. cbv iota.
  rewrite H4. fold (head5 b0 b1). rewrite G1, G2. reflexivity.
Qed.

Lemma fu5_mid d seq ts m ssrc b0 b1 chunk :
  0 <= b0 < 256 -> 0 < d.(d5_fsize) -> seq = d.(d5_next) -> d.(d5_fsize) + blen chunk <= max_au_size5 ->
  decode5 d (mkpkt seq ts m ssrc (fu5_h0 b0 :: b1 :: fu5_hdr 0 0 b0 :: chunk))
  = (set_frags5 d (d.(d5_frags) ++ chunk) (d.(d5_fsize) + blen chunk) (wrapu16 (d.(d5_next) + 1)), DMore).
Proof.
  intros Hb Hfs Hseq Hsz. destruct (fu5_facts b0 0 0 Hb (or_introl eq_refl) (or_introl eq_refl)) as (H1 & H2 & H3 & H4).
  unfold decode5, decode5_nalus. cbn [p_payload p_seq]. cbv zeta.
  rewrite H1. change (49 =? 48) with false. change (49 =? 49) with true. cbv iota.
  rewrite H2. change (0 =? 1) with false. cbv iota.
  destruct (d5_fsize d =? 0) eqn:E0; [apply Z.eqb_eq in E0; lia|].
  rewrite Hseq, Z.eqb_refl. cbn [negb].
  destruct (d5_fsize d + blen chunk >? max_au_size5) eqn:E1; [apply Z.gtb_lt in E1; lia|].
  rewrite H3. change (negb (0 =? 1)) with true. cbv iota. reflexivity.
Qed.

Lemma fu5_last d seq ts m ssrc b0 b1 chunk F :
  0 <= b0 < 256 -> 0 < d.(d5_fsize) -> seq = d.(d5_next) -> d.(d5_fsize) + blen chunk <= max_au_size5 ->
  no_sc (d.(d5_frags) ++ chunk) -> d.(d5_frags) <> [] -> fbstate5 d F ->
  blen F + 1 <= max_nalus5 -> au_size F + blen (d.(d5_frags) ++ chunk) <= max_au_size5 ->
  exists d2, decode5 d (mkpkt seq ts m ssrc (fu5_h0 b0 :: b1 :: fu5_hdr 0 1 b0 :: chunk))
             = (d2, last_out m (F ++ [d.(d5_frags) ++ chunk]))
             /\ fbstate5 d2 (if m then [] else F ++ [d.(d5_frags) ++ chunk]).
Proof.
  intros Hb Hfs Hseq Hsz Hsc Hne Hst Hl1 Hl2.
  destruct (fu5_facts b0 0 1 Hb (or_introl eq_refl) (or_intror eq_refl)) as (H1 & H2 & H3 & H4).
  assert (Hne2 : d5_frags d ++ chunk <> []).
  { intros H. apply app_eq_nil in H. destruct H; congruence. }
  assert (Hdn : exists d1, decode5_nalus d (mkpkt seq ts m ssrc (fu5_h0 b0 :: b1 :: fu5_hdr 0 1 b0 :: chunk))
                           = (d1, inl [d5_frags d ++ chunk]) /\ fbstate5 d1 F).
  { unfold decode5_nalus. cbn [p_payload p_seq]. cbv zeta.
    rewrite H1. change (49 =? 48) with false. change (49 =? 49) with true. cbv iota.
    rewrite H2. change (0 =? 1) with false. cbv iota.
    destruct (d5_fsize d =? 0) eqn:E0; [apply Z.eqb_eq in E0; lia|].
    rewrite Hseq, Z.eqb_refl. cbn [negb].
    destruct (d5_fsize d + blen chunk >? max_au_size5) eqn:E1; [apply Z.gtb_lt in E1; lia|].
    rewrite H3. change (negb (1 =? 1)) with false. cbv iota.
    cbn [set_frags5 d5_frags]. rewrite (split_nalus_one _ Hne2 Hsc).
    eexists. split; [reflexivity|]. exact Hst. }
  destruct Hdn as (d1 & Hdn & Hst1).
  pose proof (decode5_of_nalus d (mkpkt seq ts m ssrc (fu5_h0 b0 :: b1 :: fu5_hdr 0 1 b0 :: chunk)) d1
                [d5_frags d ++ chunk] F Hdn) as H.
  cbn [p_marker] in H. apply H; try assumption.
  cbn [au_size]. lia.
Qed.

(* ------------------------------------------------------------------ the rest of a fragmented NAL unit *)

Lemma frag5_loop_SS k avail h0 h1 typ start marker body e :
  frag5_loop (S (S k)) avail h0 h1 typ start marker body e =
  let '(r, e') := frag5_loop (S k) avail h0 h1 typ 0 marker (skipn avail body) (bump e) in
  (mkpkt (e_seq e) 0 (false && marker) (e_ssrc e)
         (h0 :: h1 :: Z.lor (Z.lor (Z.shiftl start 7) (Z.shiftl 0 6)) typ :: firstn avail body) :: r, e').
Proof. reflexivity. Qed.

Lemma frag5_rest : forall k avail b0 b1 marker body e d delta F,
  0 <= b0 < 256 -> 0 < d.(d5_fsize) -> d.(d5_next) = e.(e_seq) ->
  d.(d5_fsize) + blen body <= max_au_size5 -> no_sc (d.(d5_frags) ++ body) -> d.(d5_frags) <> [] ->
  fbstate5 d F ->
  blen F + 1 <= max_nalus5 -> au_size F + blen (d.(d5_frags) ++ body) <= max_au_size5 ->
  exists d2,
    decode5_run d (map (stamp delta) (fst (frag5_loop (S k) avail (fu5_h0 b0) b1 (fu5_typ b0) 0 marker body e)))
    = (outs (S k) (last_out marker (F ++ [d.(d5_frags) ++ body])), d2)
    /\ fbstate5 d2 (if marker then [] else F ++ [d.(d5_frags) ++ body]).
Proof.
  induction k as [|k IH]; intros avail b0 b1 marker body e d delta F Hb Hfs Hnx Hsz Hsc Hne Hst Hl1 Hl2.
  - cbn [frag5_loop fst map andb].
    change (Z.lor (Z.lor (Z.shiftl 0 7) (Z.shiftl 1 6)) (fu5_typ b0)) with (fu5_hdr 0 1 b0).
    rewrite stamp_mk, firstn_all. cbn [decode5_run].
    destruct (fu5_last d (e_seq e) (wrapu32 (0 + delta)) marker (e_ssrc e) b0 b1 body F Hb Hfs (eq_sym Hnx) Hsz Hsc Hne Hst Hl1 Hl2)
      as (d2 & Hd & Hst2).
    rewrite Hd. exists d2. split; [reflexivity|exact Hst2].
  - rewrite frag5_loop_SS.
    match goal with |- context [frag5_loop (S k) ?a ?i ?j ?t ?s ?m ?bd ?ee] =>
      specialize (IH a b0 b1 m bd ee); destruct (frag5_loop (S k) a i j t s m bd ee) as [r0 e1] eqn:Er end.
    cbn [fst map andb] in *.
    change (Z.lor (Z.lor (Z.shiftl 0 7) (Z.shiftl 0 6)) (fu5_typ b0)) with (fu5_hdr 0 0 b0).
    rewrite stamp_mk. cbn [decode5_run].
    assert (Hchunk : blen (firstn avail body) + blen (skipn avail body) = blen body).
    { rewrite <- blen_app, firstn_skipn. reflexivity. }
    pose proof (blen_nonneg (firstn avail body)). pose proof (blen_nonneg (skipn avail body)).
    rewrite (fu5_mid d (e_seq e) (wrapu32 (0 + delta)) false (e_ssrc e) b0 b1 (firstn avail body) Hb Hfs (eq_sym Hnx))
      by lia.
    set (d1 := set_frags5 d (d5_frags d ++ firstn avail body) (d5_fsize d + blen (firstn avail body))
                          (wrapu16 (d5_next d + 1))).
    assert (Hfr : d5_frags d1 ++ skipn avail body = d5_frags d ++ body).
    { subst d1. cbn [set_frags5 d5_frags]. rewrite <- app_assoc, firstn_skipn. reflexivity. }
    destruct (IH d1 delta F Hb) as (d2 & Hrun & Hst2).
    + subst d1. cbn [set_frags5 d5_fsize]. lia.
    + subst d1. cbn [set_frags5 d5_next bump e_seq]. rewrite Hnx. reflexivity.
    + subst d1. cbn [set_frags5 d5_fsize]. lia.
    + rewrite Hfr. exact Hsc.
    + subst d1. cbn [set_frags5 d5_frags]. intros Hx. apply app_eq_nil in Hx. destruct Hx; congruence.
    + subst d1. exact Hst.
    + exact Hl1.
    + rewrite Hfr. exact Hl2.
    + rewrite Hrun. rewrite Hfr in *. exists d2. split; [|exact Hst2].
      rewrite outs_cons by lia. reflexivity.
Qed.

(* ------------------------------------------------------------------ a fragmented NAL unit *)

Lemma fragmented5_decode e n marker pkts e' d delta F :
  4 <= e.(e_max) -> nal5_ok n -> e.(e_max) <= blen n ->
  write_fragmented5 e n marker = Ok (pkts, e') -> fbstate5 d F ->
  blen F + 1 <= max_nalus5 -> au_size F + blen n <= max_au_size5 ->
  exists d2, decode5_run d (map (stamp delta) pkts) = (outs (length pkts) (last_out marker (F ++ [n])), d2)
             /\ fbstate5 d2 (if marker then [] else F ++ [n]) /\ (1 <= length pkts)%nat.
Proof.
  intros Hmax Hok Hbig Hw Hst Hl1 Hl2.
  destruct n as [|b0 [|b1 body]]; [destruct Hok|destruct Hok|]. destruct Hok as (Hb0 & Hb1 & _ & Hsc).
  unfold write_fragmented5 in Hw.
  destruct (e_max e - 3 <=? 0) eqn:E; [discriminate|]. apply Z.leb_gt in E.
  remember (blen (b0 :: b1 :: body) - 2) as le eqn:Hle0. rewrite !blen_cons in Hle0, Hbig.
  apply ok_inj in Hw.
  pose proof (packet_count_spec (e_max e - 3) le ltac:(lia) ltac:(pose proof (blen_nonneg body); lia))
    as (Hle & _ & Hpc).
  set (pc := packet_count (e_max e - 3) le) in *.
  assert (Hpc2 : 2 <= pc) by nia.
  destruct (Z.to_nat pc) as [|[|k]] eqn:Ek; [lia|lia|].
  set (avail := Z.to_nat (e_max e - 3)) in *.
  pose proof (frag5_loop_post (S (S k)) avail (fu5_h0 b0) b1 (fu5_typ b0) 1 marker body e) as [_ Hlen].
  rewrite Hw in Hlen. cbn [fst] in Hlen.
  rewrite frag5_loop_SS in Hw.
  destruct (frag5_loop (S k) avail (fu5_h0 b0) b1 (fu5_typ b0) 0 marker (skipn avail body) (bump e)) as [r0 e1] eqn:Er.
  apply pair_equal_spec in Hw. destruct Hw as [Hp _]. subst pkts.
  cbn [map andb].
  change (Z.lor (Z.lor (Z.shiftl 1 7) (Z.shiftl 0 6)) (fu5_typ b0)) with (fu5_hdr 1 0 b0).
  rewrite stamp_mk. cbn [decode5_run].
  rewrite (fu5_first d (e_seq e) (wrapu32 (0 + delta)) false (e_ssrc e) b0 b1 (firstn avail body) Hb0 Hb1).
  set (d1 := set_first5 (set_frags5 (reset_frags5 d) (b0 :: b1 :: firstn avail body) (2 + blen (firstn avail body))
                                    (wrapu16 (e_seq e + 1)))).
  assert (Hfr : d5_frags d1 ++ skipn avail body = b0 :: b1 :: body).
  { subst d1. cbn [set_first5 set_frags5 d5_frags app]. rewrite firstn_skipn. reflexivity. }
  assert (Hchunk : blen (firstn avail body) + blen (skipn avail body) = blen body).
  { rewrite <- blen_app, firstn_skipn. reflexivity. }
  pose proof (blen_nonneg (firstn avail body)). pose proof (blen_nonneg (skipn avail body)).
  pose proof (au_size_nonneg F).
  pose proof (frag5_rest k avail b0 b1 marker (skipn avail body) (bump e) d1 delta F Hb0) as HR.
  rewrite Er in HR. cbn [fst] in HR.
  destruct HR as (d2 & Hrun & Hst2).
  - subst d1. cbn [set_first5 set_frags5 d5_fsize]. lia.
  - subst d1. cbn [set_first5 set_frags5 d5_next bump e_seq]. reflexivity.
  - subst d1. cbn [set_first5 set_frags5 d5_fsize]. rewrite !blen_cons in Hl2. lia.
  - rewrite Hfr. exact Hsc.
  - subst d1. cbn [set_first5 set_frags5 d5_frags]. discriminate.
  - subst d1. exact Hst.
  - exact Hl1.
  - rewrite Hfr. exact Hl2.
  - rewrite Hrun. rewrite Hfr in *. exists d2. split; [|split; [exact Hst2|cbn [length]; lia]].
    cbn [length] in Hlen. assert (Hr0 : length r0 = S k) by lia. cbn [length]. rewrite Hr0.
    rewrite outs_cons by lia. reflexivity.
Qed.

(* ------------------------------------------------------------------ one batch *)

Lemma write_batch5_decode e batch marker pkts e' d delta F :
  4 <= e.(e_max) < 65536 -> batch <> [] -> Forall nal5_ok batch -> batch5_ok e.(e_max) batch ->
  write_batch5 e batch marker = inl (Ok (pkts, e')) -> fbstate5 d F ->
  blen F + blen batch <= max_nalus5 -> au_size F + au_size batch <= max_au_size5 ->
  exists d2, decode5_run d (map (stamp delta) pkts) = (outs (length pkts) (last_out marker (F ++ batch)), d2)
             /\ fbstate5 d2 (if marker then [] else F ++ batch) /\ (1 <= length pkts)%nat.
Proof.
  intros Hmax Hne Hok Hbok Hw Hst Hl1 Hl2. unfold write_batch5 in Hw.
  destruct batch as [|n [|n2 r]]; [congruence| |].
  - inversion Hok as [|? ? Hn _]; subst. cbn [au_size] in Hl2. unfold blen at 2 in Hl1. cbn [length] in Hl1.
    destruct (blen n <? e_max e) eqn:E.
    + unfold write_single in Hw. apply inl_ok_inj, pair_equal_spec in Hw. destruct Hw as [Hp _]. subst pkts.
      cbn [map]. rewrite stamp_mk. cbn [decode5_run length].
      destruct (single5_decode d (e_seq e) (wrapu32 (0 + delta)) marker (e_ssrc e) n F Hn Hst ltac:(lia) ltac:(lia))
        as (d2 & Hd & Hst2).
      rewrite Hd. exists d2. split; [reflexivity|split; [exact Hst2|lia]].
    + apply Z.ltb_ge in E. injection Hw as Hw.
      eapply fragmented5_decode; try eassumption; lia.
  - unfold write_aggregated5 in Hw. destruct (existsb _ (n :: n2 :: r)); [discriminate|].
    apply inl_ok_inj, pair_equal_spec in Hw. destruct Hw as [Hp _]. subst pkts.
    rewrite map_cons. change (map (stamp delta) []) with (@nil packet).
    rewrite stamp_mk. cbn [decode5_run length].
    destruct Hbok as [Hb|Hb]; [simpl in Hb; lia|]. unfold len_agg5 in Hb.
    assert (Hall : Forall (fun n => n <> [] /\ blen n < 65536) (n :: n2 :: r)).
    { rewrite Forall_forall in *. intros x Hx. split; [apply nal5_ok_nonempty, Hok, Hx|].
      pose proof (len_agg_list_in x _ Hx). lia. }
    destruct (agg5_decode d (e_seq e) (wrapu32 (0 + delta)) marker (e_ssrc e) (n :: n2 :: r) F
                ltac:(discriminate) Hall Hst Hl1 Hl2) as (d2 & Hd & Hst2).
    rewrite Hd. exists d2. split; [reflexivity|split; [exact Hst2|lia]].
Qed.

(* ------------------------------------------------------------------ the whole access unit *)

Lemma enc5_loop_decode : forall au e batch pkts e' d delta F,
  4 <= e.(e_max) < 65536 -> batch ++ au <> [] -> Forall nal5_ok (batch ++ au) ->
  batch = [] \/ batch5_ok e.(e_max) batch ->
  enc5_loop e au batch = inl (Ok (pkts, e')) -> fbstate5 d F ->
  blen F + blen (batch ++ au) <= max_nalus5 -> au_size F + au_size (batch ++ au) <= max_au_size5 ->
  exists d2, decode5_run d (map (stamp delta) pkts) = (outs (length pkts) (DOk (F ++ batch ++ au)), d2)
             /\ fbstate5 d2 [] /\ (1 <= length pkts)%nat.
Proof.
  induction au as [|nalu r IH]; intros e batch pkts e' d delta F Hmax Hne Hok Hbok Hw Hst Hl1 Hl2.
  - rewrite app_nil_r in *. cbn [enc5_loop] in Hw.
    destruct Hbok as [->|Hbok]; [congruence|].
    exact (write_batch5_decode e batch true pkts e' d delta F Hmax Hne Hok Hbok Hw Hst Hl1 Hl2).
  - cbn [enc5_loop] in Hw.
    match type of Hw with (if ?c then _ else _) = _ => destruct c eqn:E end.
    + replace (batch ++ nalu :: r) with ((batch ++ [nalu]) ++ r) in * by (rewrite <- app_assoc; reflexivity).
      eapply IH; try eassumption.
      right. right. rewrite len_agg5_snoc. apply Z.leb_le. exact E.
    + destruct batch as [|b0 br].
      * cbn [app] in *. change (nalu :: r) with ([nalu] ++ r) in *.
        eapply IH; try eassumption. right. left. reflexivity.
      * destruct Hbok as [Hbok|Hbok]; [discriminate|].
        destruct (write_batch5 e (b0 :: br) false) as [[[pk1 e1]|]|?] eqn:E1; try discriminate.
        destruct (enc5_loop e1 r [nalu]) as [[[pk2 e2]|]|?] eqn:E2; try discriminate.
        apply inl_ok_inj, pair_equal_spec in Hw. destruct Hw as [Hp _]. subst pkts.
        pose proof (write_batch5_post _ _ _ _ _ E1) as (_ & _ & _ & Hm & _).
        rewrite Forall_app in Hok. destruct Hok as [Hok1 Hok2].
        rewrite blen_app in Hl1. rewrite au_size_app in Hl2.
        pose proof (blen_nonneg (nalu :: r)). pose proof (au_size_nonneg (nalu :: r)).
        destruct (write_batch5_decode e (b0 :: br) false pk1 e1 d delta F Hmax ltac:(discriminate) Hok1 Hbok E1 Hst
                    ltac:(lia) ltac:(lia)) as (d1 & Hrun1 & Hst1 & Hlen1).
        destruct (IH e1 [nalu] pk2 e2 d1 delta (F ++ b0 :: br)) as (d2 & Hrun2 & Hst2 & Hlen2); try assumption.
        -- rewrite Hm. exact Hmax.
        -- discriminate.
        -- right. left. reflexivity.
        -- rewrite blen_app. cbn [app]. lia.
        -- rewrite au_size_app. cbn [app]. lia.
        -- rewrite map_app, decode5_run_app, Hrun1, Hrun2. exists d2. split; [|split; [exact Hst2|rewrite app_length; lia]].
           unfold last_out. rewrite outs_app by assumption. rewrite app_length.
           rewrite <- app_assoc. reflexivity.
Qed.

Theorem h265_roundtrip e au pkts e' d delta :
  4 <= e.(e_max) < 65536 -> au <> [] -> Forall nal5_ok au ->
  blen au <= max_nalus5 -> au_size au <= max_au_size5 ->
  h265_encode e au = inl (Ok (pkts, e')) -> clean5 d ->
  exists d', decode5_run d (map (stamp delta) pkts) = (repeat DMore (length pkts - 1) ++ [DOk au], d')
             /\ clean5 d' /\ (1 <= length pkts)%nat.
Proof.
  intros Hmax Hne Hok Hl1 Hl2 Hw Hc.
  destruct (enc5_loop_decode au e [] pkts e' d delta [] Hmax Hne Hok (or_introl eq_refl) Hw Hc
              ltac:(cbn [app]; unfold blen at 1; simpl; lia)
              ltac:(cbn [app au_size]; lia)) as (d2 & Hrun & Hst & Hlen).
  exists d2. split; [exact Hrun|split; [exact Hst|exact Hlen]].
Qed.

(* a sequence of access units, each stamped with its own timestamp delta: every unit comes back *)
Theorem h265_roundtrip_run : forall aus e pkss e' d deltas,
  4 <= e.(e_max) < 65536 ->
  Forall (fun au => au <> [] /\ Forall nal5_ok au /\ blen au <= max_nalus5 /\ au_size au <= max_au_size5) aus ->
  length deltas = length aus ->
  h265_encode_run e aus = Some (pkss, e') -> clean5 d ->
  dok_units (fst (decode5_run d (stamp_units deltas pkss))) = aus
  /\ ~ In DErr (fst (decode5_run d (stamp_units deltas pkss)))
  /\ clean5 (snd (decode5_run d (stamp_units deltas pkss))).
Proof.
  induction aus as [|au r IH]; intros e pkss e' d deltas Hmax Hall Hlen Hw Hc.
  - cbn in Hw. injection Hw as <- <-.
    destruct deltas; cbn; repeat split; try tauto; apply Hc.
  - cbn [h265_encode_run] in Hw.
    destruct (h265_encode e au) as [[[pk1 e1]|]|?] eqn:E1; try discriminate.
    destruct (h265_encode_run e1 r) as [[rest e2]|] eqn:E2; [|discriminate].
    injection Hw as <- <-.
    destruct deltas as [|dl dr]; [discriminate|]. cbn [length] in Hlen.
    inversion Hall as [|? ? (H1 & H2 & H3 & H4) Hall']; subst.
    destruct (h265_roundtrip e au pk1 e1 d dl Hmax H1 H2 H3 H4 E1 Hc) as (d1 & Hrun & Hc1 & _).
    pose proof (h265_encode_post _ _ _ _ E1) as (_ & _ & _ & Hm & _).
    specialize (IH e1 rest e2 d1 dr ltac:(rewrite Hm; exact Hmax) Hall' ltac:(lia) E2 Hc1).
    cbn [stamp_units]. rewrite decode5_run_app, Hrun.
    destruct (decode5_run d1 (stamp_units dr rest)) as [os d2]. cbn [fst snd] in *.
    destruct IH as (I1 & I2 & I3). split; [|split; [|exact I3]].
    + rewrite !dok_units_app, dok_units_more. cbn [dok_units app]. rewrite I1. reflexivity.
    + intros Hin. apply in_app_or in Hin. destruct Hin as [Hin|Hin]; [|exact (I2 Hin)].
      apply in_app_or in Hin. destruct Hin as [Hin|[Hin|[]]]; [|discriminate].
      apply repeat_spec in Hin. discriminate.
Qed.
