(* Path event loop: teardown of readers (C18) and the order of events when a publisher is replaced (C16). *)
From Coq Require Import List ZArith Bool Lia.
Require Import MTX.Lib.Trace MTX.Model.PathSM MTX.Proofs.PathSM MTX.Proofs.PathSM_Attach MTX.Proofs.PathSM_List
  MTX.Proofs.PathSM_Thms MTX.Proofs.PathSM_Events.
Import ListNotations.
Local Open Scope Z_scope.

(* a reader that was attached is still attached after the handler, or the handler closed it *)
Definition TD (m : M) : Prop :=
  forall s r, In r (s_readers s) -> In r (s_readers (fst (m s))) \/ In (EReaderClosed r) (snd (m s)).

Lemma td_quiet m : Quiet m -> TD m.
Proof. intros H s r Hin. destruct (H s) as (_ & _ & _ & A). rewrite A. left; exact Hin. Qed.
Lemma td_bind f g : TD f -> TD g -> TD (f ;; g).
Proof.
  intros Hf Hg s r Hin. rewrite fst_bind, snd_bind. destruct (Hf s r Hin) as [H|H].
  - destruct (Hg (fst (f s)) r H) as [H2|H2]; [left; exact H2|right; apply in_or_app; right; exact H2].
  - right. apply in_or_app. left; exact H.
Qed.
Lemma td_when c m : TD m -> TD (whenM c m).
Proof. intros H s r Hin. unfold whenM. destruct (c s); [apply H, Hin|left; exact Hin]. Qed.
Lemma td_same (f : pstate -> list pevent) : TD (fun s => (s, f s)).
Proof. intros s r Hin. left; exact Hin. Qed.
Lemma td_modify f : (forall s, s_readers (f s) = s_readers s) -> TD (modify f).
Proof. intros H s r Hin. left. cbn [fst modify]. rewrite H. exact Hin. Qed.
Ltac tdset := apply td_modify; let t := fresh "t" in intros t; destruct t; reflexivity.
Lemma td_reset : TD (fun s => (set_readers [] s, map EReaderClosed (s_readers s))).
Proof. intros s r Hin. right. cbn [snd]. apply in_map, Hin. Qed.
Lemma td_sna : TD set_not_available.
Proof.
  unfold set_not_available.
  apply td_bind; [apply td_quiet, quiet_emit; reflexivity|].
  apply td_bind; [apply td_quiet, quiet_set_offline|].
  apply td_bind; [apply td_reset|].
  apply td_bind; [apply td_quiet, quiet_call_unavailable|apply td_quiet; qsetter].
Qed.
Lemma td_erp : TD execute_remove_publisher.
Proof. unfold execute_remove_publisher. apply td_bind; [apply td_sna|apply td_quiet; qsetter]. Qed.

Lemma bump_readers s : s_readers (bump_on_demand s) = s_readers s.
Proof. apply bump_conf_readers. Qed.
Lemma td_arp q r0 : TD (add_reader_post q r0).
Proof.
  intros s r Hin. left. destruct (arp_cases q r0 s) as [E|E]; rewrite E; [exact Hin|].
  rewrite bump_readers. destruct s; cbn in *. apply in_or_app. left; exact Hin.
Qed.
Lemma td_arps l : TD (add_readers_post l).
Proof.
  induction l as [|[q r0] l IH]; [apply (td_same (fun _ => []))|].
  cbn [add_readers_post]. apply td_bind; [apply td_arp|exact IH].
Qed.
Lemma td_consume : TD consume_on_hold.
Proof.
  intros s. unfold consume_on_hold.
  assert (T : TD ((fun s0 => (set_dhold [] s0, map (fun q => EAnswer q (AStream (cur_stream s0))) (s_dhold s0)));;
                  add_readers_post (s_rhold s);; modify (set_rhold []))).
  { apply td_bind; [|apply td_bind; [apply td_arps|tdset]].
    intros t r Hin. left. destruct t; exact Hin. }
  apply T.
Qed.
Lemma td_attach q p : TD (attach_publisher q p).
Proof.
  unfold attach_publisher.
  apply td_bind; [apply td_quiet, quiet_set_available|].
  apply td_bind; [apply td_quiet; qsetter|].
  apply td_bind; [apply td_quiet, quiet_when; qbind; [qsetter|apply quiet_pub_schedule_close]|].
  apply td_bind; [apply td_consume|apply td_same].
Qed.

Lemma remove_z_keep x y l : In y l -> y <> x -> In y (remove_z x l).
Proof.
  induction l as [|z l IH]; cbn; [tauto|]. intros [H|H] Hne.
  - subst. destruct (x =? y) eqn:E; [apply Z.eqb_eq in E; congruence|left; reflexivity].
  - destruct (x =? z); [apply IH; assumption|right; apply IH; assumption].
Qed.

(* every step: an attached reader stays attached, or is closed, unless this very step is its RemoveReader *)
Lemma td_step fx s o r :
  In r (s_readers s) -> o <> RemoveReader r ->
  In r (s_readers (fst (step_gen fx s o))) \/ In (EReaderClosed r) (snd (step_gen fx s o)).
Proof.
  intros Hin Hne. unfold step_gen. destruct (s_closed s); [left; exact Hin|].
  destruct o.
  - (* Describe *) unfold do_describe. destruct (s_stream s); [left; exact Hin|].
    destruct (od_static (s_conf s));
      [refine (td_bind _ _ _ _ s r Hin); [apply td_when, td_quiet, quiet_ss_start|tdset]|].
    destruct (od_pub (s_conf s));
      [refine (td_bind _ _ _ _ s r Hin); [apply td_when, td_quiet, quiet_pub_start|tdset]|left; exact Hin].
  - (* AddPublisher *) unfold do_add_publisher. destruct (c_static (s_conf s)); [left; exact Hin|].
    destruct (s_source s) as [old|]; [|apply td_attach, Hin].
    destruct (negb (c_override (s_conf s))); [left; exact Hin|].
    apply (td_bind _ _ (td_quiet _ (quiet_emit [EPubClosed old] eq_refl)) (td_bind _ _ td_erp (td_attach q p))), Hin.
  - (* RemovePublisher *) unfold do_remove_publisher. destruct (s_source s); [|left; exact Hin].
    destruct (z =? p); [|left; exact Hin].
    apply (td_bind _ _ td_erp (td_when _ _ (td_quiet _ quiet_pub_stop))), Hin.
  - (* AddReader *) unfold do_add_reader. destruct (s_stream s); [apply td_arp, Hin|].
    destruct (od_static (s_conf s));
      [refine (td_bind _ _ _ _ s r Hin); [apply td_when, td_quiet, quiet_ss_start|tdset]|].
    destruct (od_pub (s_conf s));
      [refine (td_bind _ _ _ _ s r Hin); [apply td_when, td_quiet, quiet_pub_start|tdset]|left; exact Hin].
  - (* RemoveReader *) left. unfold do_remove_reader. rewrite fst_bind.
    assert (Hr : r0 <> r) by congruence.
    set (s1 := fst (whenM (fun s0 => mem r0 (s_readers s0)) (modify (fun s0 => set_readers (remove_z r0 (s_readers s0)) s0)) s)).
    assert (H1 : In r (s_readers s1)).
    { unfold s1, whenM. destruct (mem r0 (s_readers s)); [|exact Hin].
      destruct s; cbn in *. apply remove_z_keep; [exact Hin|congruence]. }
    clearbody s1. unfold whenM. destruct (match s_readers s1 with [] => true | _ => false end); [|exact H1].
    destruct (od_static (s_conf s1)).
    { destruct (td_when (fun s0 => ods_eqb (s_ssState s0) OdReady) _ (td_quiet _ quiet_ss_schedule_close) s1 r H1) as [H|H]; [exact H|].
      exfalso. unfold whenM, ss_schedule_close, modify in H. destruct (ods_eqb (s_ssState s1) OdReady); destruct H. }
    destruct (od_pub (s_conf s1)); [|exact H1].
    destruct (td_when (fun s0 => ods_eqb (s_pubState s0) OdReady) _ (td_quiet _ quiet_pub_schedule_close) s1 r H1) as [H|H]; [exact H|].
    exfalso. unfold whenM, pub_schedule_close, modify in H. destruct (ods_eqb (s_pubState s1) OdReady); destruct H.
  - (* StaticReady *) unfold do_static_ready. destruct (s_ssRunning s && negb (s_instReady s)); [|left; exact Hin].
    refine (td_bind _ _ (td_quiet _ quiet_set_available) (td_bind _ _ _ (td_bind _ _ td_consume (td_bind _ _ _ (td_same _)))) s r Hin);
      [apply td_quiet, quiet_when; qbind; [qsetter|apply quiet_ss_schedule_close]|tdset].
  - (* StaticNotReady *) unfold do_static_not_ready. destruct (s_ssRunning s && s_instReady s); [|left; exact Hin].
    refine (td_bind _ _ td_sna (td_bind _ _ _ (td_when _ _ (td_quiet _ quiet_ss_stop))) s r Hin); tdset.
  - (* TimerFire *) unfold do_timer. destruct (timer_armed t s); [|left; exact Hin].
    refine (td_bind _ _ (td_quiet _ _) (td_bind _ _ (td_quiet _ (quiet_emit [EFired t] eq_refl)) _) s r Hin); [destruct t; qsetter|].
    destruct t.
    + apply td_bind; [|apply td_quiet, quiet_ss_stop]. intros t r' H. left. destruct t; exact H.
    + apply td_bind; [apply td_sna|apply td_quiet, quiet_ss_stop].
    + apply td_bind; [|apply td_quiet, quiet_pub_stop]. intros t r' H. left. destruct t; exact H.
    + apply td_quiet, quiet_pub_stop.
  - left; exact Hin.
  - (* Close *) unfold do_close.
    refine (td_bind _ _ (td_quiet _ (quiet_emit [ERemovePath] eq_refl)) (td_bind _ _ _
             (td_bind _ _ _ (td_bind _ _ _ (td_bind _ _ _ (td_bind _ _ _ _))))) s r Hin); [tdset| | | | |tdset].
    + intros t r' H. left. destruct t; exact H.
    + intros t r' H. left. unfold close_source. destruct (c_static (s_conf t)).
      * destruct (negb (c_sod (s_conf t)) || negb (ods_eqb (s_ssState t) OdInitial)); [|exact H].
        destruct (quiet_handler_stop t) as (_ & _ & _ & A). rewrite A. exact H.
      * destruct (s_source t); exact H.
    + intros t r' H. left. unfold close_demand. destruct (s_hUnDemand t); [|exact H].
      assert (Q : Quiet (hook_close HDemand;; modify (set_hUnDemand false))) by (qbind; [apply quiet_hook_close|qsetter]).
      destruct (Q t) as (_ & _ & _ & A). rewrite A. exact H.
    + intros t r' H. unfold close_stream. destruct (s_stream t); [apply td_sna, H|left; exact H].
Qed.

(* C18: when a step leaves the path without stream, every reader that was attached has been closed by
   that step (the one reader explicitly removed by this step excepted) and no reader remains *)
Lemma c18_teardown fx s o :
  Inv fx s -> s_stream (fst (step_gen fx s o)) = None ->
  s_readers (fst (step_gen fx s o)) = [] /\
  forall r, In r (s_readers s) -> o <> RemoveReader r -> In (EReaderClosed r) (snd (step_gen fx s o)).
Proof.
  intros HI Hs. pose proof (inv_step fx s o HI) as [Hb _].
  assert (Hr : s_readers (fst (step_gen fx s o)) = []).
  { destruct (s_closed (fst (step_gen fx s o))) eqn:Ecl.
    - apply (closed_facts _ _ Hb Ecl).
    - apply (live_facts _ _ Hb Ecl). exact Hs. }
  split; [exact Hr|]. intros r Hin Hne.
  destruct (td_step fx s o r Hin Hne) as [H|H]; [|exact H]. rewrite Hr in H. destruct H.
Qed.

(* ---- C16: replacing a publisher ------------------------------------------------------------------------ *)
(* an occurrence of a comes before an occurrence of b *)
Definition Before (a b : pevent) (l : list pevent) : Prop :=
  exists l1 l2, l = l1 ++ l2 /\ In a l1 /\ In b l2.

Lemma before_app_l a b l1 l2 : In a l1 -> In b l2 -> Before a b (l1 ++ l2).
Proof. intros Ha Hb. exists l1, l2. auto. Qed.

Lemma sna_events s : In EPathNotReady (snd (set_not_available s)).
Proof. unfold set_not_available. rewrite snd_bind. apply in_or_app. left. left. reflexivity. Qed.

Lemma sna_fields s :
  s_readers (fst (set_not_available s)) = [] /\ s_stream (fst (set_not_available s)) = None /\
  s_nextgen (fst (set_not_available s)) = s_nextgen s /\ s_conf (fst (set_not_available s)) = s_conf s.
Proof.
  destruct s. unfold set_not_available, set_offline, call_unavailable, hook_close, panic, bindM, modify, emit. cbn.
  destruct s_hOffline, s_hUnavail; cbn; repeat split; reflexivity.
Qed.

Lemma set_available_events s : In (EPathReady (s_nextgen s)) (snd (set_available s)).
Proof.
  unfold set_available. rewrite !snd_bind. cbn [snd emit].
  repeat (apply in_or_app; right). left. reflexivity.
Qed.

Lemma pre_attach_fields p s :
  s_stream (fst (pre_attach p s)) = Some (s_nextgen s) /\ s_source (fst (pre_attach p s)) = Some p.
Proof.
  destruct s as [cf ? ? ? ? ? ? ? ? ? ? ? ? pst ? ? ? ? hof].
  unfold pre_attach, set_available, set_online, set_offline, hook_open, hook_close, pub_schedule_close, whenM, bindM, modify, emit.
  cbn. destruct hof; cbn; destruct (od_pub cf); cbn; destruct pst; cbn; split; reflexivity.
Qed.

Lemma consume_fields s :
  s_stream (fst (consume_on_hold s)) = s_stream s /\ s_source (fst (consume_on_hold s)) = s_source s.
Proof.
  assert (B : forall t, s_stream (bump_on_demand t) = s_stream t /\ s_source (bump_on_demand t) = s_source t).
  { intros t. destruct t as [cf ? ? ? ? ? ? ? sst ? ? ? ? pst ? ? ? ? ?]. unfold bump_on_demand. cbn.
    destruct (od_static cf); [destruct sst; split; reflexivity|].
    destruct (od_pub cf); [destruct pst; split; reflexivity|split; reflexivity]. }
  destruct (consume_cases s) as [E|(rd' & _ & E)]; rewrite E.
  - destruct s; split; reflexivity.
  - destruct (B (set_readers rd' (set_dhold [] s))) as [B1 B2].
    replace (s_stream (set_rhold [] (bump_on_demand (set_readers rd' (set_dhold [] s)))))
      with (s_stream (bump_on_demand (set_readers rd' (set_dhold [] s))))
      by (destruct (bump_on_demand (set_readers rd' (set_dhold [] s))); reflexivity).
    replace (s_source (set_rhold [] (bump_on_demand (set_readers rd' (set_dhold [] s)))))
      with (s_source (bump_on_demand (set_readers rd' (set_dhold [] s))))
      by (destruct (bump_on_demand (set_readers rd' (set_dhold [] s))); reflexivity).
    rewrite B1, B2. destruct s; split; reflexivity.
Qed.

Lemma attach_shape q p s :
  snd (attach_publisher q p s) =
  snd (pre_attach p s) ++ snd (consume_on_hold (fst (pre_attach p s))) ++ [EAnswer q (AStream (s_nextgen s))] /\
  In (EPathReady (s_nextgen s)) (snd (pre_attach p s)) /\
  s_stream (fst (attach_publisher q p s)) = Some (s_nextgen s) /\
  s_source (fst (attach_publisher q p s)) = Some p.
Proof.
  destruct (pre_attach_fields p s) as [P1 P2].
  destruct (consume_fields (fst (pre_attach p s))) as [C1 C2].
  split; [|split; [|split]].
  - assert (E : snd (attach_publisher q p s) =
              snd (pre_attach p s) ++ snd (consume_on_hold (fst (pre_attach p s))) ++
              [EAnswer q (AStream (cur_stream (fst (consume_on_hold (fst (pre_attach p s))))))]).
    { unfold attach_publisher, pre_attach. rewrite !snd_bind, !fst_bind. cbn [snd fst modify]. rewrite <- !app_assoc. reflexivity. }
    rewrite E. unfold cur_stream. rewrite C1, P1. reflexivity.
  - unfold pre_attach. rewrite snd_bind. apply in_or_app. left. apply set_available_events.
  - rewrite fst_attach, C1. exact P1.
  - rewrite fst_attach, C2. exact P2.
Qed.

Lemma c16_override_closes_first fx s q p old :
  s_closed s = false -> c_static (s_conf s) = false -> c_override (s_conf s) = true -> s_source s = Some old ->
  let evs := snd (step_gen fx s (AddPublisher q p)) in
  let s' := fst (step_gen fx s (AddPublisher q p)) in
  let g := s_nextgen s in
  Before (EPubClosed old) (EPathReady g) evs /\
  Before EPathNotReady (EPathReady g) evs /\
  (forall r, In r (s_readers s) -> Before (EReaderClosed r) (EPathReady g) evs) /\
  Before (EPathReady g) (EAnswer q (AStream g)) evs /\
  s_source s' = Some p /\ s_stream s' = Some g.
Proof.
  intros Hc Hst Hov Hsrc. cbv zeta. unfold step_gen, do_add_publisher. rewrite Hc, Hst, Hsrc, Hov. cbn [negb].
  rewrite !snd_bind, !fst_bind. cbn [snd fst emit].
  set (s2 := fst (execute_remove_publisher s)).
  assert (Hg : s_nextgen s2 = s_nextgen s).
  { unfold s2, execute_remove_publisher. rewrite fst_bind. cbn [fst modify].
    destruct (sna_fields s) as (_ & _ & A & _). destruct (fst (set_not_available s)); exact A. }
  destruct (attach_shape q p s2) as (Sh & Rd & St & So). rewrite Hg in *.
  assert (Hnr : In EPathNotReady (snd (execute_remove_publisher s))).
  { unfold execute_remove_publisher. rewrite snd_bind. apply in_or_app. left. apply sna_events. }
  assert (Hcl : forall r, In r (s_readers s) -> In (EReaderClosed r) (snd (execute_remove_publisher s))).
  { intros r Hin. destruct (td_erp s r Hin) as [H|H]; [|exact H]. exfalso.
    unfold execute_remove_publisher in H. rewrite fst_bind in H. cbn [fst modify] in H.
    destruct (sna_fields s) as (A & _). destruct (fst (set_not_available s)); cbn in *. rewrite A in H. destruct H. }
  assert (Hrd : In (EPathReady (s_nextgen s)) (snd (attach_publisher q p s2))).
  { rewrite Sh. apply in_or_app. left; exact Rd. }
  repeat split.
  - rewrite app_assoc. apply before_app_l; [apply in_or_app; left; left; reflexivity|exact Hrd].
  - rewrite app_assoc. apply before_app_l; [apply in_or_app; right; exact Hnr|exact Hrd].
  - intros r Hin. rewrite app_assoc. apply before_app_l; [apply in_or_app; right; apply Hcl, Hin|exact Hrd].
  - rewrite Sh. rewrite !app_assoc. apply before_app_l; [|left; reflexivity].
    apply in_or_app. left. apply in_or_app. right. exact Rd.
  - exact So.
  - exact St.
Qed.
