(* Path event loop: teardown of readers (C18) and the order of events when a publisher is replaced (C16). *)
From Coq Require Import List ZArith Bool Lia.
Require Import MTX.Lib.Trace MTX.Model.PathSM MTX.Proofs.PathSM MTX.Proofs.PathSM_Attach MTX.Proofs.PathSM_List
  MTX.Proofs.PathSM_Thms MTX.Proofs.PathSM_Events.
Import ListNotations.
Local Open Scope Z_scope.

(* a reader that was attached is still attached after the handler, or the handler closed it *)
Definition TD (m : M) : Prop :=
  forall s r, In r (s_readers s) -> In r (s_readers (fst (m s))) \/ In (EReaderClosed r) (snd (m s)).

Lemma td_quiet m : Quiet m -> TD m.
Proof. intros H s r Hin. destruct (H s) as (_ & _ & _ & A). rewrite A. left; exact Hin. Qed.
Lemma td_bind f g : TD f -> TD g -> TD (f ;; g).
Proof.
  intros Hf Hg s r Hin. rewrite fst_bind, snd_bind. destruct (Hf s r Hin) as [H|H].
  - destruct (Hg (fst (f s)) r H) as [H2|H2]; [left; exact H2|right; apply in_or_app; right; exact H2].
  - right. apply in_or_app. left; exact H.
Qed.
Lemma td_when c m : TD m -> TD (whenM c m).
Proof. intros H s r Hin. unfold whenM. destruct (c s); [apply H, Hin|left; exact Hin]. Qed.
Lemma td_same (f : pstate -> list pevent) : TD (fun s => (s, f s)).
Proof. intros s r Hin. left; exact Hin. Qed.
Lemma td_modify f : (forall s, s_readers (f s) = s_readers s) -> TD (modify f).
Proof. intros H s r Hin. left. cbn [fst modify]. rewrite H. exact Hin. Qed.
Ltac tdset := apply td_modify; let t := fresh "t" in intros t; destruct t; reflexivity.
Lemma td_reset : TD (fun s => (set_readers [] s, map EReaderClosed (s_readers s))).
Proof. intros s r Hin. right. cbn [snd]. apply in_map, Hin. Qed.
Lemma td_sna : TD set_not_available.
Proof.
  unfold set_not_available.
  apply td_bind; [apply td_quiet, quiet_emit; reflexivity|].
  apply td_bind; [apply td_quiet, quiet_set_offline|].
  apply td_bind; [apply td_reset|].
  apply td_bind; [apply td_quiet, quiet_call_unavailable|apply td_quiet; qsetter].
Qed.
Lemma td_source_gone : TD source_gone.
Proof.
  intros s r Hin. unfold source_gone. destruct (aa s); [apply (td_quiet _ quiet_offline_start), Hin|apply td_sna, Hin].
Qed.
Lemma td_erp : TD execute_remove_publisher.
Proof. unfold execute_remove_publisher. apply td_bind; [apply td_source_gone|apply td_quiet; qsetter]. Qed.

Lemma bump_readers s : s_readers (bump_on_demand s) = s_readers s.
Proof. apply bump_conf_readers. Qed.
Lemma td_arp q r0 : TD (add_reader_post q r0).
Proof.
  intros s r Hin. left. destruct (arp_cases q r0 s) as [E|E]; rewrite E; [exact Hin|].
  rewrite bump_readers. destruct s; cbn in *. apply in_or_app. left; exact Hin.
Qed.
Lemma td_arps l : TD (add_readers_post l).
Proof.
  induction l as [|[q r0] l IH]; [apply (td_same (fun _ => []))|].
  cbn [add_readers_post]. apply td_bind; [apply td_arp|exact IH].
Qed.
Lemma td_consume : TD consume_on_hold.
Proof.
  intros s. unfold consume_on_hold.
  assert (T : TD ((fun s0 => (set_dhold [] s0, map (fun q => EAnswer q (AStream (cur_stream s0))) (s_dhold s0)));;
                  add_readers_post (s_rhold s);; modify (set_rhold []))).
  { apply td_bind; [|apply td_bind; [apply td_arps|tdset]].
    intros t r Hin. left. destruct t; exact Hin. }
  apply T.
Qed.
Lemma td_attach_tail q p : TD (attach_tail q p).
Proof.
  unfold attach_tail.
  apply td_bind; [apply td_quiet; qsetter|].
  apply td_bind; [apply td_quiet; qsetter|].
  apply td_bind; [apply td_quiet, quiet_when, quiet_set_online|].
  apply td_bind; [apply td_quiet, quiet_when; qbind; [qsetter|apply quiet_pub_schedule_close]|].
  apply td_bind; [apply td_consume|apply td_same].
Qed.
Lemma td_attach q p ok : TD (attach_publisher q p ok).
Proof.
  unfold attach_publisher. apply td_bind; [apply td_quiet, quiet_when_sa|].
  intros s r Hin. cbn beta. destruct (aa s && negb ok); [left; exact Hin|apply td_attach_tail, Hin].
Qed.

Lemma remove_z_keep x y l : In y l -> y <> x -> In y (remove_z x l).
Proof.
  induction l as [|z l IH]; cbn; [tauto|]. intros [H|H] Hne.
  - subst. destruct (x =? y) eqn:E; [apply Z.eqb_eq in E; congruence|left; reflexivity].
  - destruct (x =? z); [apply IH; assumption|right; apply IH; assumption].
Qed.

(* every step: an attached reader stays attached, or is closed, unless this very step is its RemoveReader *)
Lemma td_step fx s o r :
  In r (s_readers s) -> o <> RemoveReader r ->
  In r (s_readers (fst (step_gen fx s o))) \/ In (EReaderClosed r) (snd (step_gen fx s o)).
Proof.
  intros Hin Hne. unfold step_gen. destruct (s_closed s); [left; exact Hin|].
  destruct o.
  - (* Describe *) unfold do_describe. destruct (s_stream s); [left; exact Hin|].
    destruct (od_static (s_conf s));
      [refine (td_bind _ _ _ _ s r Hin); [apply td_when, td_quiet, quiet_ss_start|tdset]|].
    destruct (od_pub (s_conf s));
      [refine (td_bind _ _ _ _ s r Hin); [apply td_when, td_quiet, quiet_pub_start|tdset]|left; exact Hin].
  - (* AddPublisher *) unfold do_add_publisher. destruct (c_static (s_conf s)); [left; exact Hin|].
    destruct (s_source s) as [old|]; [|apply td_attach, Hin].
    destruct (negb (c_override (s_conf s))); [left; exact Hin|].
    apply (td_bind _ _ (td_quiet _ (quiet_emit [EPubClosed old] eq_refl)) (td_bind _ _ td_erp (td_attach q p ok))), Hin.
  - (* RemovePublisher *) unfold do_remove_publisher. destruct (s_source s); [|left; exact Hin].
    destruct (z =? p); [|left; exact Hin].
    apply (td_bind _ _ td_erp (td_when _ _ (td_quiet _ quiet_pub_stop))), Hin.
  - (* AddReader *) unfold do_add_reader. destruct (s_stream s); [apply td_arp, Hin|].
    destruct (od_static (s_conf s));
      [refine (td_bind _ _ _ _ s r Hin); [apply td_when, td_quiet, quiet_ss_start|tdset]|].
    destruct (od_pub (s_conf s));
      [refine (td_bind _ _ _ _ s r Hin); [apply td_when, td_quiet, quiet_pub_start|tdset]|left; exact Hin].
  - (* RemoveReader *) left. unfold do_remove_reader. rewrite fst_bind.
    assert (Hr : r0 <> r) by congruence.
    set (s1 := fst (whenM (fun s0 => mem r0 (s_readers s0)) (modify (fun s0 => set_readers (remove_z r0 (s_readers s0)) s0)) s)).
    assert (H1 : In r (s_readers s1)).
    { unfold s1, whenM. destruct (mem r0 (s_readers s)); [|exact Hin].
      destruct s; cbn in *. apply remove_z_keep; [exact Hin|congruence]. }
    clearbody s1. unfold whenM. destruct (match s_readers s1 with [] => true | _ => false end); [|exact H1].
    destruct (od_static (s_conf s1)).
    { destruct (td_when (fun s0 => ods_eqb (s_ssState s0) OdReady) _ (td_quiet _ quiet_ss_schedule_close) s1 r H1) as [H|H]; [exact H|].
      exfalso. unfold whenM, ss_schedule_close, modify in H. destruct (ods_eqb (s_ssState s1) OdReady); destruct H. }
    destruct (od_pub (s_conf s1)); [|exact H1].
    destruct (td_when (fun s0 => ods_eqb (s_pubState s0) OdReady) _ (td_quiet _ quiet_pub_schedule_close) s1 r H1) as [H|H]; [exact H|].
    exfalso. unfold whenM, pub_schedule_close, modify in H. destruct (ods_eqb (s_pubState s1) OdReady); destruct H.
  - (* StaticReady *) unfold do_static_ready. destruct (s_ssRunning s && negb (s_instReady s)); [|left; exact Hin].
    refine (td_bind _ _ (td_quiet _ quiet_when_sa) (td_bind _ _ _ (td_bind _ _ (td_quiet _ (quiet_when _ _ quiet_set_online))
             (td_bind _ _ _ (td_bind _ _ td_consume (td_bind _ _ _ (td_same _)))))) s r Hin);
      [tdset|apply td_quiet, quiet_when; qbind; [qsetter|apply quiet_ss_schedule_close]|tdset].
  - (* StaticNotReady *) unfold do_static_not_ready. destruct (s_ssRunning s && s_instReady s); [|left; exact Hin].
    refine (td_bind _ _ td_source_gone (td_bind _ _ _ (td_when _ _ (td_quiet _ quiet_ss_stop))) s r Hin); tdset.
  - (* TimerFire *) unfold do_timer. destruct (timer_armed t s); [|left; exact Hin].
    refine (td_bind _ _ (td_quiet _ _) (td_bind _ _ (td_quiet _ (quiet_emit [EFired t] eq_refl)) _) s r Hin); [destruct t; qsetter|].
    destruct t.
    + apply td_bind; [|apply td_quiet, quiet_ss_stop]. intros t r' H. left. destruct t; exact H.
    + apply td_bind; [apply td_sna|apply td_quiet, quiet_ss_stop].
    + apply td_bind; [|apply td_quiet, quiet_pub_stop]. intros t r' H. left. destruct t; exact H.
    + apply td_quiet, quiet_pub_stop.
  - left; exact Hin.
  - (* Close *) unfold do_close.
    refine (td_bind _ _ (td_quiet _ (quiet_emit [ERemovePath] eq_refl)) (td_bind _ _ _
             (td_bind _ _ _ (td_bind _ _ _ (td_bind _ _ _ (td_bind _ _ _ _))))) s r Hin); [tdset| | | | |tdset].
    + intros t r' H. left. destruct t; exact H.
    + intros t r' H. left. unfold close_source. destruct (c_static (s_conf t)).
      * destruct (negb (c_sod (s_conf t)) || negb (ods_eqb (s_ssState t) OdInitial)); [|exact H].
        destruct (quiet_handler_stop t) as (_ & _ & _ & A). rewrite A. exact H.
      * destruct (s_source t); exact H.
    + intros t r' H. left. unfold close_demand. destruct (s_hUnDemand t); [|exact H].
      assert (Q : Quiet (hook_close HDemand;; modify (set_hUnDemand false))) by (qbind; [apply quiet_hook_close|qsetter]).
      destruct (Q t) as (_ & _ & _ & A). rewrite A. exact H.
    + intros t r' H. unfold close_stream. destruct (s_stream t); [apply td_sna, H|left; exact H].
Qed.

(* C18: when a step leaves the path without stream, every reader that was attached has been closed by
   that step (the one reader explicitly removed by this step excepted) and no reader remains *)
Lemma c18_teardown fx s o :
  Inv fx s -> s_stream (fst (step_gen fx s o)) = None ->
  s_readers (fst (step_gen fx s o)) = [] /\
  forall r, In r (s_readers s) -> o <> RemoveReader r -> In (EReaderClosed r) (snd (step_gen fx s o)).
Proof.
  intros HI Hs. pose proof (inv_step fx s o HI) as [Hb _].
  assert (Hr : s_readers (fst (step_gen fx s o)) = []).
  { destruct (s_closed (fst (step_gen fx s o))) eqn:Ecl.
    - apply (closed_facts _ _ Hb Ecl).
    - apply (live_facts _ _ Hb Ecl). exact Hs. }
  split; [exact Hr|]. intros r Hin Hne.
  destruct (td_step fx s o r Hin Hne) as [H|H]; [|exact H]. rewrite Hr in H. destruct H.
Qed.

(* ---- C16: replacing a publisher ------------------------------------------------------------------------ *)
(* an occurrence of a comes before an occurrence of b *)
Definition Before (a b : pevent) (l : list pevent) : Prop :=
  exists l1 l2, l = l1 ++ l2 /\ In a l1 /\ In b l2.

Lemma before_app_l a b l1 l2 : In a l1 -> In b l2 -> Before a b (l1 ++ l2).
Proof. intros Ha Hb. exists l1, l2. auto. Qed.

Lemma sna_events s : In EPathNotReady (snd (set_not_available s)).
Proof. unfold set_not_available. rewrite snd_bind. apply in_or_app. left. left. reflexivity. Qed.

Lemma sna_fields s :
  s_readers (fst (set_not_available s)) = [] /\ s_stream (fst (set_not_available s)) = None /\
  s_nextgen (fst (set_not_available s)) = s_nextgen s /\ s_conf (fst (set_not_available s)) = s_conf s.
Proof.
  destruct s. unfold set_not_available, set_offline, call_unavailable, hook_close, panic, bindM, modify, emit. cbn.
  destruct s_hOffline, s_hUnavail; cbn; repeat split; reflexivity.
Qed.

Lemma set_available_events s : In (EPathReady (s_nextgen s)) (snd (set_available s)).
Proof.
  unfold set_available. rewrite !snd_bind. cbn [snd emit].
  repeat (apply in_or_app; right). left. reflexivity.
Qed.

Lemma consume_fields s :
  s_stream (fst (consume_on_hold s)) = s_stream s /\ s_source (fst (consume_on_hold s)) = s_source s /\
  s_sub (fst (consume_on_hold s)) = s_sub s.
Proof.
  assert (B : forall t, s_stream (bump_on_demand t) = s_stream t /\ s_source (bump_on_demand t) = s_source t /\
                        s_sub (bump_on_demand t) = s_sub t).
  { intros t. destruct t as [cf ? ? ? ? ? ? ? sst ? ? ? ? pst ? ? ? ? ? ?]. unfold bump_on_demand. cbn.
    destruct (od_static cf); [destruct sst; repeat split; reflexivity|].
    destruct (od_pub cf); [destruct pst; repeat split; reflexivity|repeat split; reflexivity]. }
  destruct (consume_cases s) as [E|(rd' & _ & E)]; rewrite E.
  - destruct s; repeat split; reflexivity.
  - destruct (B (set_readers rd' (set_dhold [] s))) as (B1 & B2 & B3).
    destruct (bump_on_demand (set_readers rd' (set_dhold [] s))) eqn:Eb. cbn in *.
    rewrite B1, B2, B3. destruct s; repeat split; reflexivity.
Qed.

(* an attached reader stays attached across consumeOnHoldRequests *)
Lemma keep_consume s r : In r (s_readers s) -> In r (s_readers (fst (consume_on_hold s))).
Proof.
  intros Hin. destruct (consume_cases s) as [E|(rd' & _ & E)].
  - rewrite E. destruct s; exact Hin.
  - destruct (td_consume s r Hin) as [H|H]; [exact H|]. exfalso.
    clear - H. unfold consume_on_hold in H. rewrite !snd_bind in H. cbn [snd fst modify] in H.
    apply in_app_or in H. destruct H as [H|H].
    + apply in_map_iff in H. destruct H as (x & Hx & _). discriminate Hx.
    + apply in_app_or in H. destruct H as [H|[]].
      revert H. generalize (set_dhold [] s). induction (s_rhold s) as [|[q0 r0] l IH]; intros t H; [destruct H|].
      cbn [add_readers_post] in H. rewrite snd_bind in H. apply in_app_or in H. destruct H as [H|H]; [|exact (IH _ H)].
      unfold add_reader_post in H. destruct (mem r0 (s_readers t)); [destruct H as [H|[]]; discriminate H|].
      destruct (negb (c_maxr (s_conf t) =? 0) && (c_maxr (s_conf t) <=? Z.of_nat (length (s_readers t))));
        destruct H as [H|[]]; discriminate H.
Qed.

(* ---- not alwaysAvailable: the old stream is torn down before the new one is created ---------------- *)
Lemma pre_attach_fields p s : aa s = false ->
  s_stream (fst (pre_attach p s)) = Some (s_nextgen s) /\ s_source (fst (pre_attach p s)) = Some p /\
  s_sub (fst (pre_attach p s)) = SPub p.
Proof.
  destruct s as [[? ? ? ? ? ? ? ? hd ? a] ? ? ? ? ? ? ? ? ? ? ? ? pst ? ? ? ? hof ?]. unfold aa. cbn. intros ->.
  destruct hof, hd, pst; repeat split; reflexivity.
Qed.

Lemma pre_attach_events p s : aa s = false -> In (EPathReady (s_nextgen s)) (snd (pre_attach p s)).
Proof.
  intros Ha. unfold pre_attach. rewrite snd_bind. apply in_or_app. left.
  unfold whenM, not_aa. unfold aa in Ha. rewrite Ha. apply set_available_events.
Qed.

Lemma attach_events q p ok s : aa s = false ->
  snd (attach_publisher q p ok s) =
  snd (pre_attach p s) ++ snd (consume_on_hold (fst (pre_attach p s))) ++
  [EAnswer q (AStream (cur_stream (fst (consume_on_hold (fst (pre_attach p s))))))].
Proof.
  intros Ha. unfold attach_publisher, pre_attach. rewrite !snd_bind, !fst_bind.
  assert (Ea : aa (fst (whenM not_aa set_available s)) = false) by (unfold aa in *; rewrite conf_when_sa; exact Ha).
  rewrite Ea. cbn [andb]. rewrite attach_tail_events, <- !app_assoc. reflexivity.
Qed.

Lemma attach_shape q p ok s : aa s = false ->
  snd (attach_publisher q p ok s) =
  snd (pre_attach p s) ++ snd (consume_on_hold (fst (pre_attach p s))) ++ [EAnswer q (AStream (s_nextgen s))] /\
  In (EPathReady (s_nextgen s)) (snd (pre_attach p s)) /\
  s_stream (fst (attach_publisher q p ok s)) = Some (s_nextgen s) /\
  s_source (fst (attach_publisher q p ok s)) = Some p /\
  s_sub (fst (attach_publisher q p ok s)) = SPub p.
Proof.
  intros Ha. destruct (pre_attach_fields p s Ha) as (P1 & P2 & P3).
  destruct (consume_fields (fst (pre_attach p s))) as (C1 & C2 & C3).
  assert (Ef : fst (attach_publisher q p ok s) = fst (consume_on_hold (fst (pre_attach p s)))).
  { rewrite fst_attach, Ha. reflexivity. }
  split; [|split; [|split; [|split]]].
  - rewrite (attach_events q p ok s Ha). unfold cur_stream. rewrite C1, P1. reflexivity.
  - apply pre_attach_events, Ha.
  - rewrite Ef, C1. exact P1.
  - rewrite Ef, C2. exact P2.
  - rewrite Ef, C3. exact P3.
Qed.

Lemma c16_override_closes_first fx s q p ok old :
  s_closed s = false -> c_static (s_conf s) = false -> c_aa (s_conf s) = false ->
  c_override (s_conf s) = true -> s_source s = Some old ->
  let evs := snd (step_gen fx s (AddPublisher q p ok)) in
  let s' := fst (step_gen fx s (AddPublisher q p ok)) in
  let g := s_nextgen s in
  Before (EPubClosed old) (EPathReady g) evs /\
  Before EPathNotReady (EPathReady g) evs /\
  (forall r, In r (s_readers s) -> Before (EReaderClosed r) (EPathReady g) evs) /\
  Before (EPathReady g) (EAnswer q (AStream g)) evs /\
  s_source s' = Some p /\ s_stream s' = Some g /\ s_sub s' = SPub p.
Proof.
  intros Hc Hst Haa Hov Hsrc. cbv zeta. unfold step_gen, do_add_publisher. rewrite Hc, Hst, Hsrc, Hov. cbn [negb].
  rewrite !snd_bind, !fst_bind. cbn [snd fst emit].
  assert (Eerp : execute_remove_publisher s = (set_not_available ;; modify (set_source None)) s).
  { unfold execute_remove_publisher, bindM, source_gone, aa. rewrite Haa. reflexivity. }
  set (s2 := fst (execute_remove_publisher s)).
  assert (Hg : s_nextgen s2 = s_nextgen s /\ aa s2 = false).
  { unfold s2. rewrite Eerp, fst_bind. cbn [fst modify].
    destruct (sna_fields s) as (_ & _ & A & B). unfold aa. destruct (fst (set_not_available s)); cbn in *. rewrite A, B. auto. }
  destruct Hg as [Hg Ha2].
  destruct (attach_shape q p ok s2 Ha2) as (Sh & Rd & St & So & Su). rewrite Hg in *.
  assert (Hnr : In EPathNotReady (snd (execute_remove_publisher s))).
  { rewrite Eerp, snd_bind. apply in_or_app. left. apply sna_events. }
  assert (Hcl : forall r, In r (s_readers s) -> In (EReaderClosed r) (snd (execute_remove_publisher s))).
  { intros r Hin. destruct (td_erp s r Hin) as [H|H]; [|exact H]. exfalso.
    rewrite Eerp, fst_bind in H. cbn [fst modify] in H.
    destruct (sna_fields s) as (A & _). destruct (fst (set_not_available s)); cbn in *. rewrite A in H. destruct H. }
  assert (Hrd : In (EPathReady (s_nextgen s)) (snd (attach_publisher q p ok s2))).
  { rewrite Sh. apply in_or_app. left; exact Rd. }
  repeat split.
  - rewrite app_assoc. apply before_app_l; [apply in_or_app; left; left; reflexivity|exact Hrd].
  - rewrite app_assoc. apply before_app_l; [apply in_or_app; right; exact Hnr|exact Hrd].
  - intros r Hin. rewrite app_assoc. apply before_app_l; [apply in_or_app; right; apply Hcl, Hin|exact Hrd].
  - rewrite Sh. rewrite !app_assoc. apply before_app_l; [|left; reflexivity].
    apply in_or_app. left. apply in_or_app. right. exact Rd.
  - exact So.
  - exact St.
  - exact Su.
Qed.

(* ---- alwaysAvailable: the stream and its readers stay; the replaced publisher is closed and detached, and
   its sub-stream is not the current one afterwards: the new publisher's is, or - when the new publisher's
   tracks are refused - the offline one ------------------------------------------------------------- *)
Lemma erp_aa s : aa s = true ->
  let s2 := fst (execute_remove_publisher s) in
  s_source s2 = None /\ s_sub s2 = SOffline /\ s_stream s2 = s_stream s /\ s_readers s2 = s_readers s /\
  aa s2 = true /\ s_hOffline s2 = false.
Proof.
  destruct s as [[? ? ? ? ? ? ? ? ? ? a] ? ? ? ? ? ? ? ? ? ? ? ? ? ? ? ? ? hof ?]. unfold aa. cbn. intros ->.
  destruct hof; repeat split; reflexivity.
Qed.

Lemma pre_tail_fields p s :
  s_stream (fst (pre_tail p s)) = s_stream s /\ s_source (fst (pre_tail p s)) = Some p /\
  s_sub (fst (pre_tail p s)) = SPub p /\ s_readers (fst (pre_tail p s)) = s_readers s.
Proof.
  destruct s as [[? ? ? ? ? ? ? ? hd ? a] ? ? ? ? ? ? ? ? ? ? ? ? pst ? ? ? ? hof ?].
  destruct a, hof, hd, pst; repeat split; reflexivity.
Qed.

Lemma attach_aa q p ok s g : aa s = true -> s_stream s = Some g ->
  let s' := fst (attach_publisher q p ok s) in
  let evs := snd (attach_publisher q p ok s) in
  s_stream s' = Some g /\ (forall r, In r (s_readers s) -> In r (s_readers s')) /\
  if ok then s_source s' = Some p /\ s_sub s' = SPub p /\ In (EAnswer q (AStream g)) evs
  else s' = s /\ evs = [EAnswer q (AErr E_INCOMPAT)].
Proof.
  intros Ha Hs. cbv zeta.
  assert (Ew : whenM not_aa set_available s = (s, [])).
  { unfold whenM, not_aa. unfold aa in Ha. rewrite Ha. reflexivity. }
  unfold attach_publisher, bindM. rewrite Ew, Ha. destruct ok; cbn [negb andb fst snd app].
  - destruct (pre_tail_fields p s) as (P1 & P2 & P3 & P4).
    destruct (consume_fields (fst (pre_tail p s))) as (C1 & C2 & C3).
    destruct (attach_tail q p s) as [s' evs] eqn:E.
    assert (Es : s' = fst (consume_on_hold (fst (pre_tail p s)))) by (rewrite <- (fst_attach_tail q), E; reflexivity).
    assert (Ee : evs = snd (attach_tail q p s)) by (rewrite E; reflexivity).
    cbn [fst snd]. subst s'. rewrite C1, C2, C3, P1, P2, P3, Hs. split; [reflexivity|]. split.
    + intros r Hin. apply keep_consume. rewrite P4. exact Hin.
    + repeat split. rewrite Ee, attach_tail_events. apply in_or_app. right. apply in_or_app. right.
      unfold cur_stream. rewrite C1, P1, Hs. left. reflexivity.
  - repeat split; auto.
Qed.

Lemma c16_override_aa fx s q p ok old g :
  s_closed s = false -> c_static (s_conf s) = false -> c_aa (s_conf s) = true ->
  c_override (s_conf s) = true -> s_source s = Some old -> s_stream s = Some g ->
  let evs := snd (step_gen fx s (AddPublisher q p ok)) in
  let s' := fst (step_gen fx s (AddPublisher q p ok)) in
  In (EPubClosed old) evs /\
  s_stream s' = Some g /\
  (forall r, In r (s_readers s) -> In r (s_readers s')) /\
  if ok then s_source s' = Some p /\ s_sub s' = SPub p /\ In (EAnswer q (AStream g)) evs
  else s_source s' = None /\ s_sub s' = SOffline /\ In (EAnswer q (AErr E_INCOMPAT)) evs.
Proof.
  intros Hc Hst Haa Hov Hsrc Hstr. cbv zeta. unfold step_gen, do_add_publisher. rewrite Hc, Hst, Hsrc, Hov. cbn [negb].
  rewrite !snd_bind, !fst_bind. cbn [snd fst emit].
  destruct (erp_aa s Haa) as (E1 & E2 & E3 & E4 & E5 & _).
  set (s2 := fst (execute_remove_publisher s)) in *.
  assert (Hs2 : s_stream s2 = Some g) by (rewrite E3; exact Hstr).
  pose proof (attach_aa q p ok s2 g E5 Hs2) as A. cbv zeta in A. destruct A as (A1 & A2 & A3).
  split; [apply in_or_app; left; left; reflexivity|]. split; [exact A1|]. split.
  - intros r Hin. apply A2. rewrite E4. exact Hin.
  - destruct ok.
    + destruct A3 as (B1 & B2 & B3). repeat split; [exact B1|exact B2|].
      apply in_or_app. right. apply in_or_app. right. exact B3.
    + destruct A3 as (B1 & B2). rewrite B1, B2. repeat split; [exact E1|exact E2|].
      apply in_or_app. right. apply in_or_app. right. left. reflexivity.
Qed.

(* C18 on alwaysAvailable paths: the publisher leaves, the stream and every reader stay *)
Lemma c18_aa_publisher_leaves fx s p :
  s_closed s = false -> c_aa (s_conf s) = true ->
  let s' := fst (step_gen fx s (RemovePublisher p)) in
  s_stream s' = s_stream s /\ s_readers s' = s_readers s.
Proof.
  intros Hc Haa. cbv zeta. unfold step_gen, do_remove_publisher. rewrite Hc.
  destruct (s_source s) as [p0|]; [|split; reflexivity]. destruct (p0 =? p); [|split; reflexivity].
  rewrite fst_bind. destruct (erp_aa s Haa) as (_ & _ & E3 & E4 & _).
  set (s2 := fst (execute_remove_publisher s)) in *.
  assert (Q : Quiet (whenM (fun s0 => fx && od_pub (s_conf s0) && negb (ods_eqb (s_pubState s0) OdInitial)) pub_stop))
    by apply quiet_when, quiet_pub_stop.
  destruct (Q s2) as (_ & _ & _ & R). rewrite R, E4. split; [|reflexivity]. rewrite <- E3.
  unfold whenM. destruct (fx && od_pub (s_conf s2) && negb (ods_eqb (s_pubState s2) OdInitial)); [|reflexivity].
  destruct s2 as [? ? ? ? ? ? ? ? ? ? ? ? ? pst ? pct hud ? ? ?]. destruct pst, hud; reflexivity.
Qed.
