(* C29, /list: proofs about FindSegments, concatenateSegments and the clipping of onList. *)
From Coq Require Import List ZArith Bool Lia.
Require Import MTX.Model.C29_Playback.
Import ListNotations.
Local Open Scope Z_scope.

(* ------------------------------------------------------------------ vocabulary *)

(* b continues a: what segmentFMP4CanBeConcatenated answers for two consecutive files *)
Definition bridged (a b : seg) : bool := can_concat a (seg_end a) b.

(* The recorder invariant used by the theorems: starts strictly increase, durations are not negative, a
   segment that does not continue its predecessor starts at or after the predecessor's end, one that
   continues it does not end before it. *)
Fixpoint rec_ok (l : list seg) : Prop :=
  match l with
  | a :: ((b :: _) as r) =>
      0 <= s_dur a /\ s_start a < s_start b /\
      (if bridged a b then seg_end a <= seg_end b else seg_end a <= s_start b) /\ rec_ok r
  | [a] => 0 <= s_dur a
  | [] => True
  end.

(* no jitter: a segment that continues its predecessor starts exactly where the predecessor ends *)
Fixpoint contiguous (l : list seg) : Prop :=
  match l with
  | a :: ((b :: _) as r) => (bridged a b = true -> seg_end a = s_start b) /\ contiguous r
  | _ => True
  end.

(* every segment of g continues the one before *)
Fixpoint chain (g : list seg) : Prop :=
  match g with
  | a :: ((b :: _) as r) => bridged a b = true /\ chain r
  | _ => True
  end.

(* maximal runs of segments continuing each other *)
Fixpoint runs (l : list seg) : list (list seg) :=
  match l with
  | [] => []
  | a :: r =>
      match runs r, r with
      | g :: gs, b :: _ => if bridged a b then (a :: g) :: gs else [a] :: g :: gs
      | _, _ => [[a]]
      end
  end.

Definition hull (g : list seg) : entry :=
  match g with
  | [] => mkEntry 0 0
  | a :: _ => mkEntry (s_start a) (seg_end (last g a) - s_start a)
  end.

Definition in_seg (s : seg) (t : Z) : Prop := s_start s <= t < seg_end s.
Definition in_entry (e : entry) (t : Z) : Prop := e_start e <= t < e_end e.
Definition recorded (all : list seg) (t : Z) : Prop := exists s, In s all /\ in_seg s t.
Definition in_entries (es : list entry) (t : Z) : Prop := exists e, In e es /\ in_entry e t.
Definition in_window (st en : option Z) (t : Z) : Prop :=
  (forall v, st = Some v -> v <= t) /\ (forall e, en = Some e -> t < e).
(* t lies between the start of a segment and the end of a later one that continues it (possibly in the
   short interval the two leave open) *)
Definition recorded_hull (all : list seg) (t : Z) : Prop :=
  exists l1 g l2, all = l1 ++ g ++ l2 /\ g <> [] /\ chain g /\ in_entry (hull g) t.

Fixpoint entries_sorted (es : list entry) : Prop :=
  match es with
  | a :: ((b :: _) as r) => 0 <= e_dur a /\ e_end a <= e_start b /\ entries_sorted r
  | [a] => 0 <= e_dur a
  | [] => True
  end.

Definition sorted_starts (l : list seg) : Prop :=
  forall l1 a b l2, l = l1 ++ a :: b :: l2 -> s_start a < s_start b.

(* ------------------------------------------------------------------ runs *)

Lemma runs_head b r : exists g gs, runs (b :: r) = (b :: g) :: gs.
Proof.
  simpl. destruct (runs r) as [|g gs] eqn:E; [eexists _, _; reflexivity|].
  destruct r as [|c r']; [eexists _, _; reflexivity|].
  destruct (bridged b c); eexists _, _; reflexivity.
Qed.

Lemma runs_concat l : concat (runs l) = l.
Proof.
  induction l as [|a r IH]; [reflexivity|].
  simpl. destruct (runs r) as [|g gs] eqn:E.
  - destruct r as [|c r']; [reflexivity|]. destruct (runs_head c r') as (g & gs & H). congruence.
  - destruct r as [|c r']; [simpl in E; discriminate|].
    destruct (bridged a c); simpl in *; rewrite IH; reflexivity.
Qed.

Lemma runs_nonempty l : Forall (fun g => g <> []) (runs l).
Proof.
  induction l as [|a r IH]; [constructor|].
  simpl. destruct (runs r) as [|g gs] eqn:E; [repeat constructor; discriminate|].
  destruct r as [|c r']; [repeat constructor; discriminate|].
  inversion IH; subst.
  destruct (bridged a c); repeat constructor; try discriminate; assumption.
Qed.

Lemma runs_chain l : Forall chain (runs l).
Proof.
  induction l as [|a r IH]; [constructor|].
  simpl. destruct (runs r) as [|g gs] eqn:E; [repeat constructor|].
  destruct r as [|c r']; [repeat constructor|].
  destruct (runs_head c r') as (g' & gs' & H). rewrite H in E. inversion E; subst.
  inversion IH; subst.
  destruct (bridged a c) eqn:B; repeat constructor; try assumption.
Qed.

(* consecutive runs are separated by a pair that does not continue *)
Fixpoint runs_separated (gs : list (list seg)) : Prop :=
  match gs with
  | g1 :: ((g2 :: _) as r) =>
      (forall a b, g1 <> [] -> g2 <> [] -> bridged (last g1 a) (hd b g2) = false) /\ runs_separated r
  | _ => True
  end.

Lemma runs_maximal l : runs_separated (runs l).
Proof.
  induction l as [|a r IH]; [exact I|].
  simpl. destruct (runs r) as [|g gs] eqn:E; [exact I|].
  destruct r as [|c r']; [exact I|].
  destruct (runs_head c r') as (g' & gs' & H). rewrite H in E. inversion E; subst.
  destruct (bridged a c) eqn:B.
  - simpl in IH |- *. destruct gs as [|g2 gs2]; [exact I|].
    destruct IH as [IH1 IH2]. split; [|exact IH2].
    intros x y _ Hg2. specialize (IH1 x y). simpl in IH1 |- *. apply IH1; [discriminate|exact Hg2].
  - split; [|exact IH]. intros x y _ _. simpl. exact B.
Qed.

(* ------------------------------------------------------------------ concatenateSegments = hulls of the runs *)

Lemma entry_eq a b : e_start a = e_start b -> e_dur a = e_dur b -> a = b.
Proof. destruct a, b; simpl; intros; subst; reflexivity. Qed.

Lemma last_cons {A} (g : list A) : forall s d, last (s :: g) d = last g s.
Proof.
  induction g as [|x g IH]; intros s d; [reflexivity|].
  change (last (s :: x :: g) d) with (last (x :: g) d). rewrite (IH x d), (IH x s). reflexivity.
Qed.

Lemma concat_from_runs l : forall cur prev,
  e_end cur = seg_end prev ->
  exists g gs, runs (prev :: l) = (prev :: g) :: gs /\
    concat_from cur prev l = mkEntry (e_start cur) (seg_end (last g prev) - e_start cur) :: map hull gs.
Proof.
  induction l as [|s r IH]; intros cur prev Hend.
  - exists [], []. split; [reflexivity|]. simpl. f_equal. apply entry_eq; simpl; [reflexivity|].
    unfold e_end in Hend. lia.
  - cbn [concat_from]. rewrite Hend. fold (bridged prev s).
    destruct (bridged prev s) eqn:B.
    + destruct (IH (mkEntry (e_start cur) (seg_end s - e_start cur)) s) as (g & gs & Hr & Hc).
      { unfold e_end. simpl. lia. }
      exists (s :: g), gs. split.
      * change (runs (prev :: s :: r)) with
          (match runs (s :: r), s :: r with
           | g :: gs, b :: _ => if bridged prev b then (prev :: g) :: gs else [prev] :: g :: gs
           | _, _ => [[prev]] end).
        rewrite Hr, B. reflexivity.
      * rewrite Hc. f_equal. apply entry_eq; cbn [e_start e_dur]; [reflexivity|]. rewrite (last_cons g s prev). reflexivity.
    + destruct (IH (mkEntry (s_start s) (s_dur s)) s) as (g & gs & Hr & Hc).
      { reflexivity. }
      exists [], ((s :: g) :: gs). split.
      * change (runs (prev :: s :: r)) with
          (match runs (s :: r), s :: r with
           | g :: gs, b :: _ => if bridged prev b then (prev :: g) :: gs else [prev] :: g :: gs
           | _, _ => [[prev]] end).
        rewrite Hr, B. reflexivity.
      * rewrite Hc. cbn [map last]. f_equal.
        { apply entry_eq; cbn [e_start e_dur]; [reflexivity|]. unfold e_end in Hend. lia. }
        f_equal. unfold hull. apply entry_eq; cbn [e_start e_dur]; [reflexivity|]. rewrite (last_cons g s s). reflexivity.
Qed.

Lemma concatenate_runs l : concatenate l = map hull (runs l).
Proof.
  destruct l as [|s r]; [reflexivity|].
  unfold concatenate.
  destruct (concat_from_runs r (mkEntry (s_start s) (s_dur s)) s eq_refl) as (g & gs & Hr & Hc).
  rewrite Hr, Hc. cbn [map]. f_equal. unfold hull. apply entry_eq; cbn [e_start e_dur]; [reflexivity|].
  rewrite (last_cons g s s). reflexivity.
Qed.

(* ------------------------------------------------------------------ rec_ok on parts of a list *)

Lemma rec_ok_tail a l : rec_ok (a :: l) -> rec_ok l.
Proof. destruct l as [|b r]; simpl; [trivial|]. intros (_ & _ & _ & H). exact H. Qed.

Lemma rec_ok_app_r l1 l2 : rec_ok (l1 ++ l2) -> rec_ok l2.
Proof. induction l1 as [|a r IH]; [trivial|]. intros H. apply IH. exact (rec_ok_tail _ _ H). Qed.

Lemma rec_ok_app_l l1 l2 : rec_ok (l1 ++ l2) -> rec_ok l1.
Proof.
  induction l1 as [|a r IH]; [intros; exact I|].
  intros H. destruct r as [|b r'].
  - destruct l2; simpl in H; [exact H|]. destruct H as (H & _). exact H.
  - simpl in H. destruct H as (H1 & H2 & H3 & H4). simpl. repeat split; try assumption. apply IH. exact H4.
Qed.

Lemma rec_ok_dur l s : rec_ok l -> In s l -> 0 <= s_dur s.
Proof.
  induction l as [|a r IH]; [intros _ []|].
  intros H [->|Hin].
  - destruct r; simpl in H; [exact H|]. destruct H as (H & _). exact H.
  - apply IH; [exact (rec_ok_tail _ _ H)|exact Hin].
Qed.

(* ends do not decrease along a recording *)
Lemma rec_ok_end_le l1 : forall h l2 s, rec_ok (l1 ++ h :: l2) -> In s l1 -> seg_end s <= seg_end h.
Proof.
  induction l1 as [|a r IH]; intros h l2 s H Hin; [destruct Hin|].
  assert (Hnext : forall b rest, r ++ h :: l2 = b :: rest -> seg_end a <= seg_end b).
  { intros b rest E. simpl in H. rewrite E in H. destruct H as (_ & _ & H3 & H4).
    assert (0 <= s_dur b) by (apply (rec_ok_dur (b :: rest)); [exact H4|left; reflexivity]).
    destruct (bridged a b); unfold seg_end in *; lia. }
  destruct Hin as [->|Hin].
  - destruct r as [|b r'].
    + apply (Hnext h l2). reflexivity.
    + specialize (Hnext b (r' ++ h :: l2) eq_refl).
      assert (seg_end b <= seg_end h).
      { apply (IH h l2); [exact (rec_ok_tail _ _ H)|left; reflexivity]. }
      lia.
  - apply (IH h l2); [exact (rec_ok_tail _ _ H)|exact Hin].
Qed.

Lemma rec_ok_start_lt l1 : forall h l2 s, rec_ok (l1 ++ h :: l2) -> In s l1 -> s_start s < s_start h.
Proof.
  induction l1 as [|a r IH]; intros h l2 s H Hin; [destruct Hin|].
  destruct Hin as [->|Hin].
  - destruct r as [|b r'].
    + simpl in H. destruct H as (_ & H & _). exact H.
    + assert (s_start b < s_start h).
      { apply (IH h l2); [exact (rec_ok_tail _ _ H)|left; reflexivity]. }
      simpl in H. destruct H as (_ & H & _). lia.
  - apply (IH h l2); [exact (rec_ok_tail _ _ H)|exact Hin].
Qed.

Lemma rec_ok_start_lt_tail h l s : rec_ok (h :: l) -> In s l -> s_start h < s_start s.
Proof.
  intros H Hin. apply in_split in Hin. destruct Hin as (l1 & l2 & ->).
  apply (rec_ok_start_lt (h :: l1) s l2 h); [exact H|left; reflexivity].
Qed.

(* every member of a recording lies between the start of the first and the end of the last *)
Lemma run_hull a g s : rec_ok (a :: g) -> In s (a :: g) ->
  s_start a <= s_start s /\ seg_end s <= seg_end (last g a).
Proof.
  intros H Hin. split.
  - destruct Hin as [->|Hin]; [lia|].
    assert (s_start a < s_start s) by (apply (rec_ok_start_lt_tail a g); assumption). lia.
  - rewrite <- (last_cons g a a).
    apply in_split in Hin. destruct Hin as (l1 & l2 & E). rewrite E.
    destruct (exists_last (l := s :: l2)) as (l2' & y & E2); [discriminate|].
    rewrite E2. rewrite app_assoc, last_last.
    destruct l2' as [|x l2'']; simpl in E2.
    + inversion E2; subst. lia.
    + injection E2 as E2a E3. subst x.
      apply (rec_ok_end_le (l1 ++ s :: l2'') y []).
      * rewrite <- app_assoc. simpl. rewrite <- E3. rewrite <- E. exact H.
      * apply in_or_app. right. left. reflexivity.
Qed.

(* ------------------------------------------------------------------ FindSegments on a recording *)

Lemma sort_sorted l : rec_ok l -> sort_by s_start l = l.
Proof.
  induction l as [|a r IH]; [reflexivity|].
  intros H. unfold sort_by in *. simpl. rewrite (IH (rec_ok_tail _ _ H)).
  destruct r as [|b r']; [reflexivity|].
  simpl in H. destruct H as (_ & H & _). simpl.
  destruct (s_start a <=? s_start b) eqn:E; [reflexivity|lia].
Qed.

Definition end_ok (en : option Z) (s : seg) : bool :=
  match en with None => true | Some e => negb (e <? s_start s) end.

Lemma filter_end l en : rec_ok l ->
  exists post, l = filter (end_ok en) l ++ post /\ forall s, In s post -> exists e, en = Some e /\ e < s_start s.
Proof.
  induction l as [|a r IH]; intros H.
  - exists []. split; [reflexivity|intros s []].
  - simpl. destruct (end_ok en a) eqn:E.
    + destruct (IH (rec_ok_tail _ _ H)) as (post & E1 & E2).
      exists post. split; [simpl; f_equal; exact E1|exact E2].
    + assert (Hall : forall s, In s (a :: r) -> exists e, en = Some e /\ e < s_start s).
      { unfold end_ok in E. destruct en as [e|]; [|discriminate].
        intros s [->|Hin]; exists e; split; try reflexivity; [lia|].
        assert (s_start a < s_start s) by (apply (rec_ok_start_lt_tail a r); assumption). lia. }
      assert (Hnil : filter (end_ok en) r = []).
      { clear IH. assert (Hr : forall s, In s r -> end_ok en s = false).
        { intros s Hs. destruct (Hall s (or_intror Hs)) as (e & -> & He). unfold end_ok.
          destruct (e <? s_start s) eqn:E3; [reflexivity|lia]. }
        clear -Hr. induction r as [|b r IH]; [reflexivity|]. simpl.
        rewrite (Hr b (or_introl eq_refl)). apply IH. intros s Hs. apply Hr. right. exact Hs. }
      rewrite Hnil. exists (a :: r). split; [reflexivity|exact Hall].
Qed.

Lemma seek_start_some v l : forall r, rec_ok l ->
  (forall a l', l = a :: l' -> s_start a <= v) ->
  seek_start s_start v l = Some r ->
  exists pre a b r', l = pre ++ r /\ r = a :: b :: r' /\ s_start a <= v < s_start b /\
                     forall s, In s pre -> s_start s <= v.
Proof.
  induction l as [|a l' IH]; intros r H Hhd Hs; [discriminate|].
  destruct l' as [|b l'']; [discriminate|].
  cbn [seek_start] in Hs.
  destruct (negb (v <? s_start a) && (v <? s_start b)) eqn:E.
  - inversion Hs; subst. exists [], a, b, l''. repeat split; try reflexivity; try lia.
    intros s [].
  - assert (Ha : s_start a <= v) by (apply (Hhd a (b :: l'')); reflexivity).
    assert (Hb : s_start b <= v) by lia.
    destruct (IH r (rec_ok_tail _ _ H)) as (pre & a' & b' & r' & E1 & E2 & E3 & E4).
    { intros x y Exy. inversion Exy; subst. exact Hb. }
    { exact Hs. }
    exists (a :: pre), a', b', r'. repeat split; try assumption; try lia.
    + simpl. f_equal. exact E1.
    + intros s [->|Hin]; [exact Ha|apply E4; exact Hin].
Qed.

Lemma seek_start_none v l : rec_ok l ->
  (forall a l', l = a :: l' -> s_start a <= v) ->
  seek_start s_start v l = None -> forall s, In s l -> s_start s <= v.
Proof.
  induction l as [|a l' IH]; intros H Hhd Hs s Hin; [destruct Hin|].
  assert (Ha : s_start a <= v) by (apply (Hhd a l'); reflexivity).
  destruct l' as [|b l'']; [destruct Hin as [->|[]]; exact Ha|].
  cbn [seek_start] in Hs.
  destruct (negb (v <? s_start a) && (v <? s_start b)) eqn:E; [discriminate|].
  destruct Hin as [->|Hin]; [exact Ha|].
  apply IH; try assumption; [exact (rec_ok_tail _ _ H)|].
  intros x y Exy. inversion Exy; subst. lia.
Qed.

Record found_spec (all : list seg) (st en : option Z) (segs pre post : list seg) : Prop := {
  fs_split : all = pre ++ segs ++ post;
  fs_nonempty : segs <> [];
  fs_post : forall s, In s post -> exists e, en = Some e /\ e < s_start s;
  fs_segs : forall s e, In s segs -> en = Some e -> s_start s <= e;
  fs_pre : forall s, In s pre -> exists v, st = Some v /\ s_start s <= v;
  fs_head : forall v h tl, st = Some v -> segs = h :: tl ->
              (pre = [] \/ s_start h <= v) /\ forall s, In s tl -> v < s_start s
}.

Lemma filter_end_in l en s e : In s (filter (end_ok en) l) -> en = Some e -> s_start s <= e.
Proof.
  intros Hin ->. apply filter_In in Hin. destruct Hin as (_ & H). unfold end_ok in H.
  destruct (e <? s_start s) eqn:E; [discriminate|lia].
Qed.

Lemma find_segments_some all st en segs : rec_ok all ->
  find_segments s_start all st en = Some segs ->
  exists pre post, found_spec all st en segs pre post.
Proof.
  intros H Hf. unfold find_segments in Hf. fold (end_ok en) in Hf.
  destruct (filter_end all en H) as (post & Esplit & Hpost).
  set (l := filter (end_ok en) all) in *.
  assert (Hl : rec_ok l) by (apply (rec_ok_app_l l post); rewrite <- Esplit; exact H).
  rewrite (sort_sorted l Hl) in Hf.
  destruct l as [|s0 l0] eqn:El; [discriminate|].
  assert (Hsegs : forall s e, In s (s0 :: l0) -> en = Some e -> s_start s <= e).
  { intros s e Hin He. apply (filter_end_in all en s e); [|exact He]. fold l. rewrite El. exact Hin. }
  destruct st as [v|].
  - destruct (v <? s_start s0) eqn:Ev.
    + inversion Hf; subst segs. exists [], post. split; try assumption; try discriminate.
      * intros s [].
      * intros v' h tl Ev' Eh. inversion Ev'; subst v'. inversion Eh; subst. split; [left; reflexivity|].
        intros s Hs. assert (s_start h < s_start s) by (apply (rec_ok_start_lt_tail h tl); assumption). lia.
    + assert (Hhd : forall a l', s0 :: l0 = a :: l' -> s_start a <= v).
      { intros a l' E. inversion E; subst. lia. }
      destruct (seek_start s_start v (s0 :: l0)) as [r|] eqn:Es.
      * inversion Hf; subst segs.
        destruct (seek_start_some v (s0 :: l0) r Hl Hhd Es) as (pre & a & b & r' & E1 & E2 & E3 & E4).
        exists pre, post. split.
        -- rewrite Esplit, E1, <- app_assoc. reflexivity.
        -- rewrite E2. discriminate.
        -- exact Hpost.
        -- intros s e Hin He. apply (Hsegs s e); [|exact He]. rewrite E1. apply in_or_app. right. exact Hin.
        -- intros s Hin. exists v. split; [reflexivity|apply E4; exact Hin].
        -- intros v' h tl Ev' Eh. inversion Ev'; subst v'. rewrite E2 in Eh. inversion Eh; subst h tl.
           split; [right; lia|].
           intros s [->|Hs]; [lia|].
           assert (Hr : rec_ok (b :: r')).
           { apply (rec_ok_app_r (pre ++ [a])). rewrite <- app_assoc. simpl. rewrite <- E2, <- E1. exact Hl. }
           assert (s_start b < s_start s) by (apply (rec_ok_start_lt_tail b r'); assumption). lia.
      * pose proof (seek_start_none v (s0 :: l0) Hl Hhd Es) as Hall.
        destruct (exists_last (l := s0 :: l0)) as (pre & la & Ela); [discriminate|].
        rewrite Ela in Hf. rewrite last_last in Hf.
        assert (s_start la <= v) by (apply Hall; rewrite Ela; apply in_or_app; right; left; reflexivity).
        destruct (s_start la >? v) eqn:Eg; [lia|].
        inversion Hf; subst segs. exists pre, post. split.
        -- rewrite Esplit, Ela, <- app_assoc. reflexivity.
        -- discriminate.
        -- exact Hpost.
        -- intros s e [->|[]] He. apply (Hsegs s e); [|exact He]. rewrite Ela. apply in_or_app. right. left. reflexivity.
        -- intros s Hin. exists v. split; [reflexivity|]. apply Hall. rewrite Ela. apply in_or_app. left. exact Hin.
        -- intros v' h tl Ev' Eh. inversion Ev'; subst v'. inversion Eh; subst h tl. split; [right; lia|intros s []].
  - inversion Hf; subst segs. exists [], post. split; try assumption; try discriminate.
    all: try (intros s []). all: try (intros v h tl Ev; discriminate).
Qed.

Lemma find_segments_none all st en : rec_ok all ->
  find_segments s_start all st en = None ->
  forall s, In s all -> exists e, en = Some e /\ e < s_start s.
Proof.
  intros H Hf. unfold find_segments in Hf. fold (end_ok en) in Hf.
  destruct (filter_end all en H) as (post & Esplit & Hpost).
  set (l := filter (end_ok en) all) in *.
  assert (Hl : rec_ok l) by (apply (rec_ok_app_l l post); rewrite <- Esplit; exact H).
  rewrite (sort_sorted l Hl) in Hf.
  destruct l as [|s0 l0] eqn:El.
  - simpl in Esplit. subst post. exact Hpost.
  - exfalso. destruct st as [v|]; [|discriminate].
    destruct (v <? s_start s0) eqn:Ev; [discriminate|].
    assert (Hhd : forall a l', s0 :: l0 = a :: l' -> s_start a <= v).
    { intros a l' E. inversion E; subst. lia. }
    destruct (seek_start s_start v (s0 :: l0)) as [r|] eqn:Es; [discriminate|].
    pose proof (seek_start_none v (s0 :: l0) Hl Hhd Es) as Hall.
    destruct (exists_last (l := s0 :: l0)) as (pre & la & Ela); [discriminate|].
    rewrite Ela in Hf. rewrite last_last in Hf.
    assert (s_start la <= v) by (apply Hall; rewrite Ela; apply in_or_app; right; left; reflexivity).
    destruct (s_start la >? v) eqn:Eg; [lia|discriminate].
Qed.

(* ------------------------------------------------------------------ the merged entries *)

Lemma hull_start a g : e_start (hull (a :: g)) = s_start a.
Proof. reflexivity. Qed.

Lemma hull_end a g : e_end (hull (a :: g)) = seg_end (last g a).
Proof. unfold hull, e_end. cbn [e_start e_dur]. rewrite (last_cons g a a). lia. Qed.

Lemma hulls_sorted l : rec_ok l -> entries_sorted (map hull (runs l)).
Proof.
  induction l as [|a r IH]; intros H; [exact I|].
  specialize (IH (rec_ok_tail _ _ H)).
  destruct r as [|b r'].
  - simpl. unfold seg_end. simpl in H. lia.
  - destruct (runs_head b r') as (g & gs & Hr).
    change (runs (a :: b :: r')) with
      (match runs (b :: r'), b :: r' with
       | g :: gs, c :: _ => if bridged a c then (a :: g) :: gs else [a] :: g :: gs
       | _, _ => [[a]] end).
    rewrite Hr in IH |- *.
    assert (Hbg : rec_ok (b :: g)).
    { assert (Hc : (b :: g) ++ concat gs = b :: r') by (rewrite <- (runs_concat (b :: r')), Hr; reflexivity).
      apply (rec_ok_app_l (b :: g) (concat gs)). rewrite Hc. exact (rec_ok_tail _ _ H). }
    assert (Hge : seg_end b <= seg_end (last g b)) by (apply (run_hull b g b Hbg); left; reflexivity).
    assert (Hdb : 0 <= s_dur b) by (apply (rec_ok_dur (b :: g)); [exact Hbg|left; reflexivity]).
    simpl in H. destruct H as (Hda & Hab & Hbr & _).
    destruct (bridged a b) eqn:B.
    + cbn [map] in IH |- *.
      assert (Hd : 0 <= e_dur (hull (a :: b :: g))).
      { unfold hull. cbn [e_dur]. rewrite (last_cons (b :: g) a a), (last_cons g b a). unfold seg_end in *. lia. }
      assert (He : e_end (hull (a :: b :: g)) = e_end (hull (b :: g))).
      { rewrite !hull_end. rewrite (last_cons g b a). reflexivity. }
      destruct (map hull gs) as [|e2 es2] eqn:Em.
      * exact Hd.
      * cbn [entries_sorted] in IH |- *. destruct IH as (_ & IH2 & IH3). rewrite He. repeat split; assumption.
    + cbn [map]. cbn [entries_sorted]. repeat split; [| |exact IH].
      * unfold hull, seg_end. cbn [e_dur last]. lia.
      * rewrite hull_start. unfold hull, e_end, seg_end in *. cbn [e_start e_dur last]. lia.
Qed.

Lemma in_hulls l t : in_entries (map hull (runs l)) t <-> exists g, In g (runs l) /\ in_entry (hull g) t.
Proof.
  unfold in_entries. split.
  - intros (e & Hin & Ht). apply in_map_iff in Hin. destruct Hin as (g & <- & Hg). exists g. split; assumption.
  - intros (g & Hg & Ht). exists (hull g). split; [apply in_map; exact Hg|exact Ht].
Qed.

Lemma run_infix l g : In g (runs l) -> exists l1 l2, l = l1 ++ g ++ l2.
Proof.
  intros Hin. apply in_split in Hin. destruct Hin as (R1 & R2 & E).
  exists (concat R1), (concat R2). rewrite <- (runs_concat l), E, concat_app. reflexivity.
Qed.

Lemma rec_ok_infix l1 g l2 : rec_ok (l1 ++ g ++ l2) -> rec_ok g.
Proof. intros H. apply rec_ok_app_r in H. apply rec_ok_app_l in H. exact H. Qed.

(* a member of a recording lies inside the hull of its run *)
Lemma member_in_hull l s t : rec_ok l -> In s l -> in_seg s t -> in_entries (map hull (runs l)) t.
Proof.
  intros H Hin Ht. apply in_hulls.
  rewrite <- (runs_concat l) in Hin. apply in_concat in Hin. destruct Hin as (g & Hg & Hs).
  exists g. split; [exact Hg|].
  destruct (run_infix l g Hg) as (l1 & l2 & E).
  assert (Hrg : rec_ok g) by (apply (rec_ok_infix l1 g l2); rewrite <- E; exact H).
  destruct g as [|a g']; [destruct Hs|].
  destruct (run_hull a g' s Hrg Hs) as (H1 & H2).
  unfold in_entry, in_seg in *. rewrite hull_start, hull_end. lia.
Qed.

(* starts of the merged entries *)
Lemma hull_starts h tl e : In e (map hull (runs (h :: tl))) ->
  e_start e = s_start h \/ exists s, In s tl /\ e_start e = s_start s.
Proof.
  destruct (runs_head h tl) as (g & gs & Hr). rewrite Hr. intros [<-|Hin]; [left; reflexivity|].
  right. apply in_map_iff in Hin. destruct Hin as (g2 & <- & Hg2).
  pose proof (runs_concat (h :: tl)) as Hc0. rewrite Hr in Hc0. cbn [concat] in Hc0.
  assert (Hc : g ++ concat gs = tl) by (simpl in Hc0; congruence).
  pose proof (runs_nonempty (h :: tl)) as Hne. rewrite Hr in Hne. apply Forall_inv_tail in Hne.
  rewrite Forall_forall in Hne. specialize (Hne g2 Hg2).
  destruct g2 as [|a g2']; [congruence|].
  exists a. split; [|reflexivity].
  rewrite <- Hc. apply in_or_app. right. apply in_concat. exists (a :: g2'). split; [exact Hg2|left; reflexivity].
Qed.

Lemma hull_tl_starts h tl : forall e, In e (List.tl (map hull (runs (h :: tl)))) ->
  exists s, In s tl /\ e_start e = s_start s.
Proof.
  destruct (runs_head h tl) as (g & gs & Hr). rewrite Hr. cbn [map List.tl]. intros e Hin.
  apply in_map_iff in Hin. destruct Hin as (g2 & <- & Hg2).
  pose proof (runs_concat (h :: tl)) as Hc0. rewrite Hr in Hc0. cbn [concat] in Hc0.
  assert (Hc : g ++ concat gs = tl) by (simpl in Hc0; congruence).
  pose proof (runs_nonempty (h :: tl)) as Hne. rewrite Hr in Hne. apply Forall_inv_tail in Hne.
  rewrite Forall_forall in Hne. specialize (Hne g2 Hg2).
  destruct g2 as [|a g2']; [congruence|].
  exists a. split; [|reflexivity].
  rewrite <- Hc. apply in_or_app. right. apply in_concat. exists (a :: g2'). split; [exact Hg2|left; reflexivity].
Qed.

(* ------------------------------------------------------------------ clipping *)

Lemma clip_first_some v es es' : entries_sorted es ->
  (forall e, In e (List.tl es) -> v < e_start e) ->
  clip_first v es = Some es' ->
  entries_sorted es' /\ (forall t, in_entries es' t <-> in_entries es t /\ v <= t) /\
  (forall e, In e es' -> e_start e = v \/ In e es).
Proof.
  intros Hs Htl Hc. destruct es as [|e r]; simpl in Hc.
  - inversion Hc; subst. split; [exact I|]. split.
    + intros t. split; [intros (e & [] & _)|intros ((e & [] & _) & _)].
    + intros e [].
  - simpl in Htl.
    assert (Hr : entries_sorted r) by (destruct r; [exact I|simpl in Hs; tauto]).
    assert (Hd : 0 <= e_dur e) by (destruct r; simpl in Hs; tauto).
    destruct (e_end e <? v) eqn:E1.
    + destruct r as [|e2 r2]; [discriminate|]. inversion Hc; subst es'. split; [exact Hr|]. split.
      * intros t. split.
        -- intros (x & Hx & Ht). split; [exists x; split; [right; exact Hx|exact Ht]|].
           specialize (Htl x Hx). unfold in_entry in Ht. lia.
        -- intros ((x & [<-|Hx] & Ht) & Hv); [unfold in_entry in Ht; lia|].
           exists x. split; assumption.
      * intros x Hx. right. right. exact Hx.
    + destruct (e_start e <? v) eqn:E2.
      * inversion Hc; subst es'. clear Hc. split; [|split].
        -- destruct r as [|e2 r2]; cbn [entries_sorted e_dur]; [unfold e_end in E1; lia|].
           simpl in Hs. destruct Hs as (_ & Hs2 & Hs3). unfold e_end in *. cbn [e_start e_dur]. repeat split; try assumption; lia.
        -- intros t. split.
           ++ intros (x & [<-|Hx] & Ht).
              ** unfold in_entry, e_end in Ht. cbn [e_start e_dur] in Ht.
                 split; [exists e; split; [left; reflexivity|unfold in_entry, e_end; lia]|lia].
              ** split; [exists x; split; [right; exact Hx|exact Ht]|].
                 specialize (Htl x Hx). unfold in_entry in Ht. lia.
           ++ intros ((x & [<-|Hx] & Ht) & Hv).
              ** eexists. split; [left; reflexivity|]. unfold in_entry, e_end in *. cbn [e_start e_dur]. lia.
              ** exists x. split; [right; exact Hx|exact Ht].
        -- intros x [<-|Hx]; [left; reflexivity|right; right; exact Hx].
      * inversion Hc; subst es'. split; [exact Hs|]. split.
        -- intros t. split; [|tauto]. intros Hin. split; [exact Hin|].
           destruct Hin as (x & [<-|Hx] & Ht); unfold in_entry in Ht; [lia|]. specialize (Htl x Hx). lia.
        -- intros x Hx. right. exact Hx.
Qed.

Lemma clip_first_none v es : clip_first v es = None -> forall t, in_entries es t -> t < v.
Proof.
  destruct es as [|e r]; simpl; [discriminate|].
  destruct (e_end e <? v) eqn:E1.
  - destruct r; [|discriminate]. intros _ t (x & [<-|[]] & Ht). unfold in_entry in Ht. lia.
  - destruct (e_start e <? v); discriminate.
Qed.

Lemma clip_last_starts en es : map e_start (clip_last en es) = map e_start es.
Proof.
  induction es as [|e r IH]; [reflexivity|].
  destruct r as [|e2 r2].
  - simpl. destruct (e_end e >? en); reflexivity.
  - change (clip_last en (e :: e2 :: r2)) with (e :: clip_last en (e2 :: r2)).
    change (map e_start (e :: clip_last en (e2 :: r2))) with (e_start e :: map e_start (clip_last en (e2 :: r2))).
    rewrite IH. reflexivity.
Qed.

Lemma clip_last_spec en es : entries_sorted es -> (forall e, In e es -> e_start e <= en) ->
  entries_sorted (clip_last en es) /\ forall t, in_entries (clip_last en es) t <-> in_entries es t /\ t < en.
Proof.
  induction es as [|e r IH]; intros Hs Hst.
  - split; [exact I|]. intros t. split; [intros (x & [] & _)|intros ((x & [] & _) & _)].
  - destruct r as [|e2 r2].
    + simpl in Hs. specialize (Hst e (or_introl eq_refl)). cbn [clip_last].
      destruct (e_end e >? en) eqn:E.
      * split; [cbn [entries_sorted e_dur]; lia|]. intros t. split.
        -- intros (x & [<-|[]] & Ht). unfold in_entry, e_end in *. cbn [e_start e_dur] in Ht.
           split; [exists e; split; [left; reflexivity|unfold in_entry, e_end; lia]|lia].
        -- intros ((x & [<-|[]] & Ht) & Hv). eexists. split; [left; reflexivity|].
           unfold in_entry, e_end in *. cbn [e_start e_dur]. lia.
      * split; [exact Hs|]. intros t. split; [|tauto]. intros Hin. split; [exact Hin|].
        destruct Hin as (x & [<-|[]] & Ht). unfold in_entry in Ht. lia.
    + change (clip_last en (e :: e2 :: r2)) with (e :: clip_last en (e2 :: r2)).
      simpl in Hs. destruct Hs as (Hd & Hle & Hs2).
      destruct (IH Hs2) as (IH1 & IH2); [intros x Hx; apply Hst; right; exact Hx|].
      pose proof (clip_last_starts en (e2 :: r2)) as Hm.
      destruct (clip_last en (e2 :: r2)) as [|c cs] eqn:Ec; [simpl in Hm; discriminate|].
      simpl in Hm. injection Hm as Hm _.
      split; [cbn [entries_sorted]; repeat split; try assumption; lia|].
      intros t. split.
      * intros (x & [<-|Hx] & Ht).
        -- split; [exists e; split; [left; reflexivity|exact Ht]|].
           specialize (Hst e2 (or_intror (or_introl eq_refl))). unfold in_entry in Ht. lia.
        -- destruct (proj1 (IH2 t)) as ((y & Hy & Hyt) & Hv); [exists x; split; assumption|].
           split; [exists y; split; [right; exact Hy|exact Hyt]|exact Hv].
      * intros ((x & [<-|Hx] & Ht) & Hv).
        -- exists e. split; [left; reflexivity|exact Ht].
        -- destruct (proj2 (IH2 t)) as (y & Hy & Hyt); [split; [exists x; split; assumption|exact Hv]|].
           exists y. split; [right; exact Hy|exact Hyt].
Qed.

(* ------------------------------------------------------------------ onList *)

Lemma found_rec_ok all st en segs pre post : rec_ok all -> found_spec all st en segs pre post -> rec_ok segs.
Proof. intros H F. apply (rec_ok_infix pre segs post). rewrite <- (fs_split _ _ _ _ _ _ F). exact H. Qed.

(* everything recorded inside the window lies in a merged entry of the segments FindSegments returns *)
Lemma found_lower all st en segs pre post t : rec_ok all -> found_spec all st en segs pre post ->
  in_window st en t -> recorded all t -> in_entries (map hull (runs segs)) t.
Proof.
  intros H F (Hw1 & Hw2) (s & Hin & Ht).
  pose proof (found_rec_ok _ _ _ _ _ _ H F) as Hsegs.
  rewrite (fs_split _ _ _ _ _ _ F) in Hin. apply in_app_or in Hin. destruct Hin as [Hin|Hin].
  - destruct (fs_pre _ _ _ _ _ _ F s Hin) as (v & Ev & Hv).
    destruct segs as [|h tl] eqn:Es; [exfalso; exact (fs_nonempty _ _ _ _ _ _ F eq_refl)|].
    destruct (fs_head _ _ _ _ _ _ F v h tl Ev eq_refl) as ([Hp|Hh] & _); [subst pre; destruct Hin|].
    assert (seg_end s <= seg_end h).
    { apply (rec_ok_end_le pre h (tl ++ post)); [|exact Hin].
      rewrite (fs_split _ _ _ _ _ _ F) in H. simpl in H. exact H. }
    apply (member_in_hull (h :: tl) h t Hsegs); [left; reflexivity|].
    specialize (Hw1 v Ev). unfold in_seg in *. lia.
  - apply in_app_or in Hin. destruct Hin as [Hin|Hin].
    + apply (member_in_hull segs s t Hsegs Hin Ht).
    + destruct (fs_post _ _ _ _ _ _ F s Hin) as (e & Ee & He). specialize (Hw2 e Ee). unfold in_seg in Ht. lia.
Qed.

Lemma core_spec all st en es : rec_ok all ->
  (forall v e, st = Some v -> en = Some e -> v <= e) ->
  on_list_core all st en = Some es ->
  exists segs pre post, found_spec all st en segs pre post /\ entries_sorted es /\
    forall t, in_entries es t <-> in_entries (map hull (runs segs)) t /\ in_window st en t.
Proof.
  intros H Hwin Hc. unfold on_list_core in Hc.
  destruct (find_segments s_start all st en) as [segs|] eqn:Ef; [|discriminate].
  destruct (find_segments_some all st en segs H Ef) as (pre & post & F).
  exists segs, pre, post. split; [exact F|].
  pose proof (found_rec_ok _ _ _ _ _ _ H F) as Hsegs.
  rewrite concatenate_runs in Hc.
  set (es0 := map hull (runs segs)) in *.
  assert (Hs0 : entries_sorted es0) by (apply hulls_sorted; exact Hsegs).
  destruct segs as [|h tl] eqn:Es; [exfalso; exact (fs_nonempty _ _ _ _ _ _ F eq_refl)|].
  (* first stage: the start of the window *)
  assert (S1 : exists es1,
    match st with None => Some es0 | Some v => clip_first v es0 end = Some es1 /\
    entries_sorted es1 /\
    (forall t, in_entries es1 t <-> in_entries es0 t /\ forall v, st = Some v -> v <= t) /\
    (forall x, In x es1 -> (exists v, st = Some v /\ e_start x = v) \/ In x es0)).
  { destruct st as [v|].
    - destruct (clip_first v es0) as [es1|] eqn:Ec; [|discriminate].
      exists es1. split; [reflexivity|].
      destruct (clip_first_some v es0 es1 Hs0) as (A & B & C); [|exact Ec|].
      + intros x Hx. destruct (hull_tl_starts h tl x Hx) as (s & Hs & ->).
        apply (proj2 (fs_head _ _ _ _ _ _ F v h tl eq_refl eq_refl)). exact Hs.
      + split; [exact A|]. split.
        * intros t. rewrite (B t). split; intros (P & Q); (split; [exact P|]).
          -- intros v' E. inversion E; subst. exact Q.
          -- apply Q. reflexivity.
        * intros x Hx. destruct (C x Hx) as [Hv|Hin]; [left; exists v; split; [reflexivity|exact Hv]|right; exact Hin].
    - exists es0. split; [reflexivity|]. split; [exact Hs0|]. split.
      + intros t. split; [intros P; split; [exact P|intros v; discriminate]|tauto].
      + intros x Hx. right. exact Hx. }
  destruct S1 as (es1 & E1 & Hs1 & Hiff1 & Hst1).
  rewrite E1 in Hc. inversion Hc; subst es. clear Hc.
  destruct en as [e|].
  - destruct (clip_last_spec e es1 Hs1) as (A & B).
    + intros x Hx. destruct (Hst1 x Hx) as [(v & Ev & ->)|Hin].
      * apply (Hwin v e Ev eq_refl).
      * destruct (hull_starts h tl x Hin) as [->|(s & Hs & ->)].
        -- apply (fs_segs _ _ _ _ _ _ F h e); [left; reflexivity|reflexivity].
        -- apply (fs_segs _ _ _ _ _ _ F s e); [right; exact Hs|reflexivity].
    + split; [exact A|]. intros t. rewrite (B t), (Hiff1 t). unfold in_window. split.
      * intros ((P & Q) & R). split; [exact P|]. split; [exact Q|]. intros e' E. inversion E; subst. exact R.
      * intros (P & Q & R). split; [split; [exact P|exact Q]|apply R; reflexivity].
  - split; [exact Hs1|]. intros t. rewrite (Hiff1 t). unfold in_window. split.
    + intros (P & Q). split; [exact P|]. split; [exact Q|intros e; discriminate].
    + intros (P & Q & _). split; assumption.
Qed.

Lemma on_list_cases all st en :
  (on_list all st en = LBadRequest /\ exists v e, st = Some v /\ en = Some e /\ e < v) \/
  ((forall v e, st = Some v -> en = Some e -> v <= e) /\
   on_list all st en = match on_list_core all st en with None => LNotFound | Some es => LEntries es end).
Proof.
  unfold on_list. destruct st as [v|], en as [e|]; try (right; split; [intros ? ? ? ?; discriminate|reflexivity]).
  destruct (e <? v) eqn:E.
  - left. split; [reflexivity|]. exists v, e. repeat split; lia.
  - right. split; [|reflexivity]. intros v' e' Ev Ee. inversion Ev; inversion Ee; subst. lia.
Qed.

Theorem list_sorted_disjoint all st en es : rec_ok all -> on_list all st en = LEntries es -> entries_sorted es.
Proof.
  intros H Hl. destruct (on_list_cases all st en) as [(E & _)|(Hwin & E)]; [congruence|].
  rewrite E in Hl. destruct (on_list_core all st en) as [es'|] eqn:Ec; [|discriminate].
  inversion Hl; subst es'. destruct (core_spec all st en es H Hwin Ec) as (? & ? & ? & _ & Hs & _). exact Hs.
Qed.

(* the answer lies between the two readings of "recorded media" *)
Theorem list_cover_bounds all st en es : rec_ok all -> on_list all st en = LEntries es -> forall t,
  (in_entries es t -> in_window st en t /\ recorded_hull all t) /\
  (recorded all t -> in_window st en t -> in_entries es t).
Proof.
  intros H Hl t. destruct (on_list_cases all st en) as [(E & _)|(Hwin & E)]; [congruence|].
  rewrite E in Hl. destruct (on_list_core all st en) as [es'|] eqn:Ec; [|discriminate].
  inversion Hl; subst es'. destruct (core_spec all st en es H Hwin Ec) as (segs & pre & post & F & _ & Hiff).
  split.
  - intros Hin. apply Hiff in Hin. destruct Hin as (Hin & Hw). split; [exact Hw|].
    apply in_hulls in Hin. destruct Hin as (g & Hg & Ht).
    destruct (run_infix segs g Hg) as (l1 & l2 & Eg).
    exists (pre ++ l1), g, (l2 ++ post). split; [|split; [|split]].
    + rewrite (fs_split _ _ _ _ _ _ F), Eg. rewrite <- !app_assoc. reflexivity.
    + pose proof (runs_nonempty segs) as Hne. rewrite Forall_forall in Hne. exact (Hne g Hg).
    + pose proof (runs_chain segs) as Hch. rewrite Forall_forall in Hch. exact (Hch g Hg).
    + exact Ht.
  - intros Hrec Hw. apply Hiff. split; [|exact Hw]. apply (found_lower all st en segs pre post t H F Hw Hrec).
Qed.

Theorem list_notfound all st en : rec_ok all -> on_list all st en = LNotFound ->
  forall t, in_window st en t -> ~ recorded all t.
Proof.
  intros H Hl t Hw Hrec. destruct (on_list_cases all st en) as [(E & _)|(Hwin & E)]; [congruence|].
  rewrite E in Hl. destruct (on_list_core all st en) as [es'|] eqn:Ec; [discriminate|]. clear Hl E.
  unfold on_list_core in Ec.
  destruct (find_segments s_start all st en) as [segs|] eqn:Ef.
  - destruct (find_segments_some all st en segs H Ef) as (pre & post & F).
    pose proof (found_lower all st en segs pre post t H F Hw Hrec) as Hin.
    rewrite concatenate_runs in Ec. destruct st as [v|].
    + destruct (clip_first v (map hull (runs segs))) eqn:Ecf; [discriminate|].
      pose proof (clip_first_none v _ Ecf t Hin). destruct Hw as (Hw & _). specialize (Hw v eq_refl). lia.
    + discriminate.
  - destruct Hrec as (s & Hin & Ht).
    destruct (find_segments_none all st en H Ef s Hin) as (e & Ee & He).
    destruct Hw as (_ & Hw). specialize (Hw e Ee). unfold in_seg in Ht. lia.
Qed.

(* without jitter the two readings coincide *)
Lemma contiguous_tail a l : contiguous (a :: l) -> contiguous l.
Proof. destruct l; simpl; tauto. Qed.
Lemma contiguous_app_r l1 l2 : contiguous (l1 ++ l2) -> contiguous l2.
Proof. induction l1 as [|a r IH]; [trivial|]. intros H. apply IH. exact (contiguous_tail _ _ H). Qed.
Lemma contiguous_app_l l1 l2 : contiguous (l1 ++ l2) -> contiguous l1.
Proof.
  induction l1 as [|a r IH]; [intros; exact I|].
  intros H. destruct r as [|b r']; [exact I|].
  simpl in H. destruct H as (H1 & H2). simpl. split; [exact H1|]. apply IH. exact H2.
Qed.

Lemma chain_covered g : g <> [] -> rec_ok g -> contiguous g -> chain g ->
  forall t, in_entry (hull g) t -> exists s, In s g /\ in_seg s t.
Proof.
  induction g as [|a g IH]; intros Hne Hr Hc Hch t Ht; [congruence|].
  destruct g as [|b g'].
  - exists a. split; [left; reflexivity|]. unfold in_entry, hull, e_end in Ht. cbn [e_start e_dur last] in Ht.
    unfold in_seg. lia.
  - destruct (Z_lt_le_dec t (seg_end a)) as [Hlt|Hge].
    + exists a. split; [left; reflexivity|]. unfold in_entry in Ht. rewrite hull_start in Ht. unfold in_seg. lia.
    + simpl in Hch, Hc. destruct Hch as (B & Hch). destruct Hc as (Hc1 & Hc2). specialize (Hc1 B).
      destruct (IH (ltac:(discriminate)) (rec_ok_tail _ _ Hr) Hc2 Hch t) as (s & Hs & Hst).
      * unfold in_entry in *. rewrite hull_start, hull_end in *. rewrite (last_cons g' b a) in Ht. lia.
      * exists s. split; [right; exact Hs|exact Hst].
Qed.

Theorem list_cover all st en es : rec_ok all -> contiguous all -> on_list all st en = LEntries es ->
  forall t, in_entries es t <-> recorded all t /\ in_window st en t.
Proof.
  intros H Hc Hl t. destruct (list_cover_bounds all st en es H Hl t) as (A & B). split.
  - intros Hin. destruct (A Hin) as (Hw & (l1 & g & l2 & E & Hne & Hch & Ht)). split; [|exact Hw].
    destruct (chain_covered g Hne) with (t := t) as (s & Hs & Hst); try assumption.
    + apply (rec_ok_infix l1 g l2). rewrite <- E. exact H.
    + apply (contiguous_app_l g l2). apply (contiguous_app_r l1). rewrite <- E. exact Hc.
    + exists s. split; [|exact Hst]. rewrite E. apply in_or_app. right. apply in_or_app. left. exact Hs.
  - intros (Hr & Hw). apply B; assumption.
Qed.

(* which segments are merged *)
Lemma tracks_eqb_eq a b : tracks_eqb a b = true <-> a = b.
Proof.
  revert b. induction a as [|[[i1 t1] c1] a IH]; intros [|[[i2 t2] c2] b]; simpl; split; try discriminate; try reflexivity.
  - rewrite !andb_true_iff, !Z.eqb_eq, IH. intros (((-> & ->) & ->) & ->). reflexivity.
  - intros E. inversion E; subst. rewrite !andb_true_iff, !Z.eqb_eq, IH. repeat split.
Qed.

Lemma bridged_iff a b : bridged a b = true <->
  match s_mtxi a, s_mtxi b with
  | Some m1, Some m2 => mx_sid m1 = mx_sid m2 /\ (mx_num m1 + 1) mod 2 ^ 64 = mx_num m2
  | None, None => s_tracks a = s_tracks b /\ seg_end a - second <= s_start b <= seg_end a + second
  | _, _ => False
  end.
Proof.
  unfold bridged, can_concat, tolerance.
  destruct (s_mtxi a) as [m1|], (s_mtxi b) as [m2|]; try (split; [discriminate|tauto]).
  - rewrite andb_true_iff, !Z.eqb_eq. change (2 ^ 64) with 18446744073709551616. tauto.
  - rewrite !andb_true_iff, !negb_true_iff, tracks_eqb_eq, Z.ltb_ge, Z.gtb_ltb, Z.ltb_ge. tauto.
Qed.

Theorem merge_only_consecutive l :
  concatenate l = map hull (runs l) /\ concat (runs l) = l /\
  Forall (fun g => g <> [] /\ chain g) (runs l) /\ runs_separated (runs l).
Proof.
  split; [apply concatenate_runs|]. split; [apply runs_concat|]. split; [|apply runs_maximal].
  pose proof (runs_nonempty l) as A. pose proof (runs_chain l) as B. rewrite Forall_forall in *.
  intros g Hg. split; [apply A|apply B]; exact Hg.
Qed.

Theorem list_reversed_rejected all v e : e < v -> on_list all (Some v) (Some e) = LBadRequest.
Proof. intros H. unfold on_list. destruct (e <? v) eqn:E; [reflexivity|lia]. Qed.
