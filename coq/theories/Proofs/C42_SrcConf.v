(* Proofs for Model/C42_SrcConf.v *)
From Coq Require Import List ZArith Bool Lia.
Require Import MTX.Model.C42_SrcConf.
Import ListNotations.
Local Open Scope Z_scope.

Definition cgood (s : cst) : Prop :=
  c_held s = c_cnt s /\ (c_eff s = if c_run s && c_alive s then Some (c_cnt s) else None) /\
  (c_alive s = true -> c_run s = true).

Lemma cstep_good s o : cgood s -> cgood (cstep s o) /\
  c_cnt (cstep s o) = c_cnt s + reloads [o].
Proof.
  destruct s as [cnt held run alive eff]. unfold cgood. cbn. intros [H [E A]]. subst held.
  destruct o; destruct run; destruct alive; cbn in *;
    repeat split; cbn; auto; try lia; try congruence; try discriminate;
    try (specialize (A eq_refl); discriminate).
Qed.

Lemma reloads_app a b : reloads (a ++ b) = reloads a + reloads b.
Proof. induction a as [|o r IH]; [reflexivity|]. destruct o; cbn [reloads app]; rewrite ?IH; lia. Qed.

Lemma crun_good : forall ops s, cgood s -> cgood (crun s ops) /\ c_cnt (crun s ops) = c_cnt s + reloads ops.
Proof.
  induction ops as [|o r IH]; intros s G.
  - cbn. split; [exact G | lia].
  - destruct (cstep_good s o G) as [G1 C1]. destruct (IH _ G1) as [G2 C2].
    change (crun s (o :: r)) with (crun (cstep s o) r). split; [exact G2|].
    rewrite C2, C1. change (o :: r) with ([o] ++ r). rewrite reloads_app. lia.
Qed.

Lemma cinit_good : cgood cinit.
Proof. repeat split; cbn; auto; try discriminate. Qed.

(* after every history: the handler holds the configuration of the latest reload, and so does the running instance *)
Theorem srcconf_latest : forall ops,
  let s := crun cinit ops in
  c_held s = reloads ops /\ (c_run s && c_alive s = true -> c_eff s = Some (reloads ops)).
Proof.
  intros ops s. destruct (crun_good ops cinit cinit_good) as [[H [E _]] C]. fold s in H, E, C.
  cbn in C. split; [lia|]. intro RA. rewrite E, RA. f_equal. lia.
Qed.

Lemma crun_app upd : forall a s b, crun_with upd s (a ++ b) = crun_with upd (crun_with upd s a) b.
Proof. induction a as [|o r IH]; intros s b; [reflexivity|]. cbn. apply IH. Qed.

(* every instance created by a start or by the retry is given the configuration of the latest reload,
   wherever the reloads arrived (running, stopped, during retryPause) *)
Theorem srcconf_created : forall ops o,
  (o = CStart \/ o = CRetry) ->
  let s := crun cinit ops in let s' := cstep s o in
  c_eff s = None -> c_eff s' <> None -> c_eff s' = Some (reloads ops).
Proof.
  intros ops o Ho s s' N NN.
  destruct (crun_good ops cinit cinit_good) as [[H _] C]. fold s in H, C. cbn in C.
  unfold s', cstep, cstep_with in *. destruct Ho as [-> | ->].
  - destruct (c_run s); cbn in *; [congruence|]. f_equal. lia.
  - destruct (c_run s && negb (c_alive s)); cbn in *; [|congruence]. f_equal. lia.
Qed.

Lemma upd_pinned_refuted :
  let ops := [CStart; CStop; CReload; CStart] in
  c_eff (crun_with upd_pinned cinit ops) = Some 0 /\ reloads ops = 1 /\ c_eff (crun cinit ops) = Some 1.
Proof. vm_compute. repeat split. Qed.

Lemma upd_not_recreating_refuted :
  let ops := [CStart; CFail; CReload; CRetry] in
  c_eff (crun_with upd_not_recreating cinit ops) = Some 0 /\ reloads ops = 1 /\ c_eff (crun cinit ops) = Some 1.
Proof. vm_compute. repeat split. Qed.
