(* H.265, Opus and G.711 / LPCM through the writeUnitInner glue: the generic theorems of C23_RtpGlueGen.v
   instantiated with the per-packetizer theorems (C23_RtpH265*.v, C23_RtpAudio.v). *)
From Coq Require Import List ZArith Bool Lia Arith.
Require Import MTX.Lib.IntWrap MTX.Model.C23_RtpH264 MTX.Model.C23_RtpH265 MTX.Model.C23_RtpAudio
               MTX.Model.C23_RtpGlue MTX.Model.C23_RtpGlueInst.
Require Import MTX.Proofs.C23_RtpH264 MTX.Proofs.C23_RtpH264Seq MTX.Proofs.C23_RtpH264Rt MTX.Proofs.C23_RtpH264Rt2
               MTX.Proofs.C23_RtpH265 MTX.Proofs.C23_RtpH265Rt MTX.Proofs.C23_RtpAudio
               MTX.Proofs.C23_RtpGlue MTX.Proofs.C23_RtpGlueGen.
Import ListNotations.
Local Open Scope Z_scope.

(* ------------------------------------------------------------------ H.265 *)

Lemma h265_post0 e p pkts e' : h265_encode e p = inl (Ok (pkts, e')) -> enc_post0 e pkts e'.
Proof. intros H. apply enc_post_post0. eapply h265_encode_post. exact H. Qed.

Theorem h265_glue_seq max avail g pts inp decerr deliv g' out :
  h265_glue_write max avail g pts inp decerr deliv = GOk g' out -> has_enc g' = true ->
  exists e0 off0 e1, effective max avail g pts inp e0 off0 /\ g' = mkg (Some e1) off0
    /\ seq_chain e0.(e_seq) out /\ Forall (fun p => p.(p_ssrc) = e0.(e_ssrc)) out
    /\ e1.(e_seq) = adv e0.(e_seq) (length out) /\ e1.(e_max) = e0.(e_max) /\ e1.(e_ssrc) = e0.(e_ssrc).
Proof. exact (glue_seq_gen (list bytes) h265_encode h265_post0 max avail g pts inp decerr deliv g' out). Qed.

Theorem h265_glue_size max avail g pts inp decerr deliv g' out :
  4 <= max -> enc_max_ok max g -> Forall (fun p => 0 <= p.(p_seq) < 65536) inp ->
  h265_glue_write max avail g pts inp decerr deliv = GOk g' out -> has_enc g' = true ->
  Forall (fun p => blen p.(p_payload) <= max) out /\ enc_max_ok max g'.
Proof.
  intros Hmax Hok Hin H Hg'.
  refine (glue_size_gen (list bytes) h265_encode h265_post0 4 (fun _ _ => True) _
            max avail g pts inp decerr deliv g' out Hmax _ Hok Hin H Hg' _).
  - intros e p pkts e' Hlo _ Henc. rewrite Forall_forall. intros q Hq. eapply h265_encode_size; eassumption.
  - lia.
  - intros; exact I.
Qed.

Theorem h265_glue_ts max avail g pts inp decerr au g' out :
  max <> 0 -> enc_max_ok max g ->
  h265_glue_write max avail g pts inp decerr (Some au) = GOk g' out -> has_enc g' = true ->
  Forall (fun p => p.(p_ts) = wrapu32 (g'.(g_off) + wrapu32 pts)) out
  /\ (has_enc g = true -> g'.(g_off) = g.(g_off))
  /\ (has_enc g = false -> exists pkt, first_oversized max inp = Some pkt
                                       /\ g'.(g_off) = wrapu32 (pkt.(p_ts) - wrapu32 pts)
                                       /\ (0 <= pkt.(p_ts) < two32 -> wrapu32 (g'.(g_off) + wrapu32 pts) = pkt.(p_ts))).
Proof.
  intros Hnz Hok H Hg'. split; [|exact (glue_offset _ _ _ _ _ _ _ _ _ _ _ H Hg')].
  destruct (glue_ts_gen (list bytes) h265_encode (fun _ _ offs => Forall (eq 0) offs)
              ltac:(intros e p pkts e' Henc; apply h265_encode_post in Henc; destruct Henc as (_ & _ & F & _);
                    rewrite Forall_map; rewrite Forall_forall in *; intros q Hq; symmetry; apply (F q Hq))
              max avail g pts inp decerr au g' out Hnz Hok H Hg') as (offs & Hz & Hm).
  clear H. revert out Hm. induction Hz as [|o offs Ho _ IH]; intros out Hm.
  - destruct out; [constructor|discriminate].
  - destruct out as [|q out]; [discriminate|]. cbn [map] in Hm. injection Hm as H1 H2. subst o.
    constructor; [rewrite H1, Z.add_0_l; apply wrapu32_idem|apply IH, H2].
Qed.

Theorem h265_glue_roundtrip max avail g pts inp decerr au g' out d :
  4 <= max < 65536 -> enc_max_ok max g ->
  h265_glue_write max avail g pts inp decerr (Some au) = GOk g' out -> has_enc g' = true ->
  au <> [] -> Forall nal5_ok au -> blen au <= max_nalus5 -> au_size au <= max_au_size5 -> clean5 d ->
  exists d', decode5_run d out = (repeat DMore (length out - 1) ++ [DOk au], d') /\ clean5 d' /\ (1 <= length out)%nat.
Proof.
  intros Hmax Hok H Hg' Hne Hnal Hl1 Hl2 Hc.
  pose proof (glue_roundtrip_gen (list bytes) h265_encode 4 dec5 decode5_run clean5 65536
                (fun _ au => au <> [] /\ Forall nal5_ok au /\ blen au <= max_nalus5 /\ au_size au <= max_au_size5)
                (fun au outs => outs = repeat DMore (length outs - 1) ++ [DOk au])) as G.
  destruct (G ltac:(
    intros e p pkts e' d0 delta Hm (A & B & C & D) Henc Hc0;
    destruct (h265_roundtrip e p pkts e' d0 delta Hm A B C D Henc Hc0) as (d' & Hrun & Hc' & Hlen);
    rewrite Hrun; cbn [fst snd]; split; [|split; assumption];
    rewrite app_length, repeat_length; cbn [length]; replace (length pkts - 1 + 1 - 1)%nat with (length pkts - 1)%nat by lia;
    reflexivity) max avail g pts inp decerr au g' out d Hmax ltac:(lia) Hok H Hg' ltac:(repeat split; assumption) Hc)
    as (G1 & G2 & G3).
  exists (snd (decode5_run d out)). split; [|split; assumption].
  destruct (decode5_run d out) as [os d'] eqn:E. cbn [fst snd] in *. rewrite G1 at 1.
  assert (Hlen : length os = length out).
  { clear -E. revert d os d' E. induction out as [|p r IH]; intros d os d' E.
    - cbn in E. injection E as <- <-. reflexivity.
    - cbn [decode5_run] in E. destruct (decode5 d p) as [d1 o]. destruct (decode5_run d1 r) as [os1 d2] eqn:E1.
      injection E as <- <-. cbn [length]. f_equal. eapply IH, E1. }
  rewrite Hlen. reflexivity.
Qed.

(* ------------------------------------------------------------------ Opus *)

Lemma opus_post0 e p pkts e' : opus_encode e p = inl (Ok (pkts, e')) -> enc_post0 e pkts e'.
Proof. intros H. apply opus_encode_post in H. apply H. Qed.

Theorem opus_glue_seq max avail g pts inp decerr deliv g' out :
  opus_glue_write max avail g pts inp decerr deliv = GOk g' out -> has_enc g' = true ->
  exists e0 off0 e1, effective max avail g pts inp e0 off0 /\ g' = mkg (Some e1) off0
    /\ seq_chain e0.(e_seq) out /\ Forall (fun p => p.(p_ssrc) = e0.(e_ssrc)) out
    /\ e1.(e_seq) = adv e0.(e_seq) (length out) /\ e1.(e_max) = e0.(e_max) /\ e1.(e_ssrc) = e0.(e_ssrc).
Proof. exact (glue_seq_gen (list bytes) opus_encode opus_post0 max avail g pts inp decerr deliv g' out). Qed.

(* the size bound needs every Opus packet of the unit to fit: RTP/Opus has no fragmentation *)
Theorem opus_glue_size max avail g pts inp decerr deliv g' out :
  max <> 0 -> enc_max_ok max g -> Forall (fun p => 0 <= p.(p_seq) < 65536) inp ->
  opus_glue_write max avail g pts inp decerr deliv = GOk g' out -> has_enc g' = true ->
  (forall frames, deliv = Some frames -> Forall (fun f => blen f <= max) frames) ->
  Forall (fun p => blen p.(p_payload) <= max) out /\ enc_max_ok max g'.
Proof.
  intros Hnz Hok Hin H Hg' Hfit.
  refine (glue_size_gen (list bytes) opus_encode opus_post0 max (fun m frames => Forall (fun f => blen f <= m) frames) _
            max avail g pts inp decerr deliv g' out (Z.le_refl _) Hnz Hok Hin H Hg' Hfit).
  intros e p pkts e' _ Hp Henc. apply (opus_encode_size e p pkts e' Henc). exact Hp.
Qed.

Theorem opus_glue_ts max avail g pts inp decerr frames g' out :
  max <> 0 -> enc_max_ok max g ->
  opus_glue_write max avail g pts inp decerr (Some frames) = GOk g' out -> has_enc g' = true ->
  map p_ts out = map (fun s => wrapu32 (s + (g'.(g_off) + wrapu32 pts))) (starts 0 (map opus_duration frames))
  /\ (has_enc g = true -> g'.(g_off) = g.(g_off))
  /\ (has_enc g = false -> exists pkt, first_oversized max inp = Some pkt
                                       /\ g'.(g_off) = wrapu32 (pkt.(p_ts) - wrapu32 pts)
                                       /\ (0 <= pkt.(p_ts) < two32 -> wrapu32 (g'.(g_off) + wrapu32 pts) = pkt.(p_ts))).
Proof.
  intros Hnz Hok H Hg'. split; [|exact (glue_offset _ _ _ _ _ _ _ _ _ _ _ H Hg')].
  destruct (glue_ts_gen (list bytes) opus_encode
              (fun _ fr offs => offs = map wrapu32 (starts 0 (map opus_duration fr)))
              ltac:(intros e p pkts e' Henc; apply (opus_encode_ts e p pkts e' Henc))
              max avail g pts inp decerr frames g' out Hnz Hok H Hg') as (offs & -> & Hm).
  rewrite Hm, map_map. apply map_ext. intros s. unfold wrapu32, two32.
  rewrite Zplus_mod_idemp_l, Zplus_mod_idemp_r. reflexivity.
Qed.

Theorem opus_glue_roundtrip max avail g pts inp decerr frames g' out :
  max <> 0 -> enc_max_ok max g ->
  opus_glue_write max avail g pts inp decerr (Some frames) = GOk g' out -> has_enc g' = true ->
  frames <> [] -> Forall (fun f => f <> []) frames ->
  simple_run out = map (fun f => DOk [f]) frames /\ (1 <= length out)%nat.
Proof.
  intros Hnz Hok H Hg' Hne Hall.
  pose proof (glue_roundtrip_gen (list bytes) opus_encode max unit (fun _ pkts => (simple_run pkts, tt)) (fun _ => True)
                (max + 1) (fun _ fr => fr <> [] /\ Forall (fun f => f <> []) fr)
                (fun fr outs => outs = map (fun f => DOk [f]) fr)) as G.
  destruct (G ltac:(
    intros e p pkts e' d0 delta _ (A & B) Henc _; cbn [fst snd];
    split; [exact (opus_roundtrip e p pkts e' delta B Henc)|split; [exact I|]];
    apply opus_encode_post in Henc; destruct Henc as [_ Hl]; rewrite Hl; destruct p; [congruence|cbn; lia])
    max avail g pts inp decerr frames g' out tt ltac:(lia) Hnz Hok H Hg' (conj Hne Hall) I) as (G1 & _ & G3).
  cbn [fst] in G1. split; assumption.
Qed.

(* ------------------------------------------------------------------ G.711 / LPCM *)

Lemma nth_map_lt {A B} (f : A -> B) l i dA dB : (i < length l)%nat -> nth i (map f l) dB = f (nth i l dA).
Proof.
  revert i. induction l as [|x l IH]; intros i Hi; [cbn in Hi; lia|].
  destruct i as [|i]; [reflexivity|]. cbn [map nth]. apply IH. cbn in Hi. lia.
Qed.

Section Lpcm.
  Variable ss : Z.
  Hypothesis Hss : 0 < ss.

  Lemma lpcm_post0 e p pkts e' : ss <= e.(e_max) -> lpcm_encode ss e p = inl (Ok (pkts, e')) -> enc_post0 e pkts e'.
  Proof. intros Hm H. eapply lpcm_encode_post; [|exact H]. lia. Qed.

  (* outside ss <= PayloadMaxSize the encoder panics, so "Ok" already implies the precondition *)
  Lemma lpcm_ok_fits e p pkts e' : 0 <= e.(e_max) -> lpcm_encode ss e p = inl (Ok (pkts, e')) -> ss <= e.(e_max).
  Proof.
    intros H0 H. destruct (Z_le_gt_dec ss (e_max e)) as [L|G]; [exact L|].
    rewrite (lpcm_sample_must_fit ss e p ltac:(lia) H0) in H. discriminate.
  Qed.
End Lpcm.

(* enc_post0 needs 0 <= PayloadMaxSize to exclude the panic; the glue theorems below carry ss <= max instead *)
Lemma lpcm_post0' ss e p pkts e' : 0 < ss -> lpcm_encode ss e p = inl (Ok (pkts, e')) -> enc_post0 e pkts e'.
Proof.
  intros Hss H. destruct (Z_le_gt_dec ss (e_max e)) as [L|G]; [eapply lpcm_post0; eassumption|].
  (* ss > max: either a panic, or max < 0 and quot gives a negative or zero maxPayloadSize: panic as well *)
  exfalso. unfold lpcm_encode in H.
  assert (Hmp : lpcm_max_payload (e_max e) ss <= 0).
  { unfold lpcm_max_payload. destruct (Z_le_gt_dec 0 (e_max e)) as [P|N].
    - rewrite Z.quot_small by lia. lia.
    - assert (Hq : Z.quot (e_max e) ss <= 0).
      { rewrite <- (Z.opp_involutive (e_max e)), Z.quot_opp_l by lia.
        pose proof (Z.quot_pos (- e_max e) ss ltac:(lia) ltac:(lia)). lia. }
      nia. }
  destruct (ss <=? 0); [discriminate|]. cbn [orb] in H.
  destruct (lpcm_max_payload (e_max e) ss <=? 0) eqn:E; [discriminate|]. apply Z.leb_gt in E. lia.
Qed.

Theorem lpcm_glue_seq ss max avail g pts inp decerr deliv g' out :
  0 < ss ->
  lpcm_glue_write ss max avail g pts inp decerr deliv = GOk g' out -> has_enc g' = true ->
  exists e0 off0 e1, effective max avail g pts inp e0 off0 /\ g' = mkg (Some e1) off0
    /\ seq_chain e0.(e_seq) out /\ Forall (fun p => p.(p_ssrc) = e0.(e_ssrc)) out
    /\ e1.(e_seq) = adv e0.(e_seq) (length out) /\ e1.(e_max) = e0.(e_max) /\ e1.(e_ssrc) = e0.(e_ssrc).
Proof.
  intros Hss. exact (glue_seq_gen bytes (lpcm_encode ss) (fun e p pkts e' => lpcm_post0' ss e p pkts e' Hss)
                       max avail g pts inp decerr deliv g' out).
Qed.

Theorem lpcm_glue_size ss max avail g pts inp decerr deliv g' out :
  0 < ss <= max -> enc_max_ok max g -> Forall (fun p => 0 <= p.(p_seq) < 65536) inp ->
  lpcm_glue_write ss max avail g pts inp decerr deliv = GOk g' out -> has_enc g' = true ->
  Forall (fun p => blen p.(p_payload) <= max) out /\ enc_max_ok max g'.
Proof.
  intros Hss Hok Hin H Hg'.
  refine (glue_size_gen bytes (lpcm_encode ss) (fun e p pkts e' => lpcm_post0' ss e p pkts e' (proj1 Hss)) ss (fun _ _ => True) _
            max avail g pts inp decerr deliv g' out (proj2 Hss) _ Hok Hin H Hg' _).
  - intros e p pkts e' Hlo _ Henc. eapply lpcm_encode_size; [|exact Henc]. lia.
  - lia.
  - intros; exact I.
Qed.

(* packet i of a re-encoded unit: offset + PTS + i * (max / sampleSize) samples (mod 2^32) *)
Theorem lpcm_glue_ts ss max avail g pts inp decerr samples g' out :
  0 < ss <= max -> enc_max_ok max g ->
  lpcm_glue_write ss max avail g pts inp decerr (Some samples) = GOk g' out -> has_enc g' = true ->
  (forall i d, (i < length out)%nat ->
     p_ts (nth i out d) = wrapu32 (Z.of_nat i * (max / ss) + (g'.(g_off) + wrapu32 pts)))
  /\ (has_enc g = true -> g'.(g_off) = g.(g_off))
  /\ (has_enc g = false -> exists pkt, first_oversized max inp = Some pkt
                                       /\ g'.(g_off) = wrapu32 (pkt.(p_ts) - wrapu32 pts)
                                       /\ (0 <= pkt.(p_ts) < two32 -> wrapu32 (g'.(g_off) + wrapu32 pts) = pkt.(p_ts))).
Proof.
  intros Hss Hok H Hg'. split; [|exact (glue_offset _ _ _ _ _ _ _ _ _ _ _ H Hg')].
  destruct (glue_ts_gen bytes (lpcm_encode ss)
              (fun m _ offs => 0 < ss <= m -> forall i, (i < length offs)%nat -> nth i offs 0 = wrapu32 (Z.of_nat i * (m / ss)))
              ltac:(intros e p pkts e' Henc Hm i Hi; rewrite map_length in Hi;
                    destruct (lpcm_encode_ts ss e p pkts e' Hm Henc) as [T _];
                    rewrite (nth_map_lt p_ts pkts i (mkpkt 0 0 false 0 []) 0 Hi); apply T, Hi)
              max avail g pts inp decerr samples g' out ltac:(lia) Hok H Hg') as (offs & Hlaw & Hm).
  specialize (Hlaw Hss). intros i d Hi.
  assert (Hl : length offs = length out).
  { rewrite <- (map_length p_ts out), Hm, map_length. reflexivity. }
  rewrite <- (nth_map_lt p_ts out i d 0 Hi), Hm.
  rewrite (nth_map_lt (fun o => wrapu32 (o + wrapu32 (g_off g' + wrapu32 pts))) offs i 0 0) by lia.
  rewrite Hlaw by lia. unfold wrapu32, two32. rewrite Zplus_mod_idemp_l, Zplus_mod_idemp_r. reflexivity.
Qed.

Theorem lpcm_glue_roundtrip ss max avail g pts inp decerr samples g' out :
  0 < ss <= max -> enc_max_ok max g ->
  lpcm_glue_write ss max avail g pts inp decerr (Some samples) = GOk g' out -> has_enc g' = true ->
  samples <> [] ->
  joined (simple_run out) = Some samples /\ (1 <= length out)%nat.
Proof.
  intros Hss Hok H Hg' Hne.
  pose proof (glue_roundtrip_gen bytes (lpcm_encode ss) ss unit (fun _ pkts => (simple_run pkts, tt)) (fun _ => True)
                (max + 1) (fun _ s => s <> []) (fun s outs => joined outs = Some s)) as G.
  destruct (G ltac:(
    intros e p pkts e' d0 delta Hm A Henc _; cbn [fst snd];
    destruct (lpcm_roundtrip ss e p pkts e' delta ltac:(lia) Henc) as [R1 R2];
    split; [exact R1|split; [exact I|exact (R2 A)]])
    max avail g pts inp decerr samples g' out tt ltac:(lia) ltac:(lia) Hok H Hg' Hne I) as (G1 & _ & G3).
  cbn [fst] in G1. split; assumption.
Qed.
