(* Proofs for the duration rewrite at write granularity (model: Model/C27_Rewrite.v). *)
From Coq Require Import List ZArith Bool Lia ZifyBool.
Require Import MTX.Lib.IntWrap MTX.Model.C24_MulDiv MTX.Model.C28_SegRead MTX.Proofs.C28_SegRead
  MTX.Model.C27_Fmp4Rec MTX.Proofs.C27_Fmp4Rec MTX.Model.C27_Rewrite.
Import ListNotations.
Local Open Scope Z_scope.

(* ---- overwrite ---- *)
Lemma overwrite_at (A old new B : bytes) : length old = length new ->
  overwrite (A ++ old ++ B) (len A) new = A ++ new ++ B.
Proof.
  intros Hl. unfold overwrite, len. rewrite Nat2Z.id.
  rewrite firstn_app_ge by lia. rewrite Nat.sub_diag, firstn_O, app_nil_r.
  f_equal. f_equal. rewrite <- Hl.
  replace (A ++ old ++ B) with ((A ++ old) ++ B) by (rewrite <- app_assoc; reflexivity).
  rewrite <- app_length. apply skipn_app_len.
Qed.

(* ---- appends ---- *)
Lemma fold_appends (bs : list bytes) : forall f,
  fold_left apply_wop (map WWrite bs) f = f ++ concat bs.
Proof.
  induction bs as [|b r IH]; intros f; cbn [map fold_left concat apply_wop].
  - rewrite app_nil_r. reflexivity.
  - rewrite IH, <- app_assoc. reflexivity.
Qed.

Lemma file_after_appends (x : bytes) (ps : list part) :
  file_after (WWrite x :: map (fun p => WWrite (part_bytes p)) ps) = x ++ parts_bytes ps.
Proof.
  unfold file_after. cbn [fold_left apply_wop app].
  rewrite <- (map_map part_bytes WWrite). rewrite fold_appends. reflexivity.
Qed.

Lemma file_after_app (l1 l2 : list wop) : file_after (l1 ++ l2) = fold_left apply_wop l2 (file_after l1).
Proof. unfold file_after. apply fold_left_app. Qed.

(* ---- k one-byte writes = one write of the first k bytes ---- *)
Lemma bytewise_prefix_at : forall (b old A B : bytes) (k : nat), length old = length b ->
  fold_left apply_wop (firstn k (bytewise (len A) b)) (A ++ old ++ B) = A ++ firstn k b ++ skipn k old ++ B.
Proof.
  induction b as [|x r IH]; intros old A B k Hl.
  - destruct old; [|discriminate]. rewrite firstn_nil, skipn_nil. destruct k; reflexivity.
  - destruct old as [|y o]; [discriminate|]. injection Hl as Hl.
    destruct k as [|k]; [reflexivity|].
    cbn [bytewise firstn fold_left apply_wop skipn].
    change (A ++ (y :: o) ++ B) with (A ++ [y] ++ (o ++ B)).
    rewrite overwrite_at by reflexivity.
    replace (A ++ [x] ++ o ++ B) with ((A ++ [x]) ++ o ++ B) by (rewrite <- app_assoc; reflexivity).
    replace (len A + 1) with (len (A ++ [x])) by (rewrite len_app; reflexivity).
    rewrite IH by exact Hl. rewrite <- app_assoc. reflexivity.
Qed.

Lemma bytewise_length : forall b off, length (bytewise off b) = length b.
Proof. induction b as [|x r IH]; intros off; cbn [bytewise length]; [reflexivity|]. rewrite IH. reflexivity. Qed.

Lemma bytewise_prefix (b old A B : bytes) (k : nat) : length old = length b ->
  fold_left apply_wop (firstn k (bytewise (len A) b)) (A ++ old ++ B) = overwrite (A ++ old ++ B) (len A) (firstn k b ++ skipn k old).
Proof.
  intros Hl. rewrite bytewise_prefix_at by exact Hl.
  rewrite overwrite_at; [rewrite <- app_assoc; reflexivity|].
  rewrite app_length, firstn_length, skipn_length. lia.
Qed.

(* ---- layout of the header ---- *)
Lemma len_mvhd_pl a f b : len (mvhd_pl a f b) = len a + 4 + len b.
Proof. unfold mvhd_pl. rewrite !len_app, len_enc32. lia. Qed.

Lemma len_moov_with hd a f b rest : len (moov_with hd a f b rest) = len hd + len a + 4 + len b + len rest.
Proof. unfold moov_with. rewrite !len_app, len_mvhd_pl. lia. Qed.

Lemma len_init ft mv : len (init_bytes ft mv) = 16 + len ft + len mv.
Proof. unfold init_bytes. rewrite len_app, !len_box by reflexivity. lia. Qed.

Lemma len_init_moov ft hd a f g b rest :
  len (init_bytes ft (moov_with hd a f b rest)) = len (init_bytes ft (moov_with hd a g b rest)).
Proof. rewrite !len_init, !len_moov_with. reflexivity. Qed.

(* the file split at the mvhd payload *)
Lemma init_split ft hd a b rest tail : len hd = 8 ->
  exists A, len A = rewrite_off ft /\
    forall g, init_bytes ft (moov_with hd a g b rest) ++ tail = A ++ mvhd_pl a g b ++ (rest ++ tail).
Proof.
  intros Hh. exists (box t_ftyp ft ++ enc32 (8 + len (moov_with hd a 0 b rest)) ++ t_moov ++ hd). split.
  - rewrite !len_app, len_box, len_enc32 by reflexivity. unfold rewrite_off. change (len t_moov) with 4. lia.
  - intros g. unfold init_bytes, box at 2.
    replace (len (moov_with hd a g b rest)) with (len (moov_with hd a 0 b rest)) by (rewrite !len_moov_with; reflexivity).
    unfold moov_with. rewrite <- !app_assoc. reflexivity.
Qed.

Lemma field_at_here (A : bytes) f tail : 0 <= f < 4294967296 -> field_at (A ++ enc32 f ++ tail) (len A) = f.
Proof.
  intros Hf. unfold field_at, len. rewrite Nat2Z.id, skipn_app_len. unfold enc32. cbn [app firstn].
  apply enc32_decode. exact Hf.
Qed.

Lemma field_of_init ft hd a f b rest tail : len hd = 8 -> 0 <= f < 4294967296 ->
  field_at (init_bytes ft (moov_with hd a f b rest) ++ tail) (rewrite_off ft + len a) = f.
Proof.
  intros Hh Hf. destruct (init_split ft hd a b rest tail Hh) as [A [HA HS]]. rewrite HS.
  unfold mvhd_pl. replace (A ++ (a ++ enc32 f ++ b) ++ rest ++ tail) with ((A ++ a) ++ enc32 f ++ (b ++ rest ++ tail))
    by (rewrite <- !app_assoc; reflexivity).
  replace (rewrite_off ft + len a) with (len (A ++ a)) by (rewrite len_app; lia).
  apply field_at_here. exact Hf.
Qed.

Lemma duration_field_range d : 0 <= duration_field d < 4294967296.
Proof. unfold duration_field, wrapu32, two32. apply Z.mod_pos_bound. lia. Qed.

(* the single rewrite turns the header with duration 0 into the header with the final duration *)
Lemma rewrite_once ft hd a b rest tail d : len hd = 8 ->
  overwrite (init_bytes ft (moov_with hd a 0 b rest) ++ tail) (rewrite_off ft) (mvhd_pl a (duration_field d) b)
  = init_bytes ft (moov_with hd a (duration_field d) b rest) ++ tail.
Proof.
  intros Hh. destruct (init_split ft hd a b rest tail Hh) as [A [HA HS]]. rewrite !HS, <- HA.
  apply overwrite_at. unfold mvhd_pl. rewrite !app_length. reflexivity.
Qed.

(* ---- the states of the repaired log ---- *)
Lemma firstn_all_len {A} (x : list A) : firstn (Z.to_nat (len x)) x = x.
Proof. unfold len. rewrite Nat2Z.id. apply firstn_all. Qed.

Lemma firstn_clamp {A} (t : Z) (x : list A) : firstn (Z.to_nat t) x = firstn (Z.to_nat (Z.min (Z.max t 0) (len x))) x.
Proof.
  unfold len. destruct (Z_lt_le_dec t (Z.of_nat (length x))) as [H|H].
  - f_equal. lia.
  - rewrite !firstn_all2 by lia. reflexivity.
Qed.

Lemma parts_bytes_app ps qs : parts_bytes (ps ++ qs) = parts_bytes ps ++ parts_bytes qs.
Proof. unfold parts_bytes. rewrite map_app, concat_app. reflexivity. Qed.

Lemma nth_split (ps : list part) (i : nat) p : nth_error ps i = Some p ->
  ps = firstn i ps ++ p :: skipn (S i) ps.
Proof.
  revert i. induction ps as [|q r IH]; intros [|i] H; cbn in H; try discriminate.
  - injection H as ->. reflexivity.
  - cbn [firstn skipn app]. f_equal. apply IH. exact H.
Qed.

Definition final_file (ft hd a b rest : bytes) (ps : list part) (d : Z) : bytes :=
  init_bytes ft (moov_with hd a (duration_field d) b rest) ++ parts_bytes ps.

(* every crash point of the repaired log after the header write: a crash image of the property's model with the
   header of writeInit (duration 0), or the closed file *)
Lemma crash_state_repaired ft hd a b rest ps d k t z : len hd = 8 -> (1 <= k)%nat ->
  (exists j z', crash_state (close_log ft hd a b rest ps d) k t z = crash_image ft (moov_with hd a 0 b rest) ps j z')
  \/ ((length ps + 2 <= k)%nat /\ crash_state (close_log ft hd a b rest ps d) k t z = final_file ft hd a b rest ps d).
Proof.
  intros Hh Hk. set (mv := moov_with hd a 0 b rest). set (n := length ps).
  unfold close_log, write_log. fold mv.
  set (ws := map (fun p => WWrite (part_bytes p)) ps).
  set (rw := WRewrite (rewrite_off ft) (mvhd_pl a (duration_field d) b)).
  assert (length ws = n) as Hws by (unfold ws; apply map_length).
  destruct k as [|k]; [lia|]. unfold crash_state. cbn [firstn nth_error].
  destruct (le_lt_dec n k) as [Hge|Hlt].
  - (* all parts written *)
    destruct (Nat.eq_dec k n) as [->|Hne].
    + left. exists (len (parts_bytes ps)), O.
      rewrite nth_error_app2 by lia. rewrite Hws, Nat.sub_diag. cbn [nth_error].
      rewrite firstn_app_ge by lia. rewrite Hws, Nat.sub_diag, firstn_O, app_nil_r.
      unfold ws. rewrite file_after_appends. unfold crash_image. rewrite firstn_all_len. cbn [repeat].
      rewrite app_nil_r. reflexivity.
    + right. split; [lia|].
      assert (nth_error (ws ++ [rw]) k = None) as -> by (apply nth_error_None; rewrite app_length, Hws; cbn; lia).
      rewrite firstn_all2 by (rewrite app_length, Hws; cbn; lia).
      change (WWrite (init_bytes ft mv) :: ws ++ [rw]) with ((WWrite (init_bytes ft mv) :: ws) ++ [rw]).
      rewrite file_after_app. unfold ws. rewrite file_after_appends. unfold rw. cbn [fold_left apply_wop].
      unfold mv. rewrite rewrite_once by exact Hh. reflexivity.
  - (* part k in progress *)
    left. rewrite nth_error_app1 by lia. rewrite firstn_app, Hws.
    replace (k - n)%nat with O by lia. rewrite firstn_O, app_nil_r.
    destruct (nth_error ps k) as [p|] eqn:Hp; [|apply nth_error_None in Hp; fold n in Hp; lia].
    unfold ws. rewrite (map_nth_error _ _ _ Hp). rewrite firstn_map, file_after_appends.
    exists (len (parts_bytes (firstn k ps)) + Z.min (Z.max t 0) (len (part_bytes p))), z.
    unfold crash_image. rewrite <- !app_assoc. f_equal. rewrite !app_assoc. f_equal.
    rewrite (nth_split ps k p Hp) at 3. rewrite parts_bytes_app, parts_bytes_cons.
    assert (0 <= Z.min (Z.max t 0) (len (part_bytes p)) <= len (part_bytes p)) as Hm by (unfold len; lia).
    rewrite Z2Nat.inj_add by (unfold len; lia). unfold len at 1. rewrite Nat2Z.id.
    rewrite firstn_app_ge by lia. replace (length (parts_bytes (firstn k ps)) + _ - _)%nat
      with (Z.to_nat (Z.min (Z.max t 0) (len (part_bytes p)))) by lia.
    f_equal. rewrite firstn_app. rewrite (firstn_clamp t).
    replace (Z.to_nat (Z.min (Z.max t 0) (len (part_bytes p))) - length (part_bytes p))%nat with O by (unfold len in *; lia).
    rewrite firstn_O, app_nil_r. reflexivity.
Qed.

(* ---- /list at every crash point of the repaired log ---- *)
Lemma duration_read_0 : duration_read 0 = 0.
Proof. reflexivity. Qed.

Lemma list_crash_image ft hd a b rest ps j z :
  len hd = 8 -> Forall wf_part ps -> wf_bytes (crash_image ft (moov_with hd a 0 b rest) ps j z) = true ->
  list_source (crash_image ft (moov_with hd a 0 b rest) ps j z) (rewrite_off ft + len a)
              (len (init_bytes ft (moov_with hd a 0 b rest)))
  = FromParts (Ok (expect_last ps (len (init_bytes ft (moov_with hd a 0 b rest))) j (-1))).
Proof.
  intros Hh Hwf Hb. unfold list_source.
  unfold crash_image at 1. rewrite field_of_init by (try exact Hh; lia).
  rewrite duration_read_0. cbn [Z.eqb]. rewrite recover_reader by assumption. reflexivity.
Qed.

Lemma final_is_image ft hd a b rest ps d :
  final_file ft hd a b rest ps d = crash_image ft (moov_with hd a (duration_field d) b rest) ps (len (parts_bytes ps)) 0.
Proof. unfold final_file, crash_image. rewrite firstn_all_len. cbn [repeat]. rewrite app_nil_r. reflexivity. Qed.

Lemma list_final ft hd a b rest ps d :
  len hd = 8 -> Forall wf_part ps -> wf_bytes (final_file ft hd a b rest ps d) = true ->
  0 <= d < 4294967296 * 1000000 ->
  list_source (final_file ft hd a b rest ps d) (rewrite_off ft + len a) (len (init_bytes ft (moov_with hd a 0 b rest)))
  = if d <? 1000000
    then FromParts (Ok (expect_last ps (len (init_bytes ft (moov_with hd a 0 b rest))) (len (parts_bytes ps)) (-1)))
    else FromHeader (d / 1000000 * 1000000).
Proof.
  intros Hh Hwf Hb Hd. unfold list_source. cbv zeta.
  assert (field_at (final_file ft hd a b rest ps d) (rewrite_off ft + len a) = duration_field d) as F
    by (unfold final_file; apply field_of_init; [exact Hh|apply duration_field_range]).
  rewrite F. destruct (closed_duration_all d Hd) as [E _]. rewrite E.
  pose proof (Z.div_mod d 1000000 ltac:(lia)). pose proof (Z.mod_pos_bound d 1000000 ltac:(lia)).
  destruct (d <? 1000000) eqn:Hlt.
  - assert (d / 1000000 = 0) as -> by (apply Z.div_small; lia). cbn [Z.mul Z.eqb].
    rewrite (len_init_moov ft hd a 0 (duration_field d) b rest).
    rewrite final_is_image in *. rewrite recover_reader by assumption. reflexivity.
  - assert (1 <= d / 1000000) by (apply Z.div_le_lower_bound; lia).
    destruct (d / 1000000 * 1000000 =? 0) eqn:E0; [lia|reflexivity].
Qed.

(* the full statement: at every crash point at write granularity after the header write, /list either scans the parts
   of a crash image of the property's model (and finds expect_last: C27_recover / C27_loss_bound), or the file is
   closed and the header carries the true duration truncated to a millisecond *)
Lemma list_any_write_crash ft hd a b rest ps d k t z :
  len hd = 8 -> Forall wf_part ps -> 0 <= d < 4294967296 * 1000000 -> (1 <= k)%nat ->
  let s := crash_state (close_log ft hd a b rest ps d) k t z in
  let il := len (init_bytes ft (moov_with hd a 0 b rest)) in
  wf_bytes s = true ->
  (exists j z', s = crash_image ft (moov_with hd a 0 b rest) ps j z' /\
                list_source s (rewrite_off ft + len a) il = FromParts (Ok (expect_last ps il j (-1))))
  \/ ((length ps + 2 <= k)%nat /\ s = final_file ft hd a b rest ps d /\
      list_source s (rewrite_off ft + len a) il =
        if d <? 1000000 then FromParts (Ok (expect_last ps il (len (parts_bytes ps)) (-1)))
        else FromHeader (d / 1000000 * 1000000)).
Proof.
  intros Hh Hwf Hd Hk s il Hb.
  destruct (crash_state_repaired ft hd a b rest ps d k t z Hh Hk) as [[j [z' E]]|[Hn E]]; fold s in E.
  - left. exists j, z'. split; [exact E|]. rewrite E in *. apply list_crash_image; assumption.
  - right. split; [exact Hn|]. split; [exact E|]. rewrite E in *. apply list_final; assumption.
Qed.

(* ---- the pinned log: the state after the appends and k one-byte writes ---- *)
Lemma pinned_state ft hd a b rest ps d (k : nat) : len hd = 8 ->
  file_after (firstn (S (length ps) + k) (close_log_pinned ft hd a b rest ps d))
  = overwrite (init_bytes ft (moov_with hd a 0 b rest) ++ parts_bytes ps) (rewrite_off ft)
              (firstn k (mvhd_pl a (duration_field d) b) ++ skipn k (mvhd_pl a 0 b)).
Proof.
  intros Hh. unfold close_log_pinned.
  set (x := init_bytes ft (moov_with hd a 0 b rest)).
  set (ws := map (fun p => WWrite (part_bytes p)) ps).
  change (WWrite x :: ws ++ bytewise (rewrite_off ft) (mvhd_pl a (duration_field d) b))
    with ((WWrite x :: ws) ++ bytewise (rewrite_off ft) (mvhd_pl a (duration_field d) b)).
  assert (length (WWrite x :: ws) = S (length ps)) as Hl by (cbn [length]; unfold ws; rewrite map_length; reflexivity).
  rewrite firstn_app, Hl. rewrite firstn_all2 by lia.
  replace (S (length ps) + k - S (length ps))%nat with k by lia.
  rewrite file_after_app. unfold ws. rewrite file_after_appends. unfold x.
  destruct (init_split ft hd a b rest (parts_bytes ps) Hh) as [A [HA HS]]. rewrite (HS 0), <- HA.
  apply bytewise_prefix. unfold mvhd_pl. rewrite !app_length. reflexivity.
Qed.

(* ---- refutation for the pinned log: a closed 1000 ms segment, the process stops after the third byte of
   DurationV0 (00 00 03 E8) has been written: the header says 768 ms, /list trusts it ---- *)
Definition ex_ft : bytes := [1; 2; 3; 4].
Definition ex_hd : bytes := [0; 0; 0; 108; 109; 118; 104; 100].
Definition ex_a : bytes := [0; 0; 0; 0; 0; 0; 0; 0; 0; 0; 0; 0; 0; 0; 3; 232].
Definition ex_b : bytes := repeat 0 80.
Definition ex_rest : bytes := [0; 0; 0; 8; 116; 114; 97; 107].
Definition ex_ps : list part := [ex_part 8 12; ex_part 8 16].
Definition ex_d : Z := 1000000000.
Definition ex_k : nat := 22.            (* header, 2 parts, 16 + 3 one-byte writes *)

Lemma torn_refuted :
  let s := crash_state (close_log_pinned ex_ft ex_hd ex_a ex_b ex_rest ex_ps ex_d) ex_k 0 0 in
  let il := len (init_bytes ex_ft (moov_with ex_hd ex_a 0 ex_b ex_rest)) in
  len ex_hd = 8 /\ Forall wf_part ex_ps /\ 0 <= ex_d < 4294967296 * 1000000 /\ (1 <= ex_k)%nat /\ wf_bytes s = true /\
  (* every part is on disk, complete *)
  skipn (Z.to_nat il) s = parts_bytes ex_ps /\
  (* the header holds neither 0 nor the final value *)
  field_at s (rewrite_off ex_ft + len ex_a) = torn_field 0 (duration_field ex_d) 3 /\
  torn_field 0 (duration_field ex_d) 3 = 768 /\ duration_field ex_d = 1000 /\
  (* /list does not scan the parts: it reports 768 ms of the 1000 ms on disk *)
  list_source s (rewrite_off ex_ft + len ex_a) il = FromHeader 768000000 /\
  ex_d / 1000000 * 1000000 = 1000000000.
Proof.
  cbv zeta. repeat match goal with |- _ /\ _ => split end.
  - reflexivity.
  - repeat constructor; unfold wf_part; vm_compute; reflexivity.
  - vm_compute. discriminate.
  - vm_compute. reflexivity.
  - unfold ex_k. lia.
  - vm_compute. reflexivity.
  - vm_compute. reflexivity.
  - vm_compute. reflexivity.
  - vm_compute. reflexivity.
  - vm_compute. reflexivity.
  - vm_compute. reflexivity.
  - vm_compute. reflexivity.
Qed.

(* the torn window in general: with i of the 4 bytes written the field is the first i bytes of the new value followed
   by the last 4 - i bytes of the old one *)
Lemma pinned_torn_field ft hd a b rest ps d (i : nat) : len hd = 8 -> (i <= 4)%nat ->
  field_at (file_after (firstn (S (length ps) + (length a + i)) (close_log_pinned ft hd a b rest ps d)))
           (rewrite_off ft + len a)
  = torn_field 0 (duration_field d) i.
Proof.
  intros Hh Hi. rewrite pinned_state by exact Hh.
  destruct (init_split ft hd a b rest (parts_bytes ps) Hh) as [A [HA HS]]. rewrite (HS 0), <- HA.
  rewrite overwrite_at.
  2:{ rewrite app_length, firstn_length, skipn_length. unfold mvhd_pl. rewrite !app_length. cbn [length enc32]. lia. }
  unfold mvhd_pl.
  rewrite firstn_app_ge by lia. replace (length a + i - length a)%nat with i by lia.
  rewrite skipn_app. rewrite skipn_all2 by lia. replace (length a + i - length a)%nat with i by lia. cbn [app].
  rewrite (firstn_app i (enc32 _)), (skipn_app i (enc32 _)).
  change (length (enc32 (duration_field d))) with 4%nat. change (length (enc32 0)) with 4%nat.
  replace (i - 4)%nat with O by lia. rewrite firstn_O, app_nil_r. cbn [skipn].
  unfold torn_field.
  set (nw := firstn i (enc32 (duration_field d))). set (ol := skipn i (enc32 0)).
  assert (length (nw ++ ol) = 4%nat) as L4.
  { unfold nw, ol. rewrite app_length, firstn_length, skipn_length. cbn [length enc32]. lia. }
  replace (A ++ ((a ++ nw) ++ ol ++ b) ++ rest ++ parts_bytes ps)
    with ((A ++ a) ++ (nw ++ ol) ++ (b ++ rest ++ parts_bytes ps)) by (rewrite <- !app_assoc; reflexivity).
  replace (len A + len a) with (len (A ++ a)) by (rewrite len_app; reflexivity).
  unfold field_at, len. rewrite Nat2Z.id, skipn_app_len. cbn [Z.to_nat skipn].
  rewrite firstn_app_ge by lia. rewrite L4, Nat.sub_diag, firstn_O, app_nil_r.
  rewrite (firstn_all2 (nw ++ ol)) by lia. reflexivity.
Qed.

(* the refutation in the shape of list_any_write_crash: same hypotheses, the pinned log, and a listed duration that is
   neither a scan of the parts nor the closed duration *)
Lemma torn_refuted_ex :
  exists ft hd a b rest ps d k,
    let s := crash_state (close_log_pinned ft hd a b rest ps d) k 0 0 in
    let il := len (init_bytes ft (moov_with hd a 0 b rest)) in
    len hd = 8 /\ Forall wf_part ps /\ 0 <= d < 4294967296 * 1000000 /\ (1 <= k)%nat /\ wf_bytes s = true /\
    skipn (Z.to_nat il) s = parts_bytes ps /\
    exists v, list_source s (rewrite_off ft + len a) il = FromHeader v /\ 0 < v < d / 1000000 * 1000000.
Proof.
  exists ex_ft, ex_hd, ex_a, ex_b, ex_rest, ex_ps, ex_d, ex_k.
  destruct torn_refuted as (H1 & H2 & H3 & H4 & H5 & H6 & _ & _ & _ & H7 & H8).
  cbv zeta. do 6 (split; [assumption|]).
  exists 768000000. split; [exact H7|]. rewrite H8. lia.
Qed.

Lemma example_rewrite :
  list_source (crash_state (close_log ex_ft ex_hd ex_a ex_b ex_rest ex_ps ex_d) 3 0 0) (rewrite_off ex_ft + len ex_a) 136
  = FromParts (Ok 172) /\
  list_source (crash_state (close_log ex_ft ex_hd ex_a ex_b ex_rest ex_ps ex_d) 4 0 0) (rewrite_off ex_ft + len ex_a) 136
  = FromHeader 1000000000.
Proof. split; vm_compute; reflexivity. Qed.
