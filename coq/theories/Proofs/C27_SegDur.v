(* C27 — the duration a segment records at close (b5-c27): for ALL configurations and ALL sample sequences, with any
   number of tracks interleaved in any order, the duration given to writeDuration / onSegmentComplete is
   (the end of the sample that ends last) - (segment start): the maximum over every sample written to the file, not
   the end of the sample written last - for every file, also the one closed after a failed write (repaired code, fix
   b7e594b: a sample refused by formatFMP4Part.write does not raise endDTS; the pinned code counted it:
   example_after_error_pinned). *)
From Coq Require Import List ZArith Bool Lia.
Require Import MTX.Lib.IntWrap MTX.Model.C24_MulDiv MTX.Model.C27_Segmenter MTX.Proofs.C27_Segmenter.
Import ListNotations.
Local Open Scope Z_scope.

(* ------------------------------------------------------------------------------------------------------------ *)
(* maxima *)

Lemma fold_max_ge_init : forall l s, s <= fold_left Z.max l s.
Proof. induction l as [|a r IH]; intros s; cbn; [lia|]. specialize (IH (Z.max s a)). lia. Qed.
Lemma fold_max_mono : forall l s s', s <= s' -> fold_left Z.max l s <= fold_left Z.max l s'.
Proof. induction l as [|a r IH]; intros s s' H; cbn; [exact H|]. apply IH. lia. Qed.
Lemma fold_max_ge_in : forall l s x, In x l -> x <= fold_left Z.max l s.
Proof.
  induction l as [|a r IH]; intros s x H; [destruct H|]. destruct H as [<-|H]; cbn.
  - pose proof (fold_max_ge_init r (Z.max s a)). lia.
  - apply IH; exact H.
Qed.
Lemma fold_max_in : forall l s, fold_left Z.max l s = s \/ In (fold_left Z.max l s) l.
Proof.
  induction l as [|a r IH]; intros s; cbn; [auto|].
  destruct (IH (Z.max s a)) as [H|H]; [|auto]. rewrite H.
  destruct (Z.max_spec s a) as [[_ ->]|[_ ->]]; auto.
Qed.

Lemma media_end_app s a b : media_end s (a ++ b) = media_end (media_end s a) b.
Proof. unfold media_end. now rewrite map_app, fold_left_app. Qed.
Lemma media_end_snoc s l w : media_end s (l ++ [w]) = Z.max (media_end s l) (w_end w).
Proof. rewrite media_end_app. reflexivity. Qed.
Lemma media_end_nil s : media_end s [] = s.
Proof. reflexivity. Qed.
Lemma media_end_ge s l : s <= media_end s l.
Proof. apply fold_max_ge_init. Qed.

(* ------------------------------------------------------------------------------------------------------------ *)
(* the duration check on a log: every SClose carries (running maximum - start) of the open file *)

Fixpoint dlog (cur : option (Z * Z)) (l : list sop) : Prop :=
  match l with
  | [] => True
  | o :: r =>
      match o with
      | SClose _ d => match cur with Some (s, e) => d = e - s | None => False end
      | _ => True
      end /\ dlog (dstep cur o) r
  end.

Lemma dstate_app cur l1 l2 : dstate cur (l1 ++ l2) = dstate (dstate cur l1) l2.
Proof. unfold dstate. apply fold_left_app. Qed.
Lemma dlog_app : forall l1 cur l2,
  dlog cur (l1 ++ l2) <-> dlog cur l1 /\ dlog (dstate cur l1) l2.
Proof.
  induction l1 as [|o r IH]; intros cur l2; cbn [app dlog dstate fold_left]; [tauto|].
  fold (dstate (dstep cur o) r). rewrite IH. tauto.
Qed.
Lemma dlog_scan : forall l cur, dlog cur l -> dur_scan cur l = true.
Proof.
  induction l as [|o r IH]; intros cur; cbn [dlog dur_scan]; [auto|]. intros [H1 H2].
  rewrite (IH _ H2), andb_true_r. destruct o; auto. destruct cur as [[s e]|]; [|destruct H1].
  apply Z.eqb_eq. exact H1.
Qed.

(* the open segment against the state of the scan *)
Definition seg_rel (sg : option sst) (cs : option (Z * Z)) : Prop :=
  match sg with
  | None => True
  | Some g =>
      if g.(g_created) then exists e, cs = Some (g.(g_start), e) /\ g.(g_end) = media_end e (cur_smps sg)
      else g.(g_end) = media_end g.(g_start) (cur_smps sg)
  end.
Definition InvD (v : sview) : Prop :=
  match v with (sg, _, lg, _) => dlog None lg /\ seg_rel sg (dstate None lg) end.

Lemma seg_rel_ensure sg ns g0 ns0 cs : ensure sg ns g0 ns0 -> seg_rel sg cs -> seg_rel (Some g0) cs.
Proof. intros [g n|n d m] H; [exact H|]. cbn. reflexivity. Qed.

(* the state of the scan after closeCurPart: the file is open with the segment's samples so far *)
Lemma dstate_close_part g lg p : g_cur g = Some p -> seg_rel (Some g) (dstate None lg) ->
  dstate None (lg ++ close_part_ops g) = Some (g_start g, g_end g).
Proof.
  intros Hc Hr. rewrite dstate_app. unfold close_part_ops, create_ops. rewrite Hc.
  unfold seg_rel, cur_smps in Hr. rewrite Hc in Hr. destruct (g_created g).
  - destruct Hr as (e & -> & He). cbn. now rewrite He.
  - cbn. now rewrite Hr.
Qed.
Lemma dlog_no_close cur l : (forall k d, ~ In (SClose k d) l) -> dlog cur l.
Proof.
  revert cur. induction l as [|o r IH]; intros cur H; cbn [dlog]; [auto|]. split.
  - destruct o; auto. exfalso. apply (H num dur). now left.
  - apply IH. intros k d Hin. apply (H k d). now right.
Qed.
Lemma close_part_no_close g k d : ~ In (SClose k d) (close_part_ops g).
Proof.
  unfold close_part_ops, create_ops. destruct (g_cur g); [|intros []].
  destruct (g_created g); cbn; intros H; repeat (destruct H as [H|H]; try discriminate); auto.
Qed.

(* formatFMP4Segment.write keeps the relation whether the sample is accepted or refused (repaired code: a refused
   sample does not raise endDTS) *)
Lemma dur_seg_write c rate g w lg g1 lg1 ok : dlog None lg -> seg_rel (Some g) (dstate None lg) ->
  seg_write c rate g w lg = (g1, lg1, ok) ->
  dlog None lg1 /\ seg_rel (Some g1) (dstate None lg1).
Proof.
  intros Hl Hr Hw. destruct (seg_write_spec c rate g w lg) as (g' & Hs & _ & Hst & _ & Hcr & Hend & Hcur).
  rewrite Hs in Hw. injection Hw as <- <- <-. split.
  - apply dlog_app. split; [exact Hl|]. apply dlog_no_close. unfold sw_ops.
    destruct (sw_full c g); [apply close_part_no_close|intros k d []].
  - unfold seg_rel at 1. unfold cur_smps. rewrite Hcr, Hend, Hcur, Hst. unfold sw_created, sw_ops, sw_part, sw_full in *.
    destruct (g_cur g) as [p|] eqn:Hc.
    + destruct (p_end p - p_start p >=? c_part_dur c) eqn:Hf.
      * rewrite orb_true_r. rewrite (dstate_close_part g lg p Hc Hr). exists (g_end g). split; [reflexivity|].
        destruct (part_write c (g_start g) rate (new_part (g_nextpart g) (w_dts w)) w) as [p'|] eqn:Hp.
        -- apply part_write_smps in Hp. destruct Hp as (-> & _). cbn. reflexivity.
        -- cbn. reflexivity.
      * rewrite orb_false_r, app_nil_r. unfold seg_rel, cur_smps in Hr. rewrite Hc in Hr.
        destruct (part_write c (g_start g) rate p w) as [p'|] eqn:Hp.
        -- apply part_write_smps in Hp. destruct Hp as (-> & _). destruct (g_created g).
           ++ destruct Hr as (e & He1 & He2). exists e. split; [exact He1|]. rewrite media_end_snoc. lia.
           ++ rewrite media_end_snoc. lia.
        -- destruct (g_created g).
           ++ destruct Hr as (e & He1 & He2). exists e. split; [exact He1|exact He2].
           ++ exact Hr.
    + rewrite orb_false_r, app_nil_r. unfold seg_rel, cur_smps in Hr. rewrite Hc in Hr.
      destruct (part_write c (g_start g) rate (new_part (g_nextpart g) (w_dts w)) w) as [p'|] eqn:Hp.
      * apply part_write_smps in Hp. destruct Hp as (-> & _). cbn [new_part p_smps app]. destruct (g_created g).
        -- destruct Hr as (e & He1 & He2). exists e. split; [exact He1|]. cbn in *. lia.
        -- cbn in *. lia.
      * cbn [new_part p_smps]. destruct (g_created g).
        -- destruct Hr as (e & He1 & He2). exists e. split; [exact He1|exact He2].
        -- exact Hr.
Qed.

(* formatFMP4Segment.close: the SClose entry carries the true duration of the open segment *)
Lemma dur_seg_close g lg : dlog None lg -> seg_rel (Some g) (dstate None lg) ->
  dlog None (lg ++ seg_close_ops g).
Proof.
  intros Hl Hr. apply dlog_app. split; [exact Hl|].
  unfold seg_close_ops. apply dlog_app. split; [apply dlog_no_close, close_part_no_close|].
  rewrite <- dstate_app. unfold close_part_seg, close_part_ops, create_ops. unfold seg_rel, cur_smps in Hr.
  destruct (g_cur g) as [p|] eqn:Hc.
  - cbn [set_created g_created dlog]. split; [|exact I]. rewrite dstate_app.
    destruct (g_created g).
    + destruct Hr as (e & -> & He). cbn. unfold media_end in *. lia.
    + cbn. unfold media_end in *. lia.
  - rewrite app_nil_r. destruct (g_created g); [|exact I]. cbn [dlog]. split; [|exact I].
    destruct Hr as (e & -> & He). unfold media_end in *. cbn in *. lia.
Qed.

(* the invariant holds before and after a failed write alike *)
Lemma InvD_run c evs x : InvD (view x) -> InvD (view (run_from c x evs)).
Proof.
  apply (run_from_inv c InvD InvD).
  - auto.
  - intros sg ns lg ac g0 ns0 [H1 H2] He. split; [exact H1|eapply seg_rel_ensure; eauto].
  - intros sg ns lg ac g0 ns0 rate w g1 lg1 [H1 H2] He Hw.
    exact (dur_seg_write _ _ _ _ _ _ _ _ H1 (seg_rel_ensure _ _ _ _ _ He H2) Hw).
  - intros sg ns lg ac g0 ns0 rate w g1 lg1 [H1 H2] He Hw.
    destruct (dur_seg_write _ _ _ _ _ _ _ _ H1 (seg_rel_ensure _ _ _ _ _ He H2) Hw) as [H3 H4].
    split; [split; assumption|]. intros d n. split; [|cbn; reflexivity].
    rewrite seg_close_spec. apply dur_seg_close; assumption.
Qed.

Lemma InvD_init c : InvD (view (init_st c)).
Proof. cbn. auto. Qed.

(* the logs, before and after formatFMP4.close: every recorded duration is the true one *)
Lemma dur_log_before_close c evs : dlog None (x_log (run_from c (init_st c) evs)).
Proof.
  pose proof (InvD_run c evs (init_st c) (InvD_init c)) as H. unfold view, InvD in H. tauto.
Qed.
Lemma dur_log_raw c evs : dlog None (x_log (run_raw c evs)).
Proof.
  unfold run_raw. set (x := run_from c (init_st c) evs).
  pose proof (InvD_run c evs (init_st c) (InvD_init c)) as H. fold x in H.
  pose proof (finish_view x) as Hv. unfold view in Hv at 1. unfold view, InvD in H. destruct H as [H1 H2].
  destruct (x_seg x) as [g|].
  - injection Hv as _ _ Hl _. rewrite Hl. apply dur_seg_close; assumption.
  - injection Hv as _ _ Hl _. rewrite Hl. exact H1.
Qed.

(* ------------------------------------------------------------------------------------------------------------ *)
(* from the log to the files *)

Lemma file_samples_add f p : file_samples (add_part f p) = file_samples f ++ o_smps p.
Proof. unfold file_samples, add_part. cbn [f_parts]. rewrite flat_map_app. cbn. now rewrite app_nil_r. Qed.

Lemma files_from_dur : forall l done cur o n s' cs, log_run (o, n) l = Some s' -> cur_ok cur o ->
  dlog cs l ->
  (forall f, cur = Some f -> cs = Some (f_sdts f, media_end (f_sdts f) (file_samples f))) ->
  (forall f d, In f done -> f_closed f = Some d -> d = true_duration f) ->
  forall f d, In f (files_from done cur l) -> f_closed f = Some d -> d = true_duration f.
Proof.
  induction l as [|op r IH]; intros done cur o n s' cs Hr Hc Hs Hcur Hd f d Hin Hcl.
  - cbn in Hin. apply in_rev in Hin. destruct cur as [g|]; [|eauto]. destruct Hin as [<-|Hin]; [|eauto].
    destruct o; [|destruct Hc]. destruct Hc as [_ Hn]. congruence.
  - cbn [log_run] in Hr. cbn [dlog] in Hs. destruct Hs as [Hs1 Hs2].
    destruct op as [k a b|k p|k dd]; destruct o as [j|]; cbn [op_step] in Hr; try discriminate.
    + destruct cur as [g|]; [destruct Hc|]. destruct (k =? n) eqn:E; [|discriminate].
      cbn [files_from] in Hin.
      assert (Hc' : cur_ok (Some {| f_num := k; f_sdts := a; f_sntp := b; f_parts := []; f_closed := None |}) (Some k))
        by (split; reflexivity).
      refine (IH _ _ _ _ _ _ Hr Hc' Hs2 _ Hd f d Hin Hcl). intros f0 [= <-]. reflexivity.
    + destruct cur as [g|]; [|destruct Hc]. destruct Hc as [Hn Hcg]. destruct (k =? j) eqn:E; [|discriminate].
      cbn [files_from option_map] in Hin.
      assert (Hc' : cur_ok (Some (add_part g p)) (Some j)) by (split; [exact Hn|exact Hcg]).
      refine (IH _ _ _ _ _ _ Hr Hc' Hs2 _ Hd f d Hin Hcl). intros f0 [= <-].
      rewrite (Hcur g eq_refl). cbn [dstep option_map fst snd]. rewrite file_samples_add, media_end_app. reflexivity.
    + destruct cur as [g|]; [|destruct Hc]. destruct Hc as [Hn Hcg]. destruct (k =? j) eqn:E; [|discriminate].
      cbn [files_from] in Hin.
      refine (IH _ None _ _ _ _ Hr I Hs2 _ _ f d Hin Hcl); [intros f0 [=]|].
      intros f' d' [<-|Hf'] Hcl'; [|eauto]. rewrite (Hcur g eq_refl) in Hs1.
      cbn in Hcl'. injection Hcl' as <-. exact Hs1.
Qed.

Lemma files_dur l s' : log_run (None, 0) l = Some s' -> dlog None l ->
  forall f d, In f (files_of l) -> f_closed f = Some d -> d = true_duration f.
Proof.
  intros Hr Hs f d Hin Hcl. unfold files_of in Hin.
  refine (files_from_dur _ _ None _ _ _ _ Hr I Hs _ _ f d Hin Hcl); [intros f0 [=]|intros f0 d0 []].
Qed.

(* ---- statements for Props ---- *)

(* the log at any time before formatFMP4.close (segments closed by a switch) *)
Lemma closed_by_switch_exact c evs :
  let x := run_from c (init_st c) (gate c evs) in
  dur_scan None (x_log x) = true /\
  forall f d, In f (files_of (x_log x)) -> f_closed f = Some d -> d = true_duration f.
Proof.
  intros x. pose proof (dur_log_before_close c (gate c evs)) as Hd. fold x in Hd.
  split; [apply dlog_scan; exact Hd|].
  assert (HA : InvA (view x)) by (apply InvA_run; cbn; auto). destruct HA as [HA _].
  intros f d Hin Hcl. exact (files_dur _ _ HA Hd f d Hin Hcl).
Qed.

(* every file of every run - whether or not a write failed - is closed and records exactly its true duration *)
Lemma closed_exact c evs f : In f (files_of (x_log (run c evs))) -> f_closed f = Some (true_duration f).
Proof.
  intros Hin. destruct (log_ok_raw c (gate c evs)) as [H1 H2]. fold (run c evs) in H1, H2.
  destruct (files_of_ok _ H1) as (_ & _ & H3). specialize (H3 H2 f Hin).
  destruct (f_closed f) as [d|] eqn:Hcl; [|now destruct H3]. f_equal.
  apply log_ok_run in H1. destruct H1 as [s' Hr].
  exact (files_dur _ _ Hr (dur_log_raw c (gate c evs)) f d Hin Hcl).
Qed.
Lemma closed_scan c evs : dur_scan None (x_log (run c evs)) = true.
Proof. apply dlog_scan. exact (dur_log_raw c (gate c evs)). Qed.

(* ------------------------------------------------------------------------------------------------------------ *)
(* track by track: when the sample ends of every track do not decrease, the media end is the maximum over the tracks
   of the end of their LAST sample *)

Lemma nondecr_last : forall l d x, nondecr l = true -> In x l -> x <= last l d.
Proof.
  induction l as [|a r IH]; intros d x Hn Hin; [destruct Hin|].
  destruct r as [|b r'].
  - destruct Hin as [->|[]]. cbn. lia.
  - cbn [nondecr] in Hn. apply andb_true_iff in Hn. destruct Hn as [H1 H2]. apply Z.leb_le in H1.
    change (last (a :: b :: r') d) with (last (b :: r') d). destruct Hin as [<-|Hin].
    + pose proof (IH d b H2 (or_introl eq_refl)) as H3. lia.
    + apply IH; assumption.
Qed.
Lemma last_in_or_default {A} : forall (l : list A) d, last l d = d \/ In (last l d) l.
Proof.
  induction l as [|a r IH]; intros d; [now left|]. destruct r as [|b r']; [right; now left|].
  change (last (a :: b :: r') d) with (last (b :: r') d). destruct (IH d) as [H|H]; [now left|right; now right].
Qed.

Lemma media_end_per_track n start l :
  (forall w, In w l -> (w_trk w < n)%nat) ->
  (forall t, (t < n)%nat -> nondecr (track_ends t l) = true) ->
  media_end start l = tracks_end n start l.
Proof.
  intros Ht Hs. unfold media_end, tracks_end. apply Z.le_antisymm.
  - destruct (fold_max_in (map w_end l) start) as [->|Hin]; [apply fold_max_ge_init|].
    apply in_map_iff in Hin. destruct Hin as (w & Hw & Hin). rewrite <- Hw.
    assert (Hte : In (w_end w) (track_ends (w_trk w) l)).
    { unfold track_ends. apply in_map. apply filter_In. split; [exact Hin|apply Nat.eqb_refl]. }
    pose proof (nondecr_last _ start _ (Hs _ (Ht w Hin)) Hte) as Hle.
    eapply Z.le_trans; [exact Hle|]. apply fold_max_ge_in.
    apply in_map_iff. exists (w_trk w). split; [reflexivity|]. apply in_seq. split; [lia|]. cbn. apply Ht. exact Hin.
  - set (f := fun t => last (track_ends t l) start).
    destruct (fold_max_in (map f (seq 0 n)) start) as [->|Hin]; [apply fold_max_ge_init|].
    apply in_map_iff in Hin. destruct Hin as (t & Hf & _). rewrite <- Hf. unfold f.
    destruct (last_in_or_default (track_ends t l) start) as [->|Hin]; [apply fold_max_ge_init|].
    apply fold_max_ge_in. unfold track_ends in Hin |- *. apply in_map_iff in Hin. destruct Hin as (w & Hw & Hin).
    apply filter_In in Hin. destruct Hin as [Hin _]. rewrite <- Hw. apply in_map. exact Hin.
Qed.

(* ------------------------------------------------------------------------------------------------------------ *)
(* example (the shape of seeded change C27-b): 25 fps video and an audio track that runs 400 ms ahead; the sample
   written last is a video sample that ends 420 ms before the audio already written: one file, true duration
   1.22 s = what is recorded; the end of the last written sample would give 0.8 s *)
Definition exd_cfg : cfg :=
  {| c_tracks := [ {| tc_rate := 90000; tc_video := true |}; {| tc_rate := 48000; tc_video := false |} ];
     c_part_dur := 100000000; c_seg_dur := 3600000000000; c_max_part := 1000000 |}.
Definition exd_v (i : nat) : event :=
  (0%nat, {| s_dts := 3600 * Z.of_nat i; s_ntp := 40000000 * Z.of_nat i; s_nonsync := negb (Nat.eqb i 0); s_size := 50 |}).
Definition exd_a (i : nat) : event :=
  (1%nat, {| s_dts := 960 * Z.of_nat i; s_ntp := 20000000 * Z.of_nat i; s_nonsync := false; s_size := 10 |}).
(* per video frame i: the audio frames up to 400 ms ahead of it (frames 2i+20, 2i+21), then the frame *)
Definition exd_evs : list event :=
  map exd_a (seq 0 20) ++ flat_map (fun i => [exd_a (2 * i + 20); exd_a (2 * i + 21); exd_v i]) (seq 0 21).

Lemma example_true_duration :
  let x := run exd_cfg exd_evs in
  (forall o, In o (x_outs x) -> o <> o_err) /\
  map (fun f => (f_closed f, true_duration f, last_written_end (f_sdts f) (file_samples f) - f_sdts f,
                 tracks_end 2 (f_sdts f) (file_samples f) - f_sdts f,
                 nondecr (track_ends 0 (file_samples f)) && nondecr (track_ends 1 (file_samples f))))
      (files_of (x_log x))
  = [(Some 1220000000, 1220000000, 800000000, 1220000000, true)].
Proof.
  split.
  - intros o Hin. assert (H : forallb (fun o => negb (o =? o_err)) (x_outs (run exd_cfg exd_evs)) = true) by (vm_compute; reflexivity).
    rewrite forallb_forall in H. specialize (H o Hin). apply negb_true_iff, Z.eqb_neq in H. exact H.
  - vm_compute. reflexivity.
Qed.

(* the PINNED code (before fix b7e594b): after a failed write (maximum part size) the refused sample had been
   counted, and the file closed by formatFMP4.close recorded more than it holds: max part size 100, samples of 50 and
   80 bytes at 25 fps - the first sample (40 ms) is in the file, the second is refused, 80 ms are recorded *)
Definition exe_cfg : cfg :=
  {| c_tracks := [ {| tc_rate := 90000; tc_video := true |} ];
     c_part_dur := 100000000; c_seg_dur := 3600000000000; c_max_part := 100 |}.
Definition exe_evs : list event :=
  [ (0%nat, {| s_dts := 0; s_ntp := 0; s_nonsync := false; s_size := 50 |});
    (0%nat, {| s_dts := 3600; s_ntp := 40000000; s_nonsync := true; s_size := 80 |});
    (0%nat, {| s_dts := 7200; s_ntp := 80000000; s_nonsync := true; s_size := 10 |}) ].
Lemma example_after_error_pinned :
  exists c evs f d, In f (files_of (x_log (run_pinned c evs))) /\ In o_err (x_outs (run_pinned c evs)) /\
                    f_closed f = Some d /\ true_duration f < d.
Proof.
  exists exe_cfg, exe_evs.
  eexists. exists 80000000. split; [|split; [|split]].
  - vm_compute. left. reflexivity.
  - vm_compute. auto.
  - reflexivity.
  - vm_compute. reflexivity.
Qed.
(* the same input on the repaired code: the same error, the file records the 40 ms it holds *)
Lemma example_after_error_fixed :
  In o_err (x_outs (run exe_cfg exe_evs)) /\
  map (fun f => (f_closed f, true_duration f)) (files_of (x_log (run exe_cfg exe_evs))) = [(Some 40000000, 40000000)].
Proof. split; [vm_compute; auto|vm_compute; reflexivity]. Qed.
