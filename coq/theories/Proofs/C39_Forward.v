From Coq Require Import List ZArith Bool Lia ZifyBool.
Require Import MTX.Model.C39_Forward.
Import ListNotations.
Local Open Scope Z_scope.

Definition ids (l : list handler) : list Z := map hid l.

Lemma in_remove_id id x l : In x (remove_id id l) <-> In x l /\ x <> id.
Proof. unfold remove_id. rewrite filter_In. destruct (Z.eqb_spec x id); simpl; intuition congruence. Qed.

Lemma in_fold_remove cl : forall l x,
  In x (fold_left (fun l h => remove_id (hid h) l) cl l) <-> In x l /\ ~ In x (ids cl).
Proof.
  induction cl as [|h r IH]; intros l x; simpl.
  - intuition.
  - rewrite IH, in_remove_id. intuition.
Qed.

Lemma nodup_remove_id id l : NoDup l -> NoDup (remove_id id l).
Proof. apply NoDup_filter. Qed.

Lemma nodup_fold_remove cl : forall l, NoDup l -> NoDup (fold_left (fun l h => remove_id (hid h) l) cl l).
Proof. induction cl as [|h r IH]; intros l H; simpl; [exact H|]. apply IH, nodup_remove_id, H. Qed.

Lemma nodup_app_local (l1 l2 : list Z) :
  NoDup l1 -> NoDup l2 -> (forall x, In x l1 -> In x l2 -> False) -> NoDup (l1 ++ l2).
Proof.
  induction l1 as [|a r IH]; intros H1 H2 Hd; simpl; [exact H2|].
  inversion H1; subst. constructor.
  - intros Hin. apply in_app_or in Hin. destruct Hin as [Hin|Hin]; [contradiction|].
    eapply Hd; [left; reflexivity|exact Hin].
  - apply IH; try assumption. intros x Hx1 Hx2. eapply Hd; [right; exact Hx1|exact Hx2].
Qed.

(* ---------------- the loop of ReloadConf ---------------- *)

Record loop_spec (fwd : list Z) (old : list handler) (next : Z)
                 (nh cl : list handler) (st : list Z) (nx : Z) : Prop := {
  ls_conf : map hconf nh = fwd;
  ls_closed_old : incl cl old;
  ls_started_fresh : forall x, In x st -> next <= x < nx;
  ls_next : next <= nx;
  ls_started_nodup : NoDup st;
  ls_ids : forall x, In x (ids nh) <-> (In x (ids old) /\ ~ In x (ids cl)) \/ In x st;
  ls_nodup : NoDup (ids nh);
  ls_closed_nodup : NoDup (ids cl);
  (* position-wise: an unchanged destination keeps its handler; a changed or removed one is closed *)
  ls_keep : forall i h, nth_error old i = Some h -> nth_error fwd i = Some (hconf h) ->
            nth_error nh i = Some h /\ ~ In (hid h) (ids cl);
  ls_replace : forall i h, nth_error old i = Some h -> nth_error fwd i <> Some (hconf h) ->
            In h cl /\ (forall h', nth_error nh i = Some h' -> In (hid h') st);
  ls_new : forall i h', nth_error old i = None -> nth_error nh i = Some h' -> In (hid h') st;
}.

Lemma reload_loop_spec : forall fwd old next nh cl st nx,
  NoDup (ids old) -> (forall x, In x (ids old) -> x < next) ->
  reload_loop fwd old next = (nh, cl, st, nx) -> loop_spec fwd old next nh cl st nx.
Proof.
  induction fwd as [|d fr IH]; intros old next nh cl st nx Hnd Hlt Hl; simpl in Hl.
  - inversion Hl; subst. constructor; simpl.
    + reflexivity.
    + apply incl_refl.
    + intros x [].
    + lia.
    + constructor.
    + intros x. split; [intros []|intros [[H1 H2]|[]]; contradiction].
    + constructor.
    + exact Hnd.
    + intros i h _ H. destruct i; discriminate.
    + intros i h H _. split; [eapply nth_error_In; exact H|intros h' H'; destruct i; discriminate].
    + intros i h' _ H. destruct i; discriminate.
  - destruct old as [|h orest].
    + destruct (reload_loop fr [] (next + 1)) as [[[nh' cl'] st'] nx'] eqn:E. inversion Hl; subst; clear Hl.
      destruct (IH [] (next + 1) nh' cl st' nx ltac:(constructor) ltac:(intros x []) E)
        as [I1 I2 I3 I4 I5 I6 I7 I8 I9 I10 I11].
      constructor; simpl.
      * f_equal. exact I1.
      * exact I2.
      * intros x [<-|Hx]; [lia|]. specialize (I3 x Hx). lia.
      * lia.
      * constructor; [|exact I5]. intros Hin. specialize (I3 _ Hin). lia.
      * intros x. rewrite I6. simpl. intuition.
      * constructor; [|exact I7]. intros Hin. apply I6 in Hin. simpl in Hin.
        destruct Hin as [[[] _]|Hin]. specialize (I3 _ Hin). lia.
      * exact I8.
      * intros i h0 H. destruct i; discriminate.
      * intros i h0 H. destruct i; discriminate.
      * intros i h' _ H. destruct i as [|i]; simpl in H.
        -- inversion H; subst. left. reflexivity.
        -- right. eapply I11; [|exact H]. destruct i; reflexivity.
    + simpl in Hnd. inversion Hnd as [|? ? Hnotin Hnd']; subst.
      assert (forall x, In x (ids orest) -> x < next) as Hlt' by (intros x Hx; apply Hlt; right; exact Hx).
      assert (hid h < next) as Hh by (apply Hlt; left; reflexivity).
      destruct (Z.eqb_spec (hconf h) d) as [Heq|Hne].
      * (* unchanged at this position: kept *)
        destruct (reload_loop fr orest next) as [[[nh' cl'] st'] nx'] eqn:E. inversion Hl; subst; clear Hl.
        destruct (IH orest next nh' cl st nx Hnd' Hlt' E) as [I1 I2 I3 I4 I5 I6 I7 I8 I9 I10 I11].
        assert (~ In (hid h) (ids cl)) as Hncl.
        { intros Hin. apply Hnotin. unfold ids in *. apply in_map_iff in Hin. destruct Hin as [c [Hc1 Hc2]].
          apply in_map_iff. exists c. split; [exact Hc1|apply I2; exact Hc2]. }
        constructor; simpl.
        -- f_equal. exact I1.
        -- intros c Hc. right. apply I2. exact Hc.
        -- exact I3.
        -- exact I4.
        -- exact I5.
        -- intros x. rewrite I6. split.
           ++ intros [<-|[[H1 H2]|H3]]; [left; split; [left; reflexivity|exact Hncl]|left; split; [right; exact H1|exact H2]|right; exact H3].
           ++ intros [[[<-|H1] H2]|H3]; [left; reflexivity|right; left; split; assumption|right; right; exact H3].
        -- constructor; [|exact I7]. intros Hin. apply I6 in Hin. destruct Hin as [[Hin _]|Hin]; [contradiction|].
           specialize (I3 _ Hin). lia.
        -- exact I8.
        -- intros i h0 H Hf. destruct i as [|i]; simpl in *.
           ++ inversion H; subst. split; [reflexivity|exact Hncl].
           ++ apply I9; assumption.
        -- intros i h0 H Hf. destruct i as [|i]; simpl in *.
           ++ inversion H; subst. congruence.
           ++ destruct (I10 i h0 H Hf) as [J1 J2]. split; [exact J1|exact J2].
        -- intros i h' H H'. destruct i as [|i]; simpl in *; [discriminate|]. eapply I11; eassumption.
      * (* changed at this position: old handler closed, a fresh one created (and started) *)
        destruct (reload_loop fr orest (next + 1)) as [[[nh' cl'] st'] nx'] eqn:E. inversion Hl; subst; clear Hl.
        assert (forall x, In x (ids orest) -> x < next + 1) as Hlt'' by (intros x Hx; specialize (Hlt' x Hx); lia).
        destruct (IH orest (next + 1) nh' cl' st' nx Hnd' Hlt'' E) as [I1 I2 I3 I4 I5 I6 I7 I8 I9 I10 I11].
        assert (~ In (hid h) (ids cl')) as Hncl.
        { intros Hin. apply Hnotin. unfold ids in *. apply in_map_iff in Hin. destruct Hin as [c [Hc1 Hc2]].
          apply in_map_iff. exists c. split; [exact Hc1|apply I2; exact Hc2]. }
        constructor; simpl.
        -- f_equal. exact I1.
        -- intros c [<-|Hc]; [left; reflexivity|right; apply I2; exact Hc].
        -- intros x [<-|Hx]; [lia|]. specialize (I3 x Hx). lia.
        -- lia.
        -- constructor; [|exact I5]. intros Hin. specialize (I3 _ Hin). lia.
        -- intros x. rewrite I6. split.
           ++ intros [<-|[[H1 H2]|H3]].
              ** right. left. reflexivity.
              ** left. split; [right; exact H1|]. intros [Hc|Hc]; [|contradiction].
                 subst x. contradiction.
              ** right. right. exact H3.
           ++ intros [[[<-|H1] H2]|[<-|H3]].
              ** exfalso. apply H2. left. reflexivity.
              ** right. left. split; [exact H1|]. intros Hc. apply H2. right. exact Hc.
              ** left. reflexivity.
              ** right. right. exact H3.
        -- constructor; [|exact I7]. intros Hin. apply I6 in Hin. destruct Hin as [[Hin _]|Hin].
           ++ specialize (Hlt' _ Hin). lia.
           ++ specialize (I3 _ Hin). lia.
        -- constructor; [exact Hncl|exact I8].
        -- intros i h0 H Hf. destruct i as [|i]; simpl in *.
           ++ inversion H; subst. inversion Hf. congruence.
           ++ destruct (I9 i h0 H Hf) as [J1 J2]. split; [exact J1|].
              intros [Hc|Hc]; [|contradiction]. apply Hnotin. rewrite Hc. unfold ids. apply in_map. eapply nth_error_In. exact H.
        -- intros i h0 H Hf. destruct i as [|i]; simpl in *.
           ++ inversion H; subst. split; [left; reflexivity|]. intros h' H'. inversion H'; subst. left. reflexivity.
           ++ destruct (I10 i h0 H Hf) as [J1 J2]. split; [right; exact J1|]. intros h' H'. right. apply J2. exact H'.
        -- intros i h' H H'. destruct i as [|i]; simpl in *; [discriminate|]. right. eapply I11; eassumption.
Qed.

(* ---------------- invariant over histories ---------------- *)

Record Inv (s : state) : Prop := {
  inv_nodup : NoDup (ids (handlers s));
  inv_ids_lt : forall x, In x (ids (handlers s)) -> x < next_id s;
  inv_live_lt : forall x, In x (live s) -> x < next_id s;
  inv_live_nodup : NoDup (live s);
  (* exactly the configured handlers run while started, nothing runs otherwise *)
  inv_live : forall x, In x (live s) <-> (started s = true /\ In x (ids (handlers s)));
}.

Lemma mk_handlers_spec fwd : forall next,
  map hconf (mk_handlers next fwd) = fwd /\ NoDup (ids (mk_handlers next fwd)) /\
  (forall x, In x (ids (mk_handlers next fwd)) -> next <= x < next + Z.of_nat (length fwd)).
Proof.
  induction fwd as [|d r IH]; intros next; simpl.
  - split; [reflexivity|split; [constructor|intros x []]].
  - destruct (IH (next + 1)) as (I1 & I2 & I3). split; [f_equal; exact I1|]. split.
    + constructor; [|exact I2]. intros Hin. specialize (I3 _ Hin). lia.
    + intros x [<-|Hx]; [lia|]. specialize (I3 _ Hx). lia.
Qed.

Lemma inv_init fwd : Inv (init fwd) /\ map hconf (handlers (init fwd)) = fwd.
Proof.
  destruct (mk_handlers_spec fwd 0) as (I1 & I2 & I3). split; [|exact I1].
  constructor; simpl; try assumption; try constructor.
  - intros x Hx. specialize (I3 x Hx). lia.
  - intros x [].
  - intros [].
  - intros [H _]; discriminate.
Qed.

Lemma step_inv s o s' ev : Inv s -> alternating (started s) [o] = true -> step s o = (s', ev) ->
  Inv s' /\ map hconf (handlers s') = (match o with Reload f => f | _ => map hconf (handlers s) end).
Proof.
  intros [N1 N2 N3 N4 N5] Halt Hs. destruct o as [fwd| |]; simpl in Hs.
  - destruct (reload_loop fwd (handlers s) (next_id s)) as [[[nh cl] st] nx] eqn:E.
    destruct (reload_loop_spec _ _ _ _ _ _ _ N1 N2 E) as [L1 L2 L3 L4 L5 L6 L7 L8 L9 L10 L11].
    destruct (started s) eqn:Est; inversion Hs; subst s' ev; clear Hs; (split; [|exact L1]); constructor; simpl.
    + exact L7.
    + intros x Hx. apply L6 in Hx. destruct Hx as [[Hx _]|Hx]; [specialize (N2 _ Hx); lia|specialize (L3 _ Hx); lia].
    + intros x Hx. apply in_fold_remove in Hx. destruct Hx as [Hx _]. apply in_app_or in Hx.
      destruct Hx as [Hx|Hx]; [specialize (N3 _ Hx); lia|specialize (L3 _ Hx); lia].
    + apply nodup_fold_remove. apply nodup_app_local; try assumption.
      intros x H1 H2. specialize (N3 _ H1). specialize (L3 _ H2). lia.
    + intros x. rewrite in_fold_remove, in_app_iff, L6, N5. intuition.
      exfalso. match goal with H : In x st |- _ => specialize (L3 _ H) end.
      match goal with H : In x (ids cl) |- _ => unfold ids in H; apply in_map_iff in H; destruct H as [c [Hc1 Hc2]] end.
      apply L2 in Hc2. assert (In x (ids (handlers s))) as Hin by (subst x; unfold ids; apply in_map; exact Hc2).
      specialize (N2 _ Hin). lia.
    + exact L7.
    + intros x Hx. apply L6 in Hx. destruct Hx as [[Hx _]|Hx]; [specialize (N2 _ Hx); lia|specialize (L3 _ Hx); lia].
    + intros x Hx. specialize (N3 _ Hx). lia.
    + exact N4.
    + intros x. rewrite N5. intuition discriminate.
  - inversion Hs; subst s' ev; clear Hs. simpl in Halt. destruct (started s) eqn:Est; [discriminate|].
    assert (live s = []) as Hl.
    { destruct (live s) as [|x l] eqn:El; [reflexivity|]. exfalso.
      assert (In x (live s)) as Hin by (rewrite El; left; reflexivity). rewrite El in *. apply N5 in Hin. destruct Hin; discriminate. }
    split; [|reflexivity]. constructor; simpl; try assumption.
    + intros x Hx. rewrite Hl in Hx. simpl in Hx. apply N2. exact Hx.
    + rewrite Hl. simpl. exact N1.
    + intros x. rewrite Hl. simpl. intuition.
  - inversion Hs; subst s' ev; clear Hs. split; [|reflexivity]. constructor; simpl; try assumption.
    + intros x Hx. apply in_fold_remove in Hx. apply N3. apply Hx.
    + apply nodup_fold_remove. exact N4.
    + intros x. rewrite in_fold_remove, N5. intuition discriminate.
Qed.

Lemma option_eq_dec_local (a b : option Z) : {a = b} + {a <> b}.
Proof. decide equality. apply Z.eq_dec. Qed.

(* ---------------- histories ---------------- *)

Lemma alternating_cons st o r : alternating st (o :: r) = true ->
  alternating st [o] = true /\
  alternating (match o with Reload _ => st | Start => true | Stop => false end) r = true.
Proof.
  destruct o; simpl; intros H.
  - split; [reflexivity|exact H].
  - apply andb_prop in H. destruct H as [H1 H2]. rewrite H1. split; [reflexivity|exact H2].
  - apply andb_prop in H. destruct H as [H1 H2]. rewrite H1. split; [reflexivity|exact H2].
Qed.

Lemma step_started s o s' ev : step s o = (s', ev) ->
  started s' = match o with Reload _ => started s | Start => true | Stop => false end.
Proof.
  destruct o; simpl.
  - destruct (reload_loop fwd (handlers s) (next_id s)) as [[[nh cl] st] nx].
    destruct (started s); intros H; inversion H; reflexivity.
  - intros H; inversion H; reflexivity.
  - intros H; inversion H; reflexivity.
Qed.

Lemma run_inv : forall ops s s' evs, Inv s -> alternating (started s) ops = true -> run s ops = (s', evs) ->
  Inv s' /\ map hconf (handlers s') = configured (map hconf (handlers s)) ops.
Proof.
  induction ops as [|o r IH]; intros s s' evs HI Halt Hrun; simpl in Hrun.
  - inversion Hrun; subst. split; [exact HI|reflexivity].
  - destruct (step s o) as [s1 e] eqn:Es. destruct (run s1 r) as [s2 es] eqn:Er. inversion Hrun; subst s' evs.
    destruct (alternating_cons _ _ _ Halt) as [A1 A2].
    destruct (step_inv s o s1 e HI A1 Es) as [I1 I2].
    rewrite <- (step_started _ _ _ _ Es) in A2.
    destruct (IH s1 s2 es I1 A2 Er) as [J1 J2]. split; [exact J1|].
    rewrite J2, I2. destruct o; reflexivity.
Qed.

(* after any well-formed history from Initialize(fwd0): while started, exactly one forwarder runs per configured
   destination, in configuration order; while stopped, none runs *)
Lemma history_running fwd0 ops s' evs :
  alternating false ops = true -> run (init fwd0) ops = (s', evs) ->
  map hconf (handlers s') = configured fwd0 ops /\ NoDup (ids (handlers s')) /\ NoDup (live s') /\
  (forall x, In x (live s') <-> started s' = true /\ In x (ids (handlers s'))).
Proof.
  intros Halt Hrun. destruct (inv_init fwd0) as [HI Hc].
  destruct (run_inv ops (init fwd0) s' evs HI Halt Hrun) as [[N1 N2 N3 N4 N5] J]. rewrite Hc in J.
  split; [exact J|]. split; [exact N1|]. split; [exact N4|exact N5].
Qed.

(* one reload, position by position *)
Lemma reload_positions s fwd s' ev : Inv s -> step s (Reload fwd) = (s', ev) ->
  (forall i h, nth_error (handlers s) i = Some h -> nth_error fwd i = Some (hconf h) ->
     nth_error (handlers s') i = Some h /\ ~ In (EStop (hid h)) ev /\ ~ In (EStart (hid h)) ev) /\
  (forall i h, nth_error (handlers s) i = Some h -> nth_error fwd i <> Some (hconf h) ->
     (started s = true -> In (EStop (hid h)) ev) /\ ~ In (hid h) (ids (handlers s'))) /\
  (forall i h', nth_error (handlers s') i = Some h' ->
     nth_error (handlers s) i = Some h' \/
     (next_id s <= hid h' /\ (started s = true -> In (EStart (hid h')) ev))).
Proof.
  intros [N1 N2 N3 N4 N5] Hs. simpl in Hs.
  destruct (reload_loop fwd (handlers s) (next_id s)) as [[[nh cl] st] nx] eqn:E.
  destruct (reload_loop_spec _ _ _ _ _ _ _ N1 N2 E) as [L1 L2 L3 L4 L5 L6 L7 L8 L9 L10 L11].
  assert (forall h, In h (handlers s) -> hid h < next_id s) as Hold
    by (intros h Hh; apply N2; unfold ids; apply in_map; exact Hh).
  assert (handlers s' = nh /\ (started s = true -> ev = map EStart st ++ map (fun h => EStop (hid h)) cl)
          /\ (started s = false -> ev = [])) as (Hh & Hev1 & Hev0).
  { destruct (started s); inversion Hs; subst; repeat split; try reflexivity; discriminate. }
  rewrite Hh. clear Hs. repeat split.
  - apply (L9 i h H H0).
  - destruct (L9 i h H H0) as [_ Hncl]. destruct (started s) eqn:Est.
    + rewrite (Hev1 eq_refl). intros Hin. apply in_app_or in Hin. destruct Hin as [Hin|Hin].
      * apply in_map_iff in Hin. destruct Hin as [x [Hx _]]. discriminate.
      * apply in_map_iff in Hin. destruct Hin as [c [Hc1 Hc2]]. inversion Hc1 as [Hc3].
        apply Hncl. unfold ids. rewrite <- Hc3. apply in_map. exact Hc2.
    + rewrite (Hev0 eq_refl). intros [].
  - destruct (started s) eqn:Est.
    + rewrite (Hev1 eq_refl). intros Hin. apply in_app_or in Hin. destruct Hin as [Hin|Hin].
      * apply in_map_iff in Hin. destruct Hin as [x [Hx Hxs]]. inversion Hx; subst x.
        specialize (L3 _ Hxs). specialize (Hold h (nth_error_In _ _ H)). lia.
      * apply in_map_iff in Hin. destruct Hin as [c [Hc _]]. discriminate.
    + rewrite (Hev0 eq_refl). intros [].
  - intros Est. rewrite (Hev1 Est). destruct (L10 i h H H0) as [Hcl _].
    apply in_or_app. right. apply in_map_iff. exists h. split; [reflexivity|exact Hcl].
  - destruct (L10 i h H H0) as [Hcl _]. intros Hin. apply L6 in Hin. destruct Hin as [[_ Hn]|Hin].
    + apply Hn. unfold ids. apply in_map. exact Hcl.
    + specialize (L3 _ Hin). specialize (Hold h (nth_error_In _ _ H)). lia.
  - intros i h' H'. destruct (nth_error (handlers s) i) as [h|] eqn:Eo.
    + destruct (option_eq_dec_local (nth_error fwd i) (Some (hconf h))) as [Ef|Ef].
      * destruct (L9 i h Eo Ef) as [Hk _]. left. congruence.
      * destruct (L10 i h Eo Ef) as [_ Hst]. specialize (Hst h' H'). right.
        split; [specialize (L3 _ Hst); lia|]. intros Est. rewrite (Hev1 Est). apply in_or_app. left. apply in_map. exact Hst.
    + right. pose proof (L11 i h' Eo H') as Hst.
      split; [specialize (L3 _ Hst); lia|]. intros Est. rewrite (Hev1 Est). apply in_or_app. left. apply in_map. exact Hst.
Qed.
