(* Proofs for Model/C21_HookEnv.v: commands read their Env later, under every interleaving. *)
From Coq Require Import List ZArith Bool Lia PeanoNat.
Require Import MTX.Model.C21_ExtCmd MTX.Model.C21_HookEnv.
Import ListNotations.

(* every command's map still holds what it held when the command was started *)
Definition hinv (st : hstate) : Prop :=
  forall c a e, nth_error (cmds st) c = Some (a, e) ->
                (a < length (heap st))%nat /\ nth a (heap st) [] = e.

Lemma hinv_init : hinv hinit.
Proof. intros c a e H. destruct c; discriminate H. Qed.

Lemma upd_length : forall A (f : A -> A) l n, length (upd n f l) = length l.
Proof. induction l as [|x l IH]; intros [|n]; cbn; auto. Qed.

Lemma upd_nth_other : forall A (f : A -> A) d l n m, n <> m -> nth m (upd n f l) d = nth m l d.
Proof.
  induction l as [|x l IH]; intros [|n] [|m] Hne; cbn; auto; try congruence.
Qed.

Lemma upd_nth_same : forall A (f : A -> A) d l n, (n < length l)%nat -> nth n (upd n f l) d = f (nth n l d).
Proof.
  induction l as [|x l IH]; intros [|n] Hlt; cbn in *; try lia; auto. apply IH. lia.
Qed.

Lemma existsb_addr_false : forall (l : list (nat * henv)) a c a' e,
  existsb (fun x => Nat.eqb (fst x) a) l = false -> nth_error l c = Some (a', e) -> a' <> a.
Proof.
  intros l a c a' e Hex Hn. apply nth_error_In in Hn.
  intro Heq. subst a'.
  assert (existsb (fun x => Nat.eqb (fst x) a) l = true) as Ht.
  { apply existsb_exists. exists (a, e). split; [exact Hn|]. cbn. apply Nat.eqb_refl. }
  congruence.
Qed.

Lemma hinv_step : forall st s, hinv st -> step_ok st s = true -> hinv (hexec st s).
Proof.
  intros st s Hinv Hok. destruct s as [b|a k v|a|c]; cbn in *.
  - intros c a e Hn. cbn in *. destruct (Hinv c a e Hn) as [Hlt He]. split.
    + rewrite app_length. lia.
    + rewrite app_nth1 by exact Hlt. exact He.
  - intros c a' e Hn. cbn in *. destruct (Hinv c a' e Hn) as [Hlt He].
    apply negb_true_iff in Hok.
    pose proof (existsb_addr_false _ _ _ _ _ Hok Hn) as Hne.
    split.
    + rewrite upd_length. exact Hlt.
    + rewrite upd_nth_other by congruence. exact He.
  - intros c a' e Hn. cbn in *. apply Nat.ltb_lt in Hok.
    destruct (Nat.lt_ge_cases c (length (cmds st))) as [Hc|Hc].
    + rewrite nth_error_app1 in Hn by exact Hc. exact (Hinv c a' e Hn).
    + rewrite nth_error_app2 in Hn by exact Hc.
      destruct (c - length (cmds st))%nat as [|d] eqn:Hd; cbn in Hn.
      * inversion Hn; subst. split; [exact Hok|reflexivity].
      * destruct d; discriminate Hn.
  - exact Hinv.
Qed.

(* the isolation theorem: under the discipline, whatever the interleaving, every read returns what the
   command was handed *)
Lemma reads_see_what_was_handed : forall tr st,
  hinv st -> disciplined st tr = true -> hrun st tr = hrun_handed st tr.
Proof.
  induction tr as [|s tr IH]; intros st Hinv Hd; [reflexivity|].
  cbn [disciplined] in Hd. apply andb_true_iff in Hd. destruct Hd as [Hok Hd].
  pose proof (hinv_step st s Hinv Hok) as Hinv'.
  destruct s as [b|a k v|a|c]; cbn [hrun hrun_handed].
  - apply IH; assumption.
  - apply IH; assumption.
  - apply IH; assumption.
  - cbn in Hd. unfold sees, handed.
    destruct (nth_error (cmds st) c) as [[a e]|] eqn:Hn.
    + destruct (Hinv c a e Hn) as [_ He]. rewrite He. f_equal. apply IH; assumption.
    + apply IH; assumption.
Qed.

Lemma reads_see_what_was_handed_init : forall tr,
  disciplined hinit tr = true -> hrun hinit tr = hrun_handed hinit tr.
Proof. intros tr. apply reads_see_what_was_handed. exact hinv_init. Qed.

(* the discipline and the final state are properties of the caller's program alone *)
Lemma disciplined_caller : forall tr st, disciplined st tr = disciplined st (caller_of tr).
Proof.
  induction tr as [|s tr IH]; intros st; [reflexivity|].
  destruct s as [b|a k v|a|c]; cbn [caller_of filter is_read negb disciplined].
  - fold (caller_of tr). rewrite IH. reflexivity.
  - fold (caller_of tr). rewrite IH. reflexivity.
  - fold (caller_of tr). rewrite IH. reflexivity.
  - fold (caller_of tr). cbn. apply IH.
Qed.

(* ---- the code's call sites: one map per event ---- *)

Definition addrs_below (st : hstate) : Prop :=
  forall x, In x (cmds st) -> (fst x < length (heap st))%nat.

Lemma existsb_addr_fresh : forall st, addrs_below st ->
  forall n, (length (heap st) <= n)%nat -> existsb (fun x => Nat.eqb (fst x) n) (cmds st) = false.
Proof.
  intros st Hb n Hn. destruct (existsb _ (cmds st)) eqn:Hex; [|reflexivity].
  apply existsb_exists in Hex. destruct Hex as [x [Hin Heq]]. apply Nat.eqb_eq in Heq.
  specialize (Hb x Hin). lia.
Qed.

Lemma sets_disciplined : forall sets h m cs rest,
  (forall x, In x cs -> (fst x < length h)%nat) ->
  (forall m', disciplined (HS (h ++ [m']) cs) rest = true) ->
  disciplined (HS (h ++ [m]) cs) (map (fun kv => SSet (length h) (fst kv) (snd kv)) sets ++ rest) = true.
Proof.
  induction sets as [|[k v] sets IH]; intros h m cs rest Hb Hrest; cbn [map app].
  - apply Hrest.
  - cbn [disciplined step_ok hexec heap cmds fst snd].
    assert (existsb (fun x => Nat.eqb (fst x) (length h)) cs = false) as Hf.
    { destruct (existsb _ cs) eqn:Hex; [|reflexivity].
      apply existsb_exists in Hex. destruct Hex as [x [Hin Heq]]. apply Nat.eqb_eq in Heq.
      specialize (Hb x Hin). lia. }
    rewrite Hf. cbn [negb andb].
    assert (upd (length h) (hset k v) (h ++ [m]) = h ++ [hset k v m]) as Hu.
    { clear. induction h as [|x h IHh]; cbn; [reflexivity|]. rewrite IHh. reflexivity. }
    rewrite Hu. apply IH; assumption.
Qed.

Lemma per_event_disciplined_gen : forall evs h cs,
  (forall x, In x cs -> (fst x < length h)%nat) ->
  disciplined (HS h cs) (per_event (length h) evs) = true.
Proof.
  induction evs as [|e evs IH]; intros h cs Hb; [reflexivity|].
  cbn [per_event disciplined step_ok hexec heap cmds andb].
  apply sets_disciplined; [exact Hb|].
  intros m'. cbn [disciplined step_ok hexec heap cmds].
  assert (Nat.ltb (length h) (length (h ++ [m'])) = true) as Hl.
  { apply Nat.ltb_lt. rewrite app_length. cbn. lia. }
  rewrite Hl. cbn [andb].
  replace (S (length h)) with (length (h ++ [m'])) by (rewrite app_length; cbn; lia).
  apply IH. intros x Hin. apply in_app_or in Hin. destruct Hin as [Hin|Hin].
  - specialize (Hb x Hin). rewrite app_length. lia.
  - destruct Hin as [Hx|[]]. subst x. cbn. rewrite app_length. cbn. lia.
Qed.

Lemma per_event_disciplined : forall evs tr,
  caller_of tr = per_event 0 evs -> disciplined hinit tr = true.
Proof.
  intros evs tr Hc. rewrite disciplined_caller, Hc.
  apply (per_event_disciplined_gen evs [] []). intros x [].
Qed.

(* the per-event call sites are isolated under every interleaving *)
Lemma per_event_isolated : forall evs tr,
  caller_of tr = per_event 0 evs -> hrun hinit tr = hrun_handed hinit tr.
Proof.
  intros evs tr Hc. apply reads_see_what_was_handed_init. exact (per_event_disciplined evs tr Hc).
Qed.

(* ---- the hoisted map: refuted ---- *)

Definition k_seg : bytes := [83;69;71]%Z.       (* "SEG" *)
Definition ev_complete5 := HEv [99%Z] [] [(k_seg, [53%Z])].   (* complete, segment "5" *)
Definition ev_create6 := HEv [110%Z] [] [(k_seg, [54%Z])].    (* create, segment "6" *)

(* the recorder's rotation: complete 5, create 6, and only then the routine of the first command runs *)
Lemma shared_map_refuted :
  exists tr, caller_of tr = shared_map [] [ev_complete5; ev_create6] /\
             In (0%nat, intended ev_create6) (hrun hinit tr) /\
             intended ev_create6 <> intended ev_complete5 /\
             disciplined hinit tr = false.
Proof.
  exists (reads_last (shared_map [] [ev_complete5; ev_create6]) 2).
  split; [reflexivity|]. split; [vm_compute; left; reflexivity|].
  split; [vm_compute; discriminate|reflexivity].
Qed.

(* ---- what the per-event call sites hand to their commands ---- *)

Lemma hfinal_caller : forall tr st, hfinal st tr = hfinal st (caller_of tr).
Proof.
  induction tr as [|s tr IH]; intros st; [reflexivity|].
  destruct s as [b|a k v|a|c]; cbn [caller_of filter is_read negb hfinal fold_left];
    fold (caller_of tr); try (apply IH).
Qed.

Lemma cmds_grow_step : forall st s c x,
  nth_error (cmds st) c = Some x -> nth_error (cmds (hexec st s)) c = Some x.
Proof.
  intros st s c x Hn. destruct s as [b|a k v|a|c']; cbn; try exact Hn.
  rewrite nth_error_app1; [exact Hn|]. apply nth_error_Some. congruence.
Qed.

Lemma cmds_grow : forall tr st c x,
  nth_error (cmds st) c = Some x -> nth_error (cmds (hfinal st tr)) c = Some x.
Proof.
  induction tr as [|s tr IH]; intros st c x Hn; [exact Hn|].
  cbn [hfinal fold_left]. apply IH. apply cmds_grow_step. exact Hn.
Qed.

Lemma handed_in_final : forall tr st c e,
  In (c, e) (hrun_handed st tr) -> exists a, nth_error (cmds (hfinal st tr)) c = Some (a, e).
Proof.
  induction tr as [|s tr IH]; intros st c e Hin; [destruct Hin|].
  destruct s as [b|a k v|a|c']; cbn [hrun_handed] in Hin; cbn [hfinal fold_left].
  - apply IH. exact Hin.
  - apply IH. exact Hin.
  - apply IH. exact Hin.
  - cbn [hexec]. unfold handed in Hin.
    destruct (nth_error (cmds st) c') as [[a x]|] eqn:Hn.
    + destruct Hin as [Heq|Hin].
      * inversion Heq; subst. exists a. apply (cmds_grow tr st c (a, e)). exact Hn.
      * apply IH. exact Hin.
    + apply IH. exact Hin.
Qed.

Lemma upd_last : forall (h : list henv) f m, upd (length h) f (h ++ [m]) = h ++ [f m].
Proof. induction h as [|x h IHh]; intros f m; cbn; [reflexivity|]. rewrite IHh. reflexivity. Qed.

Lemma sets_final : forall sets h m cs rest,
  hfinal (HS (h ++ [m]) cs) (map (fun kv => SSet (length h) (fst kv) (snd kv)) sets ++ rest)
  = hfinal (HS (h ++ [hset_all sets m]) cs) rest.
Proof.
  induction sets as [|[k v] sets IH]; intros h m cs rest; [reflexivity|].
  cbn [map app hfinal fold_left hexec heap cmds fst snd].
  rewrite upd_last. unfold hfinal in IH. rewrite IH. reflexivity.
Qed.

Lemma per_event_final : forall evs h cs,
  map snd (cmds (hfinal (HS h cs) (per_event (length h) evs))) = map snd cs ++ map intended evs.
Proof.
  induction evs as [|e evs IH]; intros h cs.
  - cbn. rewrite app_nil_r. reflexivity.
  - cbn [per_event]. change (hfinal (HS h cs) (SNew (ev_base e) :: ?r)) with (hfinal (HS (h ++ [ev_base e]) cs) r).
    rewrite sets_final.
    cbn [hfinal fold_left hexec heap cmds].
    replace (S (length h)) with (length (h ++ [hset_all (ev_sets e) (ev_base e)]))
      by (rewrite app_length; cbn; lia).
    pose proof (IH (h ++ [hset_all (ev_sets e) (ev_base e)])
                   (cs ++ [(length h, nth (length h) (h ++ [hset_all (ev_sets e) (ev_base e)]) [])])) as H.
    unfold hfinal in H. rewrite H.
    rewrite map_app. cbn [map snd]. rewrite nth_middle. rewrite <- app_assoc. reflexivity.
Qed.

Lemma per_event_values : forall evs tr c e,
  caller_of tr = per_event 0 evs -> In (c, e) (hrun hinit tr) ->
  exists ev, nth_error evs c = Some ev /\ e = intended ev.
Proof.
  intros evs tr c e Hc Hin.
  rewrite (per_event_isolated evs tr Hc) in Hin.
  apply handed_in_final in Hin. destruct Hin as [a Hn].
  rewrite hfinal_caller, Hc in Hn.
  pose proof (per_event_final evs [] []) as Hf. cbn [length map app] in Hf.
  fold hinit in Hf.
  assert (nth_error (map snd (cmds (hfinal hinit (per_event 0 evs)))) c = Some e) as Hm.
  { rewrite nth_error_map. rewrite Hn. reflexivity. }
  rewrite Hf in Hm. rewrite nth_error_map in Hm.
  destruct (nth_error evs c) as [ev|]; [|discriminate Hm].
  exists ev. split; [reflexivity|]. cbn in Hm. congruence.
Qed.
