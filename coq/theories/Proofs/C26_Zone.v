(* Proofs about the zone model (Model/C26_Zone.v): for every lookup function with the two zone-database
   properties (periods partition the time line and the offset is constant on each; offsets within B of
   UTC and periods longer than 2B), time.Date maps the wall-clock reading of an instant back to that
   instant exactly outside the repeated hours; inside one it picks by comparing the reading, taken as
   UTC, with the transition instant; and whenever the reading exists the instant it returns shows that
   reading. Then the table instance and the consequences for Path.Decode / Encode. *)
From Coq Require Import List ZArith Bool Lia.
Require Import MTX.Lib.Civil MTX.Model.C26_RecPath MTX.Proofs.C26_RecPath MTX.Model.C26_Zone.
Import ListNotations.
Local Open Scope Z_scope.

Definition ge_lo (s : option Z) (x : Z) : Prop := match s with Some s => s <= x | None => True end.
Definition lt_hi (e : option Z) (x : Z) : Prop := match e with Some e => x < e | None => True end.

Section Abstract.
  Variable lk : Z -> period.
  Variable B : Z.
  Hypothesis HB : 0 <= B.
  (* every instant lies in its period, and the lookup is constant on a period *)
  Hypothesis Hin : forall x o s e, lk x = (o, s, e) -> ge_lo s x /\ lt_hi e x.
  Hypothesis Hconst : forall x o s e y, lk x = (o, s, e) -> ge_lo s y -> lt_hi e y -> lk y = (o, s, e).
  Hypothesis Hbound : forall x, Z.abs (lk_off lk x) <= B.
  Hypothesis Hlen : forall x o s0 e0, lk x = (o, Some s0, Some e0) -> 2 * B < e0 - s0.

  Lemma off_of x o s e : lk x = (o, s, e) -> lk_off lk x = o.
  Proof. intros H. unfold lk_off. now rewrite H. Qed.

  Lemma bound_of x o s e : lk x = (o, s, e) -> Z.abs o <= B.
  Proof. intros H. rewrite <- (off_of _ _ _ _ H). apply Hbound. Qed.

  (* the period that starts where the period of u ends *)
  Lemma next_period u a s e0 : lk u = (a, s, Some e0) -> exists b e2, lk e0 = (b, Some e0, e2).
  Proof.
    intros Hu. destruct (lk e0) as [[b s2] e2] eqn:He.
    destruct (Hin _ _ _ _ Hu) as [Hlo Hhi]. destruct (Hin _ _ _ _ He) as [Hlo2 Hhi2].
    assert (Hs2 : s2 = Some e0).
    { destruct s2 as [s2'|].
      - cbn [ge_lo] in Hlo2. destruct (Z.eq_dec s2' e0) as [->|Hne]; [reflexivity|exfalso].
        assert (H1 : lk (e0 - 1) = (a, s, Some e0)).
        { apply (Hconst _ _ _ _ _ Hu); [destruct s; cbn [ge_lo lt_hi] in *; lia|cbn [lt_hi] in *; lia]. }
        assert (H2 : lk (e0 - 1) = (b, Some s2', e2)).
        { apply (Hconst _ _ _ _ _ He); [cbn [ge_lo]; lia|destruct e2; cbn [lt_hi] in *; lia]. }
        rewrite H1 in H2. inversion H2; subst. cbn [lt_hi] in Hhi2. lia.
      - exfalso.
        assert (H1 : lk (e0 - 1) = (a, s, Some e0)).
        { apply (Hconst _ _ _ _ _ Hu); [destruct s; cbn [ge_lo lt_hi] in *; lia|cbn [lt_hi] in *; lia]. }
        assert (H2 : lk (e0 - 1) = (b, None, e2)).
        { apply (Hconst _ _ _ _ _ He); [exact I|destruct e2; cbn [lt_hi] in *; lia]. }
        rewrite H1 in H2. inversion H2; subst. cbn [lt_hi] in Hhi2. lia. }
    subst s2. exists b, e2. reflexivity.
  Qed.

  (* the period that ends where the period of u starts *)
  Lemma prev_period u a s0 e : lk u = (a, Some s0, e) -> exists a' sp, lk (s0 - 1) = (a', sp, Some s0).
  Proof.
    intros Hu. destruct (lk (s0 - 1)) as [[a' sp] ep] eqn:Hp.
    destruct (Hin _ _ _ _ Hu) as [Hlo Hhi]. destruct (Hin _ _ _ _ Hp) as [Hlo2 Hhi2].
    cbn [ge_lo] in Hlo.
    assert (Hcontra : lt_hi ep s0 -> False).
    { intros Hlt.
      assert (H1 : lk s0 = (a, Some s0, e)).
      { apply (Hconst _ _ _ _ _ Hu); [cbn [ge_lo]; lia|destruct e; cbn [lt_hi] in *; lia]. }
      assert (H2 : lk s0 = (a', sp, ep)).
      { apply (Hconst _ _ _ _ _ Hp); [destruct sp; cbn [ge_lo] in *; lia|exact Hlt]. }
      rewrite H1 in H2. inversion H2; subst. cbn [ge_lo] in Hlo2. lia. }
    destruct ep as [ep'|]; [|exfalso; apply Hcontra; exact I].
    cbn [lt_hi] in Hhi2, Hcontra.
    assert (ep' = s0) by lia. subst ep'. exists a', sp. reflexivity.
  Qed.

  (* instants shortly after the end of a period lie in the next one; shortly before its start, in the previous one *)
  Lemma in_next u a s e0 b e2 y : lk u = (a, s, Some e0) -> lk e0 = (b, Some e0, e2) ->
    e0 <= y <= e0 + 2 * B -> lk y = (b, Some e0, e2).
  Proof.
    intros Hu He Hy. apply (Hconst _ _ _ _ _ He); [cbn [ge_lo]; lia|].
    destruct e2 as [e2'|]; [|exact I]. cbn [lt_hi]. pose proof (Hlen _ _ _ _ He). lia.
  Qed.

  Lemma in_prev u a s0 e a' sp y : lk u = (a, Some s0, e) -> lk (s0 - 1) = (a', sp, Some s0) ->
    s0 - 2 * B <= y < s0 -> lk y = (a', sp, Some s0).
  Proof.
    intros Hu Hp Hy. apply (Hconst _ _ _ _ _ Hp); [|cbn [lt_hi]; lia].
    destruct sp as [sp'|]; [|exact I]. cbn [ge_lo]. pose proof (Hlen _ _ _ _ Hp). lia.
  Qed.

  (* instants within 2B before the end of a period are not before its start *)
  Lemma in_self_lo u a s e0 y : lk u = (a, s, Some e0) -> e0 - 2 * B <= y -> ge_lo s y.
  Proof.
    intros Hu Hy. destruct s as [s0|]; [|exact I]. cbn [ge_lo]. pose proof (Hlen _ _ _ _ Hu). lia.
  Qed.

  (* ---- where the wall-clock reading of u, taken as UTC, falls *)
  Inductive place (u a : Z) (s e : option Z) : Prop :=
  | PSelf : lk (u + a) = (a, s, e) -> place u a s e
  | PNext e0 b e2 : e = Some e0 -> e0 <= u + a -> 0 < a -> lk e0 = (b, Some e0, e2) ->
                    lk (u + a) = (b, Some e0, e2) -> place u a s e
  | PPrev s0 a' sp : s = Some s0 -> u + a < s0 -> a < 0 -> lk (s0 - 1) = (a', sp, Some s0) ->
                     lk (u + a) = (a', sp, Some s0) -> place u a s e.

  Lemma classify u a s e : lk u = (a, s, e) -> place u a s e.
  Proof.
    intros Hu. destruct (Hin _ _ _ _ Hu) as [Hlo Hhi]. pose proof (bound_of _ _ _ _ Hu) as Ha.
    destruct e as [e0|].
    - cbn [lt_hi] in Hhi. destruct (Z_lt_le_dec (u + a) e0) as [Hlt|Hge].
      + destruct s as [s0|].
        * cbn [ge_lo] in Hlo. destruct (Z_lt_le_dec (u + a) s0) as [Hlt2|Hge2].
          -- destruct (prev_period _ _ _ _ Hu) as (a' & sp & Hp).
             eapply PPrev; [reflexivity|exact Hlt2|lia|exact Hp|].
             apply (in_prev _ _ _ _ _ _ _ Hu Hp). lia.
          -- apply PSelf. apply (Hconst _ _ _ _ _ Hu); [cbn [ge_lo]; lia|cbn [lt_hi]; lia].
        * apply PSelf. apply (Hconst _ _ _ _ _ Hu); [exact I|cbn [lt_hi]; lia].
      + destruct (next_period _ _ _ _ Hu) as (b & e2 & He).
        eapply PNext; [reflexivity|exact Hge|lia|exact He|].
        apply (in_next _ _ _ _ _ _ _ Hu He). lia.
    - destruct s as [s0|].
      + cbn [ge_lo] in Hlo. destruct (Z_lt_le_dec (u + a) s0) as [Hlt2|Hge2].
        * destruct (prev_period _ _ _ _ Hu) as (a' & sp & Hp).
          eapply PPrev; [reflexivity|exact Hlt2|lia|exact Hp|].
          apply (in_prev _ _ _ _ _ _ _ Hu Hp). lia.
        * apply PSelf. apply (Hconst _ _ _ _ _ Hu); [cbn [ge_lo]; lia|exact I].
      + apply PSelf. apply (Hconst _ _ _ _ _ Hu); exact I.
  Qed.

  (* ---- time.Date on the reading of u, case by case *)

  Lemma date_self u a s e : lk u = (a, s, e) -> lk (u + a) = (a, s, e) -> date_off lk (u + a) = a.
  Proof.
    intros Hu Hw. unfold date_off. rewrite Hw. destruct (Z.eqb_spec a 0) as [->|Hne]; [reflexivity|].
    replace (u + a - a) with u by lia. destruct (Hin _ _ _ _ Hu) as [Hlo Hhi].
    assert (E1 : before s u = false) by (destruct s; cbn [before ge_lo] in *; lia).
    assert (E2 : notbefore e u = false) by (destruct e; cbn [notbefore lt_hi] in *; lia).
    rewrite E1, E2. reflexivity.
  Qed.

  Lemma date_next u a s e0 b e2 : lk u = (a, s, Some e0) -> e0 <= u + a -> lk e0 = (b, Some e0, e2) ->
    lk (u + a) = (b, Some e0, e2) ->
    date_off lk (u + a) = if (b <? a) && (e0 <=? u + a - b) then b else a.
  Proof.
    intros Hu Hge He Hw. destruct (Hin _ _ _ _ Hu) as [Hlo Hhi]. cbn [lt_hi] in Hhi.
    pose proof (bound_of _ _ _ _ Hu) as Ha. pose proof (bound_of _ _ _ _ He) as Hb.
    unfold date_off. rewrite Hw.
    destruct (Z.eqb_spec b 0) as [->|Hne].
    - (* offset 0 after the change: no adjustment *)
      replace (u + a - 0) with (u + a) by lia.
      destruct (Z.ltb_spec 0 a); [|lia]. destruct (Z.leb_spec e0 (u + a)); [reflexivity|lia].
    - cbn [before].
      assert (E2 : notbefore e2 (u + a - b) = false).
      { destruct e2 as [e2'|]; [|reflexivity]. cbn [notbefore]. pose proof (Hlen _ _ _ _ He). lia. }
      rewrite E2, orb_false_r.
      destruct (Z.ltb_spec (u + a - b) e0) as [Hlt|Hge2].
      + (* back in the period of u *)
        assert (Hback : lk (u + a - b) = (a, s, Some e0)).
        { apply (Hconst _ _ _ _ _ Hu); [|cbn [lt_hi]; lia].
          apply (in_self_lo _ _ _ _ _ Hu). lia. }
        rewrite (off_of _ _ _ _ Hback).
        destruct (Z.leb_spec e0 (u + a - b)); [lia|]. rewrite andb_false_r. reflexivity.
      + destruct (Z.ltb_spec b a); [|lia]. destruct (Z.leb_spec e0 (u + a - b)); [reflexivity|lia].
  Qed.

  Lemma date_prev u a s0 e a' sp : lk u = (a, Some s0, e) -> u + a < s0 -> lk (s0 - 1) = (a', sp, Some s0) ->
    lk (u + a) = (a', sp, Some s0) ->
    date_off lk (u + a) = if (a <? a') && (u + a - a' <? s0) then a' else a.
  Proof.
    intros Hu Hlt Hp Hw. destruct (Hin _ _ _ _ Hu) as [Hlo Hhi]. cbn [ge_lo] in Hlo.
    pose proof (bound_of _ _ _ _ Hu) as Ha. pose proof (bound_of _ _ _ _ Hp) as Ha'.
    unfold date_off. rewrite Hw.
    destruct (Z.eqb_spec a' 0) as [->|Hne].
    - replace (u + a - 0) with (u + a) by lia.
      destruct (Z.ltb_spec a 0); [|lia]. destruct (Z.ltb_spec (u + a) s0); [reflexivity|lia].
    - cbn [notbefore].
      assert (E1 : before sp (u + a - a') = false).
      { destruct sp as [sp'|]; [|reflexivity]. cbn [before]. pose proof (Hlen _ _ _ _ Hp). lia. }
      rewrite E1, orb_false_l.
      destruct (Z.leb_spec s0 (u + a - a')) as [Hge|Hlt2].
      + assert (Hback : lk (u + a - a') = (a, Some s0, e)).
        { apply (Hconst _ _ _ _ _ Hu); [cbn [ge_lo]; lia|].
          destruct e as [e0|]; [|exact I]. cbn [lt_hi]. pose proof (Hlen _ _ _ _ Hu). lia. }
        rewrite (off_of _ _ _ _ Hback).
        destruct (Z.ltb_spec (u + a - a') s0); [lia|]. rewrite andb_false_r. reflexivity.
      + destruct (Z.ltb_spec a a'); [|lia]. destruct (Z.ltb_spec (u + a - a') s0); [reflexivity|lia].
  Qed.

  (* first_pass / second_pass in terms of the classification *)
  Lemma first_pass_eq u a s e0 b e2 : lk u = (a, s, Some e0) -> lk e0 = (b, Some e0, e2) ->
    first_pass lk u = (b <? a) && (e0 <=? u + a - b).
  Proof.
    intros Hu He. unfold first_pass. rewrite Hu, (off_of _ _ _ _ He).
    destruct (b <? a); [|reflexivity]. cbn [andb].
    destruct (Z.leb_spec (e0 - (a - b)) u), (Z.leb_spec e0 (u + a - b)); try reflexivity; lia.
  Qed.

  Lemma second_pass_eq u a s0 e a' sp : lk u = (a, Some s0, e) -> lk (s0 - 1) = (a', sp, Some s0) ->
    second_pass lk u = (a <? a') && (u + a - a' <? s0).
  Proof.
    intros Hu Hp. unfold second_pass. rewrite Hu, (off_of _ _ _ _ Hp).
    destruct (a <? a'); [|reflexivity]. cbn [andb].
    destruct (Z.ltb_spec u (s0 + (a' - a))), (Z.ltb_spec (u + a - a') s0); try reflexivity; lia.
  Qed.

  (* a reading that falls into the next period cannot belong to a second pass, and conversely *)
  Lemma next_not_second u a s e0 : lk u = (a, s, Some e0) -> e0 <= u + a -> second_pass lk u = false.
  Proof.
    intros Hu Hge. unfold second_pass. rewrite Hu. destruct s as [s0|]; [|reflexivity].
    destruct (prev_period _ _ _ _ Hu) as (a' & sp & Hp). rewrite (off_of _ _ _ _ Hp).
    pose proof (bound_of _ _ _ _ Hu) as Ha. pose proof (bound_of _ _ _ _ Hp) as Ha'.
    pose proof (Hlen _ _ _ _ Hu). destruct (Z.ltb_spec a a'); [|reflexivity]. cbn [andb].
    destruct (Z.ltb_spec u (s0 + (a' - a))); [lia|reflexivity].
  Qed.

  Lemma prev_not_first u a s0 e : lk u = (a, Some s0, e) -> u + a < s0 -> first_pass lk u = false.
  Proof.
    intros Hu Hlt. unfold first_pass. rewrite Hu. destruct e as [e0|]; [|reflexivity].
    destruct (next_period _ _ _ _ Hu) as (b & e2 & He). rewrite (off_of _ _ _ _ He).
    pose proof (bound_of _ _ _ _ Hu) as Ha. pose proof (bound_of _ _ _ _ He) as Hb.
    pose proof (Hlen _ _ _ _ Hu). destruct (Z.ltb_spec b a); [|reflexivity]. cbn [andb].
    destruct (Z.leb_spec (e0 - (a - b)) u); [lia|reflexivity].
  Qed.

  (* T1: outside the repeated hours time.Date finds the offset in force *)
  Theorem date_recovers u : in_repeat lk u = false -> date_off lk (u + lk_off lk u) = lk_off lk u.
  Proof.
    destruct (lk u) as [[a s] e] eqn:Hu. rewrite (off_of _ _ _ _ Hu).
    unfold in_repeat. rewrite orb_false_iff. intros [H1 H2].
    destruct (classify _ _ _ _ Hu) as [Hw|e0 b e2 -> Hge Hpos He Hw|s0 a' sp -> Hlt Hneg Hp Hw].
    - exact (date_self _ _ _ _ Hu Hw).
    - rewrite (date_next _ _ _ _ _ _ Hu Hge He Hw). rewrite <- (first_pass_eq _ _ _ _ _ _ Hu He), H1. reflexivity.
    - rewrite (date_prev _ _ _ _ _ _ Hu Hlt Hp Hw). rewrite <- (second_pass_eq _ _ _ _ _ _ Hu Hp), H2. reflexivity.
  Qed.

  (* T5: inside a repeated hour time.Date picks the offset before the change when the reading, taken
     as UTC, precedes the change, and the offset after it otherwise *)
  Theorem date_pick_first u a s e0 : lk u = (a, s, Some e0) -> first_pass lk u = true ->
    date_off lk (u + a) = if u + a <? e0 then a else lk_off lk e0.
  Proof.
    intros Hu Hf. destruct (next_period _ _ _ _ Hu) as (b & e2 & He). rewrite (off_of _ _ _ _ He).
    destruct (classify _ _ _ _ Hu) as [Hw|e0' b' e2' E Hge Hpos He' Hw|s0 a' sp -> Hlt Hneg Hp Hw].
    - rewrite (date_self _ _ _ _ Hu Hw). destruct (Hin _ _ _ _ Hw) as [_ Hhi]. cbn [lt_hi] in Hhi.
      destruct (Z.ltb_spec (u + a) e0); [reflexivity|lia].
    - inversion E; subst e0'. rewrite He in He'. inversion He'; subst b' e2'.
      rewrite (date_next _ _ _ _ _ _ Hu Hge He Hw). rewrite <- (first_pass_eq _ _ _ _ _ _ Hu He), Hf.
      destruct (Z.ltb_spec (u + a) e0); [lia|reflexivity].
    - rewrite (prev_not_first _ _ _ _ Hu Hlt) in Hf. discriminate.
  Qed.

  Theorem date_pick_second u a s0 e : lk u = (a, Some s0, e) -> second_pass lk u = true ->
    date_off lk (u + a) = if u + a <? s0 then lk_off lk (s0 - 1) else a.
  Proof.
    intros Hu Hf. destruct (prev_period _ _ _ _ Hu) as (a' & sp & Hp). rewrite (off_of _ _ _ _ Hp).
    destruct (classify _ _ _ _ Hu) as [Hw|e0 b e2 -> Hge Hpos He Hw|s0' a'' sp' E Hlt Hneg Hp' Hw].
    - rewrite (date_self _ _ _ _ Hu Hw). destruct (Hin _ _ _ _ Hw) as [Hlo _]. cbn [ge_lo] in Hlo.
      destruct (Z.ltb_spec (u + a) s0); [lia|reflexivity].
    - rewrite (next_not_second _ _ _ _ Hu Hge) in Hf. discriminate.
    - inversion E; subst s0'. rewrite Hp in Hp'. inversion Hp'; subst a'' sp'.
      rewrite (date_prev _ _ _ _ _ _ Hu Hlt Hp Hw). rewrite <- (second_pass_eq _ _ _ _ _ _ Hu Hp), Hf.
      destruct (Z.ltb_spec (u + a) s0); [reflexivity|lia].
  Qed.

  (* T2: an instant of a repeated hour has a twin with the same wall-clock reading *)
  Theorem repeat_collides u : in_repeat lk u = true ->
    twin lk u <> u /\ twin lk u + lk_off lk (twin lk u) = u + lk_off lk u.
  Proof.
    destruct (lk u) as [[a s] e] eqn:Hu. rewrite (off_of _ _ _ _ Hu).
    pose proof (bound_of _ _ _ _ Hu) as Ha. destruct (Hin _ _ _ _ Hu) as [Hlo Hhi].
    unfold in_repeat, twin. rewrite Hu. destruct (first_pass lk u) eqn:Hf.
    - intros _. unfold first_pass in Hf. rewrite Hu in Hf. destruct e as [e0|]; [|discriminate].
      destruct (next_period _ _ _ _ Hu) as (b & e2 & He). rewrite (off_of _ _ _ _ He) in *.
      pose proof (bound_of _ _ _ _ He) as Hb. cbn [lt_hi] in Hhi.
      apply andb_true_iff in Hf. destruct Hf as [Hf1 Hf2].
      assert (Hy : lk (u + (a - b)) = (b, Some e0, e2)) by (apply (in_next _ _ _ _ _ _ _ Hu He); lia).
      rewrite (off_of _ _ _ _ Hy). lia.
    - cbn [orb]. intros Hs. unfold second_pass in Hs. rewrite Hu in Hs. destruct s as [s0|]; [|discriminate].
      destruct (prev_period _ _ _ _ Hu) as (a' & sp & Hp). rewrite (off_of _ _ _ _ Hp) in *.
      pose proof (bound_of _ _ _ _ Hp) as Ha'. cbn [ge_lo] in Hlo.
      apply andb_true_iff in Hs. destruct Hs as [Hs1 Hs2].
      assert (Hy : lk (u - (a' - a)) = (a', sp, Some s0)) by (apply (in_prev _ _ _ _ _ _ _ Hu Hp); lia).
      rewrite (off_of _ _ _ _ Hy). lia.
  Qed.

  (* T3: for a reading that exists, the instant time.Date returns shows that reading *)
  Theorem date_same_wall u : let w := u + lk_off lk u in let r := w - date_off lk w in r + lk_off lk r = w.
  Proof.
    cbv zeta. destruct (lk u) as [[a s] e] eqn:Hu. rewrite (off_of _ _ _ _ Hu).
    pose proof (bound_of _ _ _ _ Hu) as Ha. destruct (Hin _ _ _ _ Hu) as [Hlo Hhi].
    destruct (classify _ _ _ _ Hu) as [Hw|e0 b e2 -> Hge Hpos He Hw|s0 a' sp -> Hlt Hneg Hp Hw].
    - rewrite (date_self _ _ _ _ Hu Hw). replace (u + a - a) with u by lia. rewrite (off_of _ _ _ _ Hu). lia.
    - rewrite (date_next _ _ _ _ _ _ Hu Hge He Hw). pose proof (bound_of _ _ _ _ He) as Hb. cbn [lt_hi] in Hhi.
      destruct ((b <? a) && (e0 <=? u + a - b)) eqn:Hc.
      + apply andb_true_iff in Hc. destruct Hc as [Hc1 Hc2].
        assert (Hy : lk (u + a - b) = (b, Some e0, e2)) by (apply (in_next _ _ _ _ _ _ _ Hu He); lia).
        rewrite (off_of _ _ _ _ Hy). lia.
      + replace (u + a - a) with u by lia. rewrite (off_of _ _ _ _ Hu). lia.
    - rewrite (date_prev _ _ _ _ _ _ Hu Hlt Hp Hw). pose proof (bound_of _ _ _ _ Hp) as Ha'. cbn [ge_lo] in Hlo.
      destruct ((a <? a') && (u + a - a' <? s0)) eqn:Hc.
      + apply andb_true_iff in Hc. destruct Hc as [Hc1 Hc2].
        assert (Hy : lk (u + a - a') = (a', sp, Some s0)) by (apply (in_prev _ _ _ _ _ _ _ Hu Hp); lia).
        rewrite (off_of _ _ _ _ Hy). lia.
      + replace (u + a - a) with u by lia. rewrite (off_of _ _ _ _ Hu). lia.
  Qed.

  (* instants with different offsets-in-force but the same reading: time.Date can return only one *)
  Theorem date_one_of_two u u' : u <> u' -> u + lk_off lk u = u' + lk_off lk u' ->
    ~ (date_off lk (u + lk_off lk u) = lk_off lk u /\ date_off lk (u' + lk_off lk u') = lk_off lk u').
  Proof. intros Hne Hw [H1 H2]. rewrite <- Hw in H2. lia. Qed.
End Abstract.

(* ---------------------------------------------------------------- the table instance *)

Fixpoint chainD (d : Z) (s : option Z) (tx : list (Z * Z)) : Prop :=
  match tx with
  | [] => True
  | (w, _) :: r => (match s with Some s0 => s0 + d < w | None => True end) /\ chainD d (Some w) r
  end.

Lemma spaced_chain d : forall tx w0 o0, spaced d ((w0, o0) :: tx) = true -> chainD d (Some w0) tx.
Proof.
  induction tx as [|[w1 o1] tx IH]; intros w0 o0 H; [exact I|].
  cbn [spaced] in H. apply andb_true_iff in H. destruct H as [H1 H2].
  cbn [chainD]. split; [lia|]. exact (IH w1 o1 H2).
Qed.

Lemma spaced_chain_none d tx : spaced d tx = true -> chainD d None tx.
Proof.
  destruct tx as [|[w0 o0] tx]; intros H; [exact I|]. cbn [chainD]. split; [exact I|].
  exact (spaced_chain d tx w0 o0 H).
Qed.

Lemma lookup_from_spec d : 0 <= d -> forall tx o s x o' s' e',
  chainD d s tx -> ge_lo s x -> lookup_from o s tx x = (o', s', e') ->
  ge_lo s' x /\ lt_hi e' x /\
  (forall y, ge_lo s' y -> ge_lo s y) /\
  (forall y, ge_lo s' y -> lt_hi e' y -> lookup_from o s tx y = (o', s', e')) /\
  (forall s0 e0, s' = Some s0 -> e' = Some e0 -> d < e0 - s0) /\
  (o' = o \/ In o' (map snd tx)).
Proof.
  intros Hd. induction tx as [|[w o1] r IH]; intros o s x o' s' e' Hc Hx H.
  - cbn [lookup_from] in H. inversion H; subst. repeat split; try assumption; try exact I; try reflexivity.
    + intros y Hy. exact Hy.
    + intros s0 e0 _ E. discriminate.
    + left. reflexivity.
  - cbn [lookup_from] in H. cbn [chainD] in Hc. destruct Hc as [Hs Hc].
    destruct (Z.ltb_spec x w) as [Hlt|Hge].
    + inversion H; subst. split; [exact Hx|]. split; [exact Hlt|]. split; [intros y Hy; exact Hy|].
      split.
      * intros y Hy1 Hy2. cbn [lt_hi] in Hy2. cbn [lookup_from]. destruct (Z.ltb_spec y w); [reflexivity|lia].
      * split; [|left; reflexivity]. intros s0 e0 E1 E2. inversion E2; subst. lia.
    + assert (Hx' : ge_lo (Some w) x) by (cbn [ge_lo]; lia).
      destruct (IH _ _ _ _ _ _ Hc Hx' H) as (I1 & I2 & I3 & I4 & I5 & I6).
      split; [exact I1|]. split; [exact I2|].
      assert (Hw : forall y, ge_lo s' y -> w <= y) by (intros y Hy; exact (I3 y Hy)).
      split.
      * intros y Hy. pose proof (Hw y Hy). destruct s as [s0|]; [|exact I]. cbn [ge_lo]. lia.
      * split.
        -- intros y Hy1 Hy2. cbn [lookup_from]. pose proof (Hw y Hy1).
           destruct (Z.ltb_spec y w); [lia|]. apply I4; assumption.
        -- split; [exact I5|]. cbn [map snd In]. destruct I6 as [->|Hin]; [right; left; reflexivity|right; right; exact Hin].
Qed.

Section Table.
  Variable B : Z.
  Variable z : zone.
  Hypothesis Hok : zone_ok B z = true.

  Lemma zone_ok_parts : 0 <= B /\ Z.abs (z_first z) <= B /\
    (forall o, In o (map snd (z_tx z)) -> Z.abs o <= B) /\ chainD (2 * B) None (z_tx z).
  Proof.
    unfold zone_ok in Hok. repeat rewrite andb_true_iff in Hok. destruct Hok as [[[H1 H2] H3] H4].
    split; [lia|]. split; [lia|]. split.
    - intros o Hin. apply in_map_iff in Hin. destruct Hin as (t & <- & Ht).
      rewrite forallb_forall in H3. specialize (H3 t Ht). lia.
    - apply spaced_chain_none. exact H4.
  Qed.

  Lemma zone_spec x o s e : lookup z x = (o, s, e) ->
    ge_lo s x /\ lt_hi e x /\
    (forall y, ge_lo s y -> lt_hi e y -> lookup z y = (o, s, e)) /\
    (forall s0 e0, s = Some s0 -> e = Some e0 -> 2 * B < e0 - s0) /\ Z.abs o <= B.
  Proof.
    intros H. destruct zone_ok_parts as (HB & Hf & Hall & Hch).
    unfold lookup in *.
    destruct (lookup_from_spec (2 * B) ltac:(lia) _ _ _ _ _ _ _ Hch I H) as (I1 & I2 & _ & I4 & I5 & I6).
    split; [exact I1|]. split; [exact I2|]. split; [exact I4|]. split; [exact I5|].
    destruct I6 as [->|Hin]; [exact Hf|exact (Hall _ Hin)].
  Qed.

  Lemma zHB : 0 <= B. Proof. exact (proj1 zone_ok_parts). Qed.
  Lemma zHin : forall x o s e, lookup z x = (o, s, e) -> ge_lo s x /\ lt_hi e x.
  Proof. intros x o s e H. destruct (zone_spec _ _ _ _ H) as (A & A' & _). split; assumption. Qed.
  Lemma zHconst : forall x o s e y, lookup z x = (o, s, e) -> ge_lo s y -> lt_hi e y -> lookup z y = (o, s, e).
  Proof. intros x o s e y H. destruct (zone_spec _ _ _ _ H) as (_ & _ & A & _). apply A. Qed.
  Lemma zHbound : forall x, Z.abs (lk_off (lookup z) x) <= B.
  Proof.
    intros x. destruct (lookup z x) as [[o s] e] eqn:H. unfold lk_off. rewrite H. cbn [fst].
    exact (proj2 (proj2 (proj2 (proj2 (zone_spec _ _ _ _ H))))).
  Qed.
  Lemma zHlen : forall x o s0 e0, lookup z x = (o, Some s0, Some e0) -> 2 * B < e0 - s0.
  Proof. intros x o s0 e0 H. destruct (zone_spec _ _ _ _ H) as (_ & _ & _ & A & _). exact (A _ _ eq_refl eq_refl). Qed.

  Theorem zone_date_recovers u : in_repeat (lookup z) u = false ->
    go_date_off z (u + offset_at z u) = offset_at z u.
  Proof. intros H. apply (date_recovers (lookup z) B); try exact zHB; try exact zHin; try exact zHconst; try exact zHbound; try exact zHlen; assumption. Qed.

  Theorem zone_repeat_collides u : in_repeat (lookup z) u = true ->
    twin (lookup z) u <> u /\
    twin (lookup z) u + offset_at z (twin (lookup z) u) = u + offset_at z u.
  Proof. intros H. apply (repeat_collides (lookup z) B); try exact zHB; try exact zHin; try exact zHconst; try exact zHbound; try exact zHlen; assumption. Qed.

  Theorem zone_date_same_wall u :
    let w := u + offset_at z u in let r := w - go_date_off z w in r + offset_at z r = w.
  Proof. apply (date_same_wall (lookup z) B); try exact zHB; try exact zHin; try exact zHconst; try exact zHbound; try exact zHlen; assumption. Qed.

  Theorem zone_pick_first u a s e0 : lookup z u = (a, s, Some e0) -> first_pass (lookup z) u = true ->
    go_date_off z (u + a) = if u + a <? e0 then a else offset_at z e0.
  Proof. intros H1 H2. apply (date_pick_first (lookup z) B) with (s := s); try exact zHB; try exact zHin; try exact zHconst; try exact zHbound; try exact zHlen; assumption. Qed.

  Theorem zone_pick_second u a s0 e : lookup z u = (a, Some s0, e) -> second_pass (lookup z) u = true ->
    go_date_off z (u + a) = if u + a <? s0 then offset_at z (s0 - 1) else a.
  Proof. intros H1 H2. apply (date_pick_second (lookup z) B) with (e := e); try exact zHB; try exact zHin; try exact zHconst; try exact zHbound; try exact zHlen; assumption. Qed.

  (* ---- Path.Decode / Path.Encode in the zone *)

  Lemma encodable_zone ts u n : enc_ranges ts (local_instant z u n) = true ->
    in_repeat (lookup z) u = false -> encodable_lz (lz_of_zone z) ts (local_instant z u n) = true.
  Proof.
    intros Hr Hn. unfold encodable_lz. rewrite Hr. cbn [andb lz_of_zone lz_at lz_date local_instant i_unix i_off].
    rewrite Z.eqb_refl. cbn [andb]. rewrite (zone_date_recovers u Hn), Z.eqb_refl. rewrite orb_true_r. apply orb_true_r.
  Qed.

  (* every instant outside the repeated hours comes back, whatever the format (no %z / %s needed) *)
  Theorem roundtrip_zone f p u n :
    wf_format f = true -> name_ok p = true -> identifies (tokenize f) = true ->
    enc_ranges (tokenize f) (local_instant z u n) = true -> in_repeat (lookup z) u = false ->
    decode_zone z f (encode_go f p (local_instant z u n)) =
    Some (p, u, snd (trunc_start (tokenize f) (local_instant z u n))).
  Proof.
    intros Hwf Hp Hid Hr Hn. unfold decode_zone.
    rewrite (roundtrip_lz _ f p _ Hwf Hp Hid (encodable_zone _ u n Hr Hn)). reflexivity.
  Qed.

  (* every instant - repeated hour included - is recognised, with a Start that shows the same
     wall-clock reading (so that the name, and everything derived from it, is the same) *)
  Theorem recognised_zone f p u n :
    wf_format f = true -> name_ok p = true -> identifies (tokenize f) = true ->
    enc_ranges (tokenize f) (local_instant z u n) = true ->
    let r := decoded_unix (lz_of_zone z) (tokenize f) (local_instant z u n) in
    decode_zone z f (encode_go f p (local_instant z u n)) =
    Some (p, r, snd (trunc_start (tokenize f) (local_instant z u n)))
    /\ r + offset_at z r = u + offset_at z u.
  Proof.
    intros Hwf Hp Hid Hr. cbv zeta.
    assert (Hwall : decoded_unix (lz_of_zone z) (tokenize f) (local_instant z u n)
                    + offset_at z (decoded_unix (lz_of_zone z) (tokenize f) (local_instant z u n))
                    = u + offset_at z u).
    { unfold decoded_unix. cbn [local_instant i_unix i_off lz_of_zone lz_date].
      destruct (has Ts (tokenize f)); [reflexivity|].
      destruct (has Tz (tokenize f)).
      - replace (u + offset_at z u - offset_at z u) with u by lia. reflexivity.
      - exact (zone_date_same_wall u). }
    split; [|exact Hwall]. unfold decode_zone. apply roundtrip_wall; try assumption.
    intros _. exact Hwall.
  Qed.

  (* two instants of a repeated hour get the same file name when the format has neither %z nor %s *)
  Theorem collision_zone f p u n :
    forallb (fun k => negb (tok_eqb k (TLit 37))) (tokenize f) = true -> no37 p ->
    has Tz (tokenize f) = false -> has Ts (tokenize f) = false ->
    in_repeat (lookup z) u = true ->
    twin (lookup z) u <> u /\
    encode_go f p (local_instant z (twin (lookup z) u) n) = encode_go f p (local_instant z u n).
  Proof.
    intros Hns Hp Hz Hs Hrep. destruct (zone_repeat_collides u Hrep) as [Hne Hw]. split; [exact Hne|].
    rewrite !encode_go_tokens by assumption. unfold encode. apply render_ext.
    apply tok_text_same; cbn [local_instant i_unix i_ns i_off].
    - exact Hw.
    - intros _. reflexivity.
    - intros E. congruence.
    - intros E. congruence.
  Qed.
End Table.

(* exactly when, in a zone table: without %z / %s the instant comes back iff time.Date's rule picks
   the offset in force at it *)
Theorem roundtrip_zone_iff z f p u n :
  wf_format f = true -> name_ok p = true -> identifies (tokenize f) = true ->
  enc_ranges (tokenize f) (local_instant z u n) = true ->
  has Tz (tokenize f) = false -> has Ts (tokenize f) = false ->
  (decode_zone z f (encode_go f p (local_instant z u n)) =
     Some (p, u, snd (trunc_start (tokenize f) (local_instant z u n)))
   <-> go_date_off z (u + offset_at z u) = offset_at z u).
Proof.
  intros Hwf Hp Hid Hr Hz Hs. unfold decode_zone.
  exact (roundtrip_lz_iff (lz_of_zone z) f p (local_instant z u n) Hwf Hp Hid Hr Hz Hs eq_refl).
Qed.

(* in a zone table the Start that Decode computes for a name the recorder wrote always shows the
   wall-clock reading that was written (whatever the format) *)
Lemma decoded_wall_zone B z ts u n : zone_ok B z = true ->
  decoded_unix (lz_of_zone z) ts (local_instant z u n)
  + offset_at z (decoded_unix (lz_of_zone z) ts (local_instant z u n)) = u + offset_at z u.
Proof.
  intros Hok. unfold decoded_unix. cbn [local_instant i_unix i_off lz_of_zone lz_date].
  destruct (has Ts ts); [reflexivity|]. destruct (has Tz ts).
  - replace (u + offset_at z u - offset_at z u) with u by lia. reflexivity.
  - exact (zone_date_same_wall B z Hok u).
Qed.

(* ... and differs from the recorded instant by at most 2B (by exactly the size of the clock change,
   in a repeated hour; not at all outside) *)
Lemma decoded_near_zone B z ts u n : zone_ok B z = true ->
  Z.abs (decoded_unix (lz_of_zone z) ts (local_instant z u n) - u) <= 2 * B.
Proof.
  intros Hok. pose proof (decoded_wall_zone B z ts u n Hok) as H.
  pose proof (zHbound B z Hok u) as H1.
  pose proof (zHbound B z Hok (decoded_unix (lz_of_zone z) ts (local_instant z u n))) as H2.
  unfold offset_at in H. lia.
Qed.
