(* Path event loop: the hook LOG LINES (what an operator sees) are the exact expansion of the hook calls, so
   they alternate like the calls do (C20, observable form). *)
From Coq Require Import List ZArith Bool Lia.
Require Import MTX.Lib.Trace MTX.Model.PathSM MTX.Proofs.PathSM MTX.Proofs.PathSM_Attach MTX.Proofs.PathSM_List
  MTX.Proofs.PathSM_Thms MTX.Proofs.PathSM_Hooks MTX.Proofs.PathSM_Trace.
Import ListNotations.
Local Open Scope Z_scope.

Definition is_log (e : pevent) : bool :=
  match e with ELogStart _ | ELogStop _ | ELogLaunch _ => true | _ => false end.
Definition nolog (l : list pevent) : list pevent := filter (fun e => negb (is_log e)) l.
(* internal/hooks/*.go: what a hook call / closure call logs *)
Definition expand (cf : pconf) (e : pevent) : list pevent :=
  match e with
  | EOpen k => EOpen k :: open_logs k cf
  | EClose k => EClose k :: close_logs k cf
  | _ => [e]
  end.
(* the events of l are the expansion of its non-log events *)
Definition WE (cf : pconf) (l : list pevent) : Prop := l = flat_map (expand cf) (nolog l).

Lemma nolog_app a b : nolog (a ++ b) = nolog a ++ nolog b.
Proof. apply filter_app. Qed.
Lemma we_app cf a b : WE cf a -> WE cf b -> WE cf (a ++ b).
Proof. unfold WE. intros Ha Hb. rewrite nolog_app, flat_map_app, <- Ha, <- Hb. reflexivity. Qed.
Lemma we_nil cf : WE cf [].
Proof. reflexivity. Qed.

Definition plain (e : pevent) : bool := negb (is_log e) && negb (is_hook e).
Lemma we_plain cf l : forallb plain l = true -> WE cf l.
Proof.
  unfold WE. induction l as [|e l IH]; [reflexivity|]. cbn [forallb]. intros H.
  apply andb_prop in H. destruct H as [He Hl]. unfold nolog in *. cbn [filter].
  unfold plain in He. apply andb_prop in He. destruct He as [H1 H2]. rewrite H1. cbn [flat_map].
  rewrite <- IH by exact Hl. destruct e; try discriminate; reflexivity.
Qed.
Lemma nolog_open_logs k cf : nolog (open_logs k cf) = [].
Proof. unfold open_logs. destruct (h_start k cf); reflexivity. Qed.
Lemma nolog_close_logs k cf : nolog (close_logs k cf) = [].
Proof. unfold close_logs. destruct (h_start k cf), (h_un k cf); reflexivity. Qed.
Lemma we_open k cf : WE cf (EOpen k :: open_logs k cf).
Proof.
  unfold WE. change (EOpen k :: open_logs k cf) with ([EOpen k] ++ open_logs k cf) at 2.
  rewrite nolog_app, nolog_open_logs. cbn. rewrite app_nil_r. reflexivity.
Qed.
Lemma we_close k cf : WE cf (EClose k :: close_logs k cf).
Proof.
  unfold WE. change (EClose k :: close_logs k cf) with ([EClose k] ++ close_logs k cf) at 2.
  rewrite nolog_app, nolog_close_logs. cbn. rewrite app_nil_r. reflexivity.
Qed.

(* ---- handlers ------------------------------------------------------------------------------------------- *)
Definition WEm (m : M) : Prop :=
  forall s, WE (s_conf s) (snd (m s)) /\ s_conf (fst (m s)) = s_conf s.

Lemma wem_bind f g : WEm f -> WEm g -> WEm (f ;; g).
Proof.
  intros Hf Hg s. destruct (Hf s) as [A1 A2], (Hg (fst (f s))) as [B1 B2].
  rewrite snd_bind, fst_bind. split; [|congruence]. apply we_app; [exact A1|]. rewrite <- A2. exact B1.
Qed.
Lemma wem_when c m : WEm m -> WEm (whenM c m).
Proof. intros H s. unfold whenM. destruct (c s); [apply H|split; [apply we_nil|reflexivity]]. Qed.
Lemma wem_if (c : pstate -> bool) (m1 m2 : M) : WEm m1 -> WEm m2 -> WEm (fun s => if c s then m1 s else m2 s).
Proof. intros H1 H2 s. destruct (c s); [apply H1|apply H2]. Qed.
Lemma wem_plain (m : M) :
  (forall s, forallb plain (snd (m s)) = true /\ s_conf (fst (m s)) = s_conf s) -> WEm m.
Proof. intros H s. destruct (H s) as [A B]. split; [apply we_plain, A|exact B]. Qed.
Lemma wem_hook_open k : WEm (hook_open k).
Proof. intros s. split; [apply we_open|reflexivity]. Qed.
Lemma wem_hook_close k : WEm (hook_close k).
Proof. intros s. split; [apply we_close|reflexivity]. Qed.
Lemma wem_modify f : (forall s, s_conf (f s) = s_conf s) -> WEm (modify f).
Proof. intros H s. split; [apply we_nil|apply H]. Qed.
Ltac wset := apply wem_modify; let t := fresh "t" in intros t; destruct t; reflexivity.
Lemma wem_emit e : forallb plain e = true -> WEm (emit e).
Proof. intros H s. split; [apply we_plain, H|reflexivity]. Qed.
Lemma wem_ret : WEm ret.
Proof. intros s. split; [apply we_nil|reflexivity]. Qed.
Lemma wem_panic : WEm panic.
Proof. intros s. split; [apply we_plain; reflexivity|destruct s; reflexivity]. Qed.
Ltac wbind := lazymatch goal with |- WEm (_ ;; _) => apply wem_bind end.

Lemma plain_map_closed l : forallb plain (map EReaderClosed l) = true.
Proof. induction l; [reflexivity|exact IHl]. Qed.
Lemma plain_map_ans1 (f : Z -> ans) l : forallb plain (map (fun q => EAnswer q (f q)) l) = true.
Proof. induction l; [reflexivity|exact IHl]. Qed.
Lemma plain_map_ans2 (f : Z * Z -> ans) l : forallb plain (map (fun qr => EAnswer (fst qr) (f qr)) l) = true.
Proof. induction l; [reflexivity|exact IHl]. Qed.

Lemma wem_set_offline : WEm set_offline.
Proof.
  change set_offline with (fun s => if s_hOffline s then (hook_close HOnline ;; modify (set_hOffline false)) s else ret s).
  apply wem_if; [wbind; [apply wem_hook_close|wset]|apply wem_ret].
Qed.
Lemma wem_set_online : WEm set_online.
Proof. unfold set_online. repeat wbind; [apply wem_set_offline|apply wem_hook_open|wset]. Qed.
Lemma wem_set_available : WEm set_available.
Proof.
  intros s. unfold set_available.
  assert (Q : WEm (modify (fun s0 => set_sub (if aa s0 then SOffline else SNone)
                                       (set_stream (Some (s_nextgen s)) (set_nextgen (s_nextgen s + 1) s0)));;
                   hook_open HAvail;; modify (set_hUnavail true);; whenM not_aa set_online;; emit [EPathReady (s_nextgen s)])).
  { repeat wbind; [wset|apply wem_hook_open|wset|apply wem_when, wem_set_online|apply wem_emit; reflexivity]. }
  apply Q.
Qed.
Lemma wem_call_unavailable : WEm call_unavailable.
Proof.
  change call_unavailable with (fun s => if s_hUnavail s then hook_close HAvail s else panic s).
  apply wem_if; [apply wem_hook_close|apply wem_panic].
Qed.
Lemma wem_reset : WEm (fun s => (set_readers [] s, map EReaderClosed (s_readers s))).
Proof. apply wem_plain. intros s. split; [apply plain_map_closed|destruct s; reflexivity]. Qed.
Lemma wem_sna : WEm set_not_available.
Proof.
  unfold set_not_available. repeat wbind;
    [apply wem_emit; reflexivity|apply wem_set_offline|apply wem_reset|apply wem_call_unavailable|wset].
Qed.
Lemma wem_source_gone : WEm source_gone.
Proof.
  assert (P : WEm (set_offline ;; start_offline)) by (wbind; [apply wem_set_offline|unfold start_offline; wset]).
  intros s. unfold source_gone. destruct (aa s); [apply P|apply wem_sna].
Qed.
Lemma wem_erp : WEm execute_remove_publisher.
Proof. unfold execute_remove_publisher. wbind; [apply wem_source_gone|wset]. Qed.
Lemma wem_handler_start : WEm handler_start.
Proof. apply wem_plain. intros s. unfold handler_start, panic. destruct s; cbn. destruct s_ssRunning; split; reflexivity. Qed.
Lemma wem_handler_stop : WEm handler_stop.
Proof. apply wem_plain. intros s. unfold handler_stop, panic. destruct s; cbn. destruct s_ssRunning; split; reflexivity. Qed.
Lemma wem_ss_start : WEm ss_start.
Proof. unfold ss_start. wbind; [apply wem_handler_start|wset]. Qed.
Lemma wem_ss_schedule_close : WEm ss_schedule_close.
Proof. unfold ss_schedule_close. wset. Qed.
Lemma wem_ss_stop : WEm ss_stop.
Proof. unfold ss_stop. repeat wbind; [apply wem_when; wset|wset|apply wem_handler_stop]. Qed.
Lemma wem_pub_start : WEm pub_start.
Proof. unfold pub_start. repeat wbind; [apply wem_hook_open|wset|wset]. Qed.
Lemma wem_pub_schedule_close : WEm pub_schedule_close.
Proof. unfold pub_schedule_close. wset. Qed.
Lemma wem_pub_stop : WEm pub_stop.
Proof.
  unfold pub_stop. repeat wbind; [apply wem_when; wset| |wset].
  apply (wem_if (fun s => s_hUnDemand s)); [wbind; [apply wem_hook_close|wset]|apply wem_panic].
Qed.
Lemma wem_fail_on_hold c : WEm (fail_on_hold c).
Proof.
  apply wem_plain. intros s. unfold fail_on_hold. cbn [fst snd]. split; [|destruct s; reflexivity].
  rewrite forallb_app, plain_map_ans1, plain_map_ans2. reflexivity.
Qed.
Lemma wem_arp q r : WEm (add_reader_post q r).
Proof.
  apply wem_plain. intros s. unfold add_reader_post. destruct (mem r (s_readers s)); [split; reflexivity|].
  destruct (negb (c_maxr (s_conf s) =? 0) && (c_maxr (s_conf s) <=? Z.of_nat (length (s_readers s)))); [split; reflexivity|].
  cbn [fst snd]. split; [reflexivity|]. destruct (bump_conf_readers (set_readers (s_readers s ++ [r]) s)) as [A _].
  rewrite A. destruct s; reflexivity.
Qed.
Lemma wem_arps l : WEm (add_readers_post l).
Proof. induction l as [|[q r] l IH]; [apply wem_ret|]. cbn [add_readers_post]. wbind; [apply wem_arp|exact IH]. Qed.
Lemma wem_consume : WEm consume_on_hold.
Proof.
  intros s. unfold consume_on_hold.
  assert (Q : WEm ((fun s0 => (set_dhold [] s0, map (fun q => EAnswer q (AStream (cur_stream s0))) (s_dhold s0)));;
                   add_readers_post (s_rhold s);; modify (set_rhold []))).
  { repeat wbind; [|apply wem_arps|wset].
    apply wem_plain. intros t. cbn [fst snd]. split; [apply plain_map_ans1|destruct t; reflexivity]. }
  apply Q.
Qed.
Lemma wem_answer (f : pstate -> list pevent) : (forall s, forallb plain (f s) = true) -> WEm (fun s => (s, f s)).
Proof. intros H. apply wem_plain. intros s. split; [apply H|reflexivity]. Qed.

Lemma wem_attach_tail q p : WEm (attach_tail q p).
Proof.
  unfold attach_tail. repeat wbind;
    [wset|wset|apply wem_when, wem_set_online|apply wem_when; wbind; [wset|apply wem_pub_schedule_close]|apply wem_consume|].
  apply (wem_answer (fun s => [EAnswer q (AStream (cur_stream s))])). reflexivity.
Qed.
Lemma wem_attach q p ok : WEm (attach_publisher q p ok).
Proof.
  unfold attach_publisher. wbind; [apply wem_when, wem_set_available|].
  intros s. cbn beta. destruct (aa s && negb ok); [split; [apply we_plain|]; reflexivity|apply wem_attach_tail].
Qed.

Lemma wem_step fx o : WEm (fun s => step_gen fx s o).
Proof.
  intros s. unfold step_gen. destruct (s_closed s).
  { split; [|reflexivity]. apply we_plain. destruct o; reflexivity. }
  destruct o.
  - (* Describe *) unfold do_describe. destruct (s_stream s); [split; [apply we_plain|]; reflexivity|].
    destruct (od_static (s_conf s)); [apply (wem_bind _ _ (wem_when _ _ wem_ss_start)); wset|].
    destruct (od_pub (s_conf s)); [apply (wem_bind _ _ (wem_when _ _ wem_pub_start)); wset|].
    split; [apply we_plain|]; reflexivity.
  - (* AddPublisher *) unfold do_add_publisher. destruct (c_static (s_conf s)); [split; [apply we_plain|]; reflexivity|].
    destruct (s_source s) as [old|]; [|apply wem_attach].
    destruct (negb (c_override (s_conf s))); [split; [apply we_plain|]; reflexivity|].
    apply (wem_bind _ _ (wem_emit [EPubClosed old] eq_refl) (wem_bind _ _ wem_erp (wem_attach q p ok))).
  - (* RemovePublisher *) unfold do_remove_publisher. destruct (s_source s); [|split; [apply we_nil|reflexivity]].
    destruct (z =? p); [|split; [apply we_nil|reflexivity]].
    apply (wem_bind _ _ wem_erp (wem_when _ _ wem_pub_stop)).
  - (* AddReader *) unfold do_add_reader. destruct (s_stream s); [apply wem_arp|].
    destruct (od_static (s_conf s)); [apply (wem_bind _ _ (wem_when _ _ wem_ss_start)); wset|].
    destruct (od_pub (s_conf s)); [apply (wem_bind _ _ (wem_when _ _ wem_pub_start)); wset|].
    split; [apply we_plain|]; reflexivity.
  - (* RemoveReader *) unfold do_remove_reader.
    refine (wem_bind _ _ _ _ s); [apply wem_when; wset|]. apply wem_when. intros t.
    destruct (od_static (s_conf t)); [apply (wem_when _ _ wem_ss_schedule_close)|].
    destruct (od_pub (s_conf t)); [apply (wem_when _ _ wem_pub_schedule_close)|split; [apply we_nil|reflexivity]].
  - (* StaticReady *) unfold do_static_ready. destruct (s_ssRunning s && negb (s_instReady s)); [|split; [apply we_nil|reflexivity]].
    refine (wem_bind _ _ (wem_when _ _ wem_set_available) (wem_bind _ _ _ (wem_bind _ _ (wem_when _ _ wem_set_online)
             (wem_bind _ _ _ (wem_bind _ _ wem_consume (wem_bind _ _ _ _))))) s);
      [wset|apply wem_when; wbind; [wset|apply wem_ss_schedule_close]|wset|].
    apply (wem_answer (fun s => [EAnswer q (AStream (cur_stream s))])). reflexivity.
  - (* StaticNotReady *) unfold do_static_not_ready. destruct (s_ssRunning s && s_instReady s); [|split; [apply we_nil|reflexivity]].
    refine (wem_bind _ _ wem_source_gone (wem_bind _ _ _ (wem_when _ _ wem_ss_stop)) s). wset.
  - (* TimerFire *) unfold do_timer. destruct (timer_armed t s); [|split; [apply we_nil|reflexivity]].
    refine (wem_bind _ _ _ (wem_bind _ _ (wem_emit [EFired t] _) _) s); [destruct t; wset|destruct t; reflexivity|].
    destruct t; repeat wbind; first [apply wem_fail_on_hold|apply wem_ss_stop|apply wem_sna|apply wem_pub_stop].
  - split; [apply we_nil|reflexivity].
  - (* Close *) unfold do_close.
    refine (wem_bind _ _ (wem_emit [ERemovePath] eq_refl) (wem_bind _ _ _ (wem_bind _ _ (wem_fail_on_hold _)
             (wem_bind _ _ _ (wem_bind _ _ _ (wem_bind _ _ _ _))))) s); [wset| | | |wset].
    + intros t. unfold close_source. destruct (c_static (s_conf t)).
      * destruct (negb (c_sod (s_conf t)) || negb (ods_eqb (s_ssState t) OdInitial)); [apply wem_handler_stop|split; [apply we_nil|reflexivity]].
      * destruct (s_source t); split; try reflexivity; apply we_plain; reflexivity.
    + intros t. unfold close_demand. destruct (s_hUnDemand t); [|split; [apply we_nil|reflexivity]].
      apply (wem_bind _ _ (wem_hook_close HDemand)). wset.
    + intros t. unfold close_stream. destruct (s_stream t); [apply wem_sna|split; [apply we_nil|reflexivity]].
Qed.

(* ---- histories ---------------------------------------------------------------------------------------- *)
Lemma we_trace fx ops : forall s, WE (s_conf s) (trace (step_gen fx) s ops).
Proof.
  induction ops as [|o r IH]; intros s; [apply we_nil|].
  rewrite trace_cons. destruct (wem_step fx o s) as [A B]. apply we_app; [exact A|].
  cbn beta in B. rewrite <- B. apply IH.
Qed.

Lemma we_run fx cf ops : WE cf (snd (run_gen fx cf ops)).
Proof.
  unfold run_gen. cbn [snd]. apply we_app.
  - assert (W : WEm init_m).
    { unfold init_m. wbind; [apply wem_when, wem_set_available|apply wem_when, wem_handler_start]. }
    apply (W (init_base cf)).
  - pose proof (we_trace fx ops (init_state cf)) as T. destruct (init_fields cf) as [_ E]. rewrite E in T. exact T.
Qed.

(* classification of the log lines of pair k: "runOnX command started" opens, "... stopped" closes *)
Definition cls_log (k : hk) (e : pevent) : option bool :=
  match e with
  | ELogStart k' => if hk_eqb k k' then Some true else None
  | ELogStop k' => if hk_eqb k k' then Some false else None
  | _ => None
  end.
(* "runOnX command started" opens, "runOnUnX command launched" closes *)
Definition cls_launch (k : hk) (e : pevent) : option bool :=
  match e with
  | ELogStart k' => if hk_eqb k k' then Some true else None
  | ELogLaunch k' => if hk_eqb k k' then Some false else None
  | _ => None
  end.

Lemma hk_eqb_true a b : hk_eqb a b = true -> a = b.
Proof. destruct a, b; cbn; congruence. Qed.

Lemma mon_skip (cls : pevent -> option bool) b l :
  (forall e, In e l -> cls e = None) -> mon_run (alt_mon cls) b l = Some b.
Proof.
  induction l as [|e l IH]; intros H; [reflexivity|]. cbn [mon_run]. unfold alt_mon at 1.
  rewrite (H e (or_introl eq_refl)). apply IH. intros x Hx. apply H. right; exact Hx.
Qed.

Lemma expand_step cf k e b : h_start k cf = true -> negb (is_log e) = true ->
  mon_run (alt_mon (cls_log k)) b (expand cf e) = alt_mon (cls_call k) b e.
Proof.
  intros Hs El. destruct e; try discriminate El; try reflexivity.
  - unfold expand, open_logs. destruct k, k0; cbn in Hs |- *; rewrite ?Hs; destruct b;
      repeat match goal with |- context [if ?c then _ else _] => destruct c end; reflexivity.
  - unfold expand, close_logs. destruct k, k0; cbn in Hs |- *; rewrite ?Hs; destruct b;
      repeat match goal with |- context [if ?c then _ else _] => destruct c end; reflexivity.
Qed.

Lemma expand_log cf k l : h_start k cf = true ->
  forall b, mon_run (alt_mon (cls_log k)) b (flat_map (expand cf) (nolog l))
            = mon_run (alt_mon (cls_call k)) b (nolog l).
Proof.
  intros Hs. unfold nolog. induction l as [|e l IH]; intros b; [reflexivity|].
  cbn [filter]. destruct (negb (is_log e)) eqn:El; [|apply IH].
  cbn [flat_map]. rewrite mon_run_app, (expand_step cf k e b Hs El). cbn [mon_run].
  destruct (alt_mon (cls_call k) b e); [apply IH|reflexivity].
Qed.

Lemma calls_nolog k b l : mon_run (alt_mon (cls_call k)) b (nolog l) = mon_run (alt_mon (cls_call k)) b l.
Proof.
  revert b. unfold nolog. induction l as [|e l IH]; intros b; [reflexivity|]. cbn [filter].
  destruct (negb (is_log e)) eqn:El.
  - cbn [mon_run]. destruct (alt_mon (cls_call k) b e); [apply IH|reflexivity].
  - cbn [mon_run]. assert (Hn : cls_call k e = None) by (destruct e; try discriminate El; reflexivity).
    unfold alt_mon at 2. rewrite Hn. apply IH.
Qed.

(* with runOnX configured, the "started"/"stopped" lines of pair k alternate along every history, the pair
   being open at the end iff the state says so *)
Lemma c20_logs fx cf ops k :
  conf_ok cf = true -> h_start k cf = true ->
  mon_run (alt_mon (cls_log k)) false (snd (run_gen fx cf ops)) = Some (open_of k (fst (run_gen fx cf ops))).
Proof.
  intros Hc Hs. rewrite (we_run fx cf ops) at 1. rewrite (expand_log cf k _ Hs), calls_nolog.
  apply c20_calls. exact Hc.
Qed.

Lemma c20_logs_alternate fx cf ops k :
  conf_ok cf = true -> h_start k cf = true -> alternates (cls_log k) (snd (run_gen fx cf ops)).
Proof. intros Hc Hs. apply alt_from_iff. eexists. apply c20_logs; assumption. Qed.

Lemma c20_logs_closed_after_close fx cf pre post k :
  conf_ok cf = true -> h_start k cf = true ->
  alternates_closed (cls_log k) (snd (run_gen fx cf (pre ++ Close :: post))).
Proof.
  intros Hc Hs. unfold alternates_closed. rewrite c20_logs by assumption.
  pose proof (c20_closed_after_close fx cf pre post k Hc) as H. unfold alternates_closed in H.
  rewrite c20_calls in H by exact Hc. exact H.
Qed.
