(* Proofs for Model/C40_HlsLoop.v: with the queued path events (fix 029c0b4) EVERY state that is not quiescent has an
   enabled step of one of the loops, every schedule is finite, quiescence is reached; with the unbuffered send of the
   pinned code three cycles are reachable. *)
From Coq Require Import List Arith Bool Lia.
Require Import MTX.Model.C40_HlsLoop.
Import ListNotations.
Import HL.

Lemma sum_app {A} (w : A -> nat) a b : sum w (a ++ b) = sum w a + sum w b.
Proof. induction a as [|x a IH]; simpl; [reflexivity|]. rewrite IH. lia. Qed.

Lemma sum_set_nth {A} (w : A -> nat) l : forall i x y, nth_error l i = Some x ->
  sum w (set_nth i y l) + w x = sum w l + w y.
Proof.
  induction l as [|a l IH]; intros [|i] x y H; simpl in *; try discriminate.
  - inversion H; subst. lia.
  - specialize (IH i x y H). lia.
Qed.

Lemma find_pa l : forallb is_idle l = true \/ exists p, nth_error l p = Some PaNotify.
Proof.
  induction l as [|a l IH]; simpl; [left; reflexivity|].
  destruct a; simpl.
  - destruct IH as [IH|[p IH]]; [left; exact IH|right; exists (S p); exact IH].
  - right. exists 0. reflexivity.
Qed.

Lemma all_idle_nth l : forallb is_idle l = true -> forall p, is_idle (nth p l PaIdle) = true.
Proof.
  induction l as [|a l IH]; intros H p; simpl in *; [destruct p; reflexivity|].
  apply andb_prop in H. destruct H as [Ha Hl]. destruct p; [exact Ha|apply IH; exact Hl].
Qed.

Lemma find_mx l : forallb mutex_free l = true \/ exists m x, nth_error l m = Some x /\ mutex_free x = false.
Proof.
  induction l as [|a l IH]; simpl; [left; reflexivity|].
  destruct (mutex_free a) eqn:E; simpl.
  - destruct IH as [IH|(m & x & H)]; [left; exact IH|right; exists (S m), x; exact H].
  - right. exists 0, a. split; [reflexivity|exact E].
Qed.

(* ---- progress, for every state ---------------------------------------------------------------------------------- *)
Theorem progress s : quiescentb s = true \/ exists l s', internal l = true /\ step true s l = Some s'.
Proof.
  destruct s as [pm hs mxs pas hq wrk lst kck].
  destruct pm as [| |p].
  2: { right. exists LPmHandled. eexists. split; reflexivity. }
  2: { right. exists (LPmNotified false). eexists. split; reflexivity. }
  destruct wrk as [|k].
  2: { right. exists LPmRecvCall. eexists. split; reflexivity. }
  destruct (find_pa pas) as [Hpa|[p Hp]].
  2: { right. exists (LPmRecvNotify p). eexists. split; [reflexivity|]. simpl. rewrite Hp. reflexivity. }
  pose proof (all_idle_nth pas Hpa) as Hidle.
  destruct (find_mx mxs) as [Hmx|(m & x & Hm & Hx)].
  2: { right. destruct x as [p|p|p|p|]; try discriminate.
       - exists (LPmServeAdd m). eexists. split; [reflexivity|]. simpl. rewrite Hm. reflexivity.
       - exists (LPaServeAdd m true). eexists. split; [reflexivity|]. simpl. rewrite Hm.
         unfold pa_at. simpl. rewrite Hidle. reflexivity.
       - exists (LMxExitDone m false). eexists. split; [reflexivity|]. simpl. rewrite Hm.
         unfold pa_at. simpl. rewrite Hidle. reflexivity. }
  destruct hs as [|p| |p|p].
  - destruct hq as [|p r].
    2: { right. exists (LHsDrain false). eexists. split; reflexivity. }
    destruct lst as [|k].
    2: { right. exists LHsRecvList. eexists. split; reflexivity. }
    destruct kck as [|p r].
    2: { right. exists LHsRecvKick. eexists. split; reflexivity. }
    left. unfold quiescentb, all_free. simpl. rewrite Hpa, Hmx. reflexivity.
  - right. exists LHsCreated. eexists. split; reflexivity.
  - right. exists LHsListDone. eexists. split; [reflexivity|]. unfold step, all_free. simpl. rewrite Hmx. reflexivity.
  - right. exists LHsKickLocked. eexists. split; [reflexivity|]. unfold step, all_free. simpl. rewrite Hmx. reflexivity.
  - right. exists LHsKickDone. eexists. split; [reflexivity|]. unfold step, pa_at. simpl. rewrite Hidle. reflexivity.
Qed.

(* ---- every internal step takes something away (both variants) --------------------------------------------------- *)
Lemma step_decreases q s l s' : internal l = true -> step q s l = Some s' -> measure s' < measure s.
Proof.
  intros Hi H. destruct s as [pm hs mxs pas hq wrk lst kck].
  destruct l; try discriminate; unfold step in H; simpl in H.
  - destruct pm; try discriminate. destruct wrk; [discriminate|]. inversion H; subst. unfold measure; simpl. lia.
  - destruct pm; try discriminate. inversion H; subst. unfold measure; simpl. lia.
  - destruct pm; try discriminate. destruct (nth_error pas p) as [[|]|] eqn:E; try discriminate.
    inversion H; subst. unfold measure; simpl. pose proof (sum_set_nth wpa pas p _ PaIdle E). simpl in *. lia.
  - destruct pm; try discriminate. destruct q.
    + inversion H; subst. unfold measure; simpl. rewrite app_length. simpl. lia.
    + destruct hs; try discriminate. inversion H; subst. unfold measure; simpl. destruct create; simpl; lia.
  - destruct q; [|discriminate]. destruct hs; try discriminate. destruct hq; [discriminate|].
    inversion H; subst. unfold measure; simpl. destruct create; simpl; lia.
  - destruct hs; try discriminate. inversion H; subst. unfold measure; simpl. rewrite sum_app. simpl. lia.
  - destruct pm; try discriminate. destruct (nth_error mxs m) as [[p|p|p|p|]|] eqn:E; try discriminate.
    inversion H; subst. unfold measure; simpl. pose proof (sum_set_nth wmx mxs m _ (MxAtPath p) E). simpl in *. lia.
  - destruct (nth_error mxs m) as [[p|p|p|p|]|] eqn:E; try discriminate.
    destruct (is_idle _); [|discriminate]. inversion H; subst. unfold measure; simpl.
    pose proof (sum_set_nth wmx mxs m _ (if ok then MxUp p else MxGone) E). destruct ok; simpl in *; lia.
  - destruct (nth_error mxs m) as [[p|p|p|p|]|] eqn:E; try discriminate.
    destruct (is_idle _); [|discriminate]. inversion H; subst. unfold measure; simpl.
    pose proof (sum_set_nth wmx mxs m _ (if back then MxUp p else MxGone) E). destruct back; simpl in *; lia.
  - destruct hs; try discriminate. destruct lst; [discriminate|]. inversion H; subst. unfold measure; simpl. lia.
  - destruct hs; try discriminate. destruct (all_free _); [|discriminate]. inversion H; subst. unfold measure; simpl. lia.
  - destruct hs; try discriminate. destruct kck; [discriminate|]. inversion H; subst. unfold measure; simpl. lia.
  - destruct hs; try discriminate. destruct (all_free _); [|discriminate]. inversion H; subst. unfold measure; simpl. lia.
  - destruct hs; try discriminate. destruct (is_idle _); [|discriminate]. inversion H; subst. unfold measure; simpl. lia.
Qed.

Theorem internal_run_bounded q ls : forall s s',
  forallb internal ls = true -> run q s ls = Some s' -> length ls + measure s' <= measure s.
Proof.
  induction ls as [|l t IH]; intros s s' Ha Hr; simpl in *.
  - inversion Hr; subst. lia.
  - apply andb_prop in Ha. destruct Ha as [Hl Ha]. destruct (step q s l) as [s1|] eqn:E; [|discriminate].
    pose proof (step_decreases q s l s1 Hl E). specialize (IH s1 s' Ha Hr). lia.
Qed.

Theorem completes s :
  exists ls s', forallb internal ls = true /\ run true s ls = Some s' /\ quiescentb s' = true /\ length ls <= measure s.
Proof.
  remember (measure s) as n eqn:En. revert s En.
  induction n as [n IH] using lt_wf_ind. intros s En.
  destruct (progress s) as [Q|(l & s1 & Hi & Hs)].
  - exists [], s. repeat split; auto. simpl. lia.
  - pose proof (step_decreases true s l s1 Hi Hs) as Hd.
    destruct (IH (measure s1) ltac:(lia) s1 eq_refl) as (ls & s' & Ha & Hr & Q & Hl).
    exists (l :: ls), s'. simpl. rewrite Hi, Hs. repeat split; auto. lia.
Qed.

Theorem stuck_quiescent s : (forall l, internal l = true -> step true s l = None) -> quiescentb s = true.
Proof.
  intros H. destruct (progress s) as [Q|(l & s' & Hi & Hs)]; [exact Q|]. rewrite (H l Hi) in Hs. discriminate.
Qed.

Lemma run_reachable q ls : forall s s', reachable q s -> run q s ls = Some s' -> reachable q s'.
Proof.
  induction ls as [|l t IH]; intros s s' R H; simpl in H.
  - inversion H; subst; exact R.
  - destruct (step q s l) as [s1|] eqn:E; [|discriminate]. eapply IH; [eapply r_step; eassumption|exact H].
Qed.

(* ---- the pinned code: three cycles ------------------------------------------------------------------------------ *)
(* A1 (the reported one): a muxer is being created for path 0 while pathManager.run is in a handler; path 1 changes
   state; an API listing arrives; pathManager.run takes path 1's notification first *)
Definition trace_a1 : list label :=
  [LPath; LPath; LNotify 0; LPmRecvNotify 0; LPmNotified true; LCall; LPmRecvCall; LHsCreated; LNotify 1; LList;
   LHsRecvList; LPmHandled; LPmRecvNotify 1].
Definition stuck_a1 : state := mk (PmNotify 1) HsAtMutex [MxInit 0] [PaIdle; PaIdle] [] 0 0 [].

(* A2: a running muxer holds its mutex in session.close2 -> path.RemoveReader of path 0, whose loop is itself waiting
   to notify pathManager.run, which is delivering path 1's notification to hls.Server.run, which serves a listing *)
Definition trace_a2 : list label :=
  [LPath; LPath; LNotify 0; LPmRecvNotify 0; LPmNotified true; LHsCreated; LPmServeAdd 0; LPaServeAdd 0 true;
   LCall; LPmRecvCall; LMuxClose 0; LNotify 0; LNotify 1; LList; LHsRecvList; LPmHandled; LPmRecvNotify 1].
Definition stuck_a2 : state := mk (PmNotify 1) HsAtMutex [MxExit 0] [PaNotify; PaIdle] [] 0 0 [].

(* A3: no muxer mutex at all: hls.Server.run serves a kick and is inside path.RemoveReader of path 0 *)
Definition trace_a3 : list label :=
  [LPath; LPath; LCall; LPmRecvCall; LKick 0; LHsRecvKick; LHsKickLocked; LNotify 0; LNotify 1; LPmHandled;
   LPmRecvNotify 1].
Definition stuck_a3 : state := mk (PmNotify 1) (HsAtPath 0) [] [PaNotify; PaIdle] [] 0 0 [].

Lemma a1_run : run false init trace_a1 = Some stuck_a1. Proof. reflexivity. Qed.
Lemma a2_run : run false init trace_a2 = Some stuck_a2. Proof. reflexivity. Qed.
Lemma a3_run : run false init trace_a3 = Some stuck_a3. Proof. reflexivity. Qed.

Ltac no_step :=
  let l := fresh "l" in let Hi := fresh "Hi" in
  intros l Hi; destruct l; try discriminate Hi; unfold step; simpl; try reflexivity;
  repeat match goal with
         | |- context[nth_error _ ?x] => is_var x; destruct x; simpl; try reflexivity
         end.

Lemma a1_no_step : forall l, internal l = true -> step false stuck_a1 l = None.
Proof. no_step. Qed.
Lemma a2_no_step : forall l, internal l = true -> step false stuck_a2 l = None.
Proof. no_step. Qed.
Lemma a3_no_step : forall l, internal l = true -> step false stuck_a3 l = None.
Proof. no_step. Qed.

Lemma a1_reachable : reachable false stuck_a1.
Proof. eapply run_reachable; [constructor|exact a1_run]. Qed.
Lemma a2_reachable : reachable false stuck_a2.
Proof. eapply run_reachable; [constructor|exact a2_run]. Qed.
Lemma a3_reachable : reachable false stuck_a3.
Proof. eapply run_reachable; [constructor|exact a3_run]. Qed.

(* the same schedules with the queue: pathManager.run is back in its select, everything winds down *)
Definition trace_a1_queued : list label :=
  [LPath; LPath; LNotify 0; LPmRecvNotify 0; LPmNotified true; LHsDrain true; LCall; LPmRecvCall; LHsCreated; LNotify 1;
   LList; LHsRecvList; LPmHandled; LPmRecvNotify 1;
   LPmNotified false; LPmServeAdd 0; LPaServeAdd 0 true; LHsListDone; LHsDrain false].

Lemma a1_with_queue :
  match run true init trace_a1_queued with
  | Some s => quiescentb s = true /\ mxs s = [MxUp 0]
  | None => False
  end.
Proof. vm_compute. split; reflexivity. Qed.
