(* Proofs about Model/C32_Moq.v, part 5: the statements of Props/C32.v *)
From Coq Require Import List ZArith Lia Bool ZifyBool.
Require Import MTX.Lib.IntWrap MTX.Model.C32_Moq MTX.Proofs.C32_Varint MTX.Proofs.C32_Types
  MTX.Proofs.C32_Msg MTX.Proofs.C32_Subgroup.
Import ListNotations.
Local Open Scope Z_scope.

Lemma varint_roundtrip_Z v rest : 0 <= v < 2 ^ 64 -> dec_varint (enc_varint v ++ rest) = Ok v rest.
Proof. apply varint_roundtrip. Qed.

Lemma varint_read_roundtrip v rest : 0 <= v < 2 ^ 64 -> read_varint (enc_varint v ++ rest) = Ok v rest.
Proof. intros H. rewrite read_varint_eq. now apply varint_roundtrip. Qed.

Lemma varint_canonical_Z v : 0 <= v < 2 ^ 64 ->
  len (enc_varint v) = varint_len v /\
  forall buf rest, Forall (fun b => 0 <= b < 256) buf -> dec_varint buf = Ok v rest ->
                   varint_len v <= len buf - len rest.
Proof. apply varint_canonical. Qed.

(* the decoders of the family, as one function of a selector *)
Inductive decoder :=
| DecVarintUnmarshal | DecVarintRead | DecNamespace | DecParameters (count : Z) | DecProperties
| DecMessage | DecSubgroup.

(* outcome class of a decoder run: the value is forgotten *)
Inductive oclass := COk | CErr | CPanic | COveralloc (n : Z).
Definition class_of {A} (r : res A) : oclass :=
  match r with Ok _ _ => COk | Err => CErr | Panic => CPanic | Overalloc n => COveralloc n end.

Definition run_decoder (d : decoder) (input : bytes) : oclass :=
  match d with
  | DecVarintUnmarshal => class_of (dec_varint input)
  | DecVarintRead => class_of (read_varint input)
  | DecNamespace => class_of (dec_namespace input)
  | DecParameters c => class_of (dec_parameters c input)
  | DecProperties => class_of (dec_properties input)
  | DecMessage => class_of (read_msg input)
  | DecSubgroup => class_of (read_subgroup input)
  end.

Lemma safe_class {A} (r : res A) n : safe r n -> class_of r = COk \/ class_of r = CErr.
Proof. destruct r; cbn; intros H; auto; contradiction. Qed.

Lemma run_decoder_safe d input :
  Forall (fun b => 0 <= b < 256) input -> len input < 2 ^ 63 ->
  run_decoder d input = COk \/ run_decoder d input = CErr.
Proof.
  intros Hb Hl. change (Forall is_byte input) in Hb. change (len input < two63) in Hl.
  destruct d; cbn [run_decoder].
  - destruct (dec_varint_inv input Hb) as [E|(v & r & E & _)]; rewrite E; cbn; auto.
  - destruct (read_varint_inv input Hb) as [E|(v & r & E & _)]; rewrite E; cbn; auto.
  - eapply safe_class, dec_namespace_safe; assumption.
  - eapply safe_class, dec_parameters_safe; assumption.
  - eapply safe_class, dec_properties_safe; assumption.
  - eapply safe_class, read_msg_safe; assumption.
  - eapply safe_class, read_subgroup_safe; assumption.
Qed.

Lemma no_panic d input :
  Forall (fun b => 0 <= b < 256) input -> len input < 2 ^ 63 -> run_decoder d input <> CPanic.
Proof. intros Hb Hl. destruct (run_decoder_safe d input Hb Hl) as [E|E]; rewrite E; discriminate. Qed.

Lemma alloc_bound d input n :
  Forall (fun b => 0 <= b < 256) input -> len input < 2 ^ 63 -> run_decoder d input <> COveralloc n.
Proof. intros Hb Hl. destruct (run_decoder_safe d input Hb Hl) as [E|E]; rewrite E; discriminate. Qed.

(* the 16-bit length field: a well-formed REQUEST_ERROR whose reason makes the payload 65536 bytes
   is marshalled with length 0 and does not read back *)
Definition big_reason_msg : msg := MRequestError 16 (repeat 114 (Z.to_nat 65531)).

Lemma msg_roundtrip_refuted :
  exists m, wf_msgb m = true /\ len (enc_payload m) = 65536 /\ read_msg (enc_msg m) = Err.
Proof. exists big_reason_msg. vm_compute. repeat split. Qed.

Lemma msg_roundtrip_guarded m rest :
  wf_msgb m = true -> (len (enc_payload m) <? 2 ^ 16) = true -> read_msg (enc_msg m ++ rest) = Ok m rest.
Proof. intros Hwf Hl. apply msg_roundtrip; [exact Hwf|]. change (2 ^ 16) with 65536 in Hl. lia. Qed.
