(* Proofs about Model/C11_Clone.v: the clone produced by the repaired deepClone lives in
   fresh cells only, has the same shape, and no edit through it can change the original. *)
From Coq Require Import List ZArith Bool Lia Arith.
Require Import MTX.Lib.Heap MTX.Model.C11_Clone.
Import ListNotations.

(* ---- small list facts ---- *)
Lemma Forall2_imp {A B} (R R' : A -> B -> Prop) l l' :
  (forall x y, R x y -> R' x y) -> Forall2 R l l' -> Forall2 R' l l'.
Proof. intros HRR H; induction H; constructor; auto. Qed.

Lemma Forall2_imp_Forall {A B} (P : A -> Prop) (R R' : A -> B -> Prop) l l' :
  (forall x y, P x -> R x y -> R' x y) -> Forall P l -> Forall2 R l l' -> Forall2 R' l l'.
Proof.
  intros HRR HP H; induction H; constructor; inversion HP; subst; auto.
Qed.

Lemma nth_error_snoc {A} (l : list A) x : nth_error (l ++ [x]) (length l) = Some x.
Proof. rewrite nth_error_app2 by lia. rewrite Nat.sub_diag. reflexivity. Qed.

(* ---- the zero value reaches nothing ---- *)
Lemma reach_zero h v a : ~ reach h (zero_of v) a.
Proof.
  revert a. induction v as [z|k o|fs IH| |d IH] using value_ind_nested; intros a Hr; simpl in Hr.
  - inversion Hr.
  - inversion Hr.
  - inversion Hr as [| |b f fs0 x Hin Hf|]; subst.
    apply in_map_iff in Hin as ([b0 f0] & Heq & Hin0). simpl in Heq. inversion Heq; subst.
    rewrite Forall_forall in IH. apply (IH _ Hin0 a Hf).
  - inversion Hr.
  - inversion Hr.
Qed.

(* ---- freshness: a good cloner only appends cells, and its result reaches only those ---- *)
Definition good (f : cloner) : Prop := forall h v h' v', f h v = Some (h', v') ->
  (exists e, h' = h ++ e) /\ (forall a, reach h' v' a -> length h <= a < length h').

Lemma clone_list_good f : good f -> forall vs h h' vs', clone_list f h vs = Some (h', vs') ->
  (exists e, h' = h ++ e) /\
  (forall v', In v' vs' -> forall a, reach h' v' a -> length h <= a < length h').
Proof.
  intros Hg. induction vs as [|v r IH]; intros h h' vs' Hc; simpl in Hc.
  - inversion Hc; subst. split; [exists []; rewrite app_nil_r; auto|intros ? []].
  - destruct (f h v) as [[h1 v1]|] eqn:Hf; [|discriminate].
    destruct (clone_list f h1 r) as [[h2 r1]|] eqn:Hr; [|discriminate].
    inversion Hc; subst. destruct (Hg _ _ _ _ Hf) as ((e1 & He1) & Hb1).
    destruct (IH _ _ _ Hr) as ((e2 & He2) & Hb2). subst.
    split; [exists (e1 ++ e2); rewrite app_assoc; auto|].
    intros v' [<-|Hin] a Ha.
    + apply reach_shrink in Ha; [|intros y Hy; apply Hb1; exact Hy].
      specialize (Hb1 a Ha). rewrite !app_length in *. lia.
    + specialize (Hb2 v' Hin a Ha). rewrite !app_length in *. lia.
Qed.

Lemma clone_fields_good f : good f -> forall fs h h' fs', clone_fields f h fs = Some (h', fs') ->
  (exists e, h' = h ++ e) /\
  (forall b v', In (b, v') fs' -> forall a, reach h' v' a -> length h <= a < length h').
Proof.
  intros Hg. induction fs as [|[b v] r IH]; intros h h' fs' Hc; simpl in Hc.
  - inversion Hc; subst. split; [exists []; rewrite app_nil_r; auto|intros ? ? []].
  - destruct b.
    + destruct (f h v) as [[h1 v1]|] eqn:Hf; [|discriminate].
      destruct (clone_fields f h1 r) as [[h2 r1]|] eqn:Hr; [|discriminate].
      inversion Hc; subst. destruct (Hg _ _ _ _ Hf) as ((e1 & He1) & Hb1).
      destruct (IH _ _ _ Hr) as ((e2 & He2) & Hb2). subst.
      split; [exists (e1 ++ e2); rewrite app_assoc; auto|].
      intros b v' [Heq|Hin] a Ha.
      * inversion Heq; subst.
        apply reach_shrink in Ha; [|intros y Hy; apply Hb1; exact Hy].
        specialize (Hb1 a Ha). rewrite !app_length in *. lia.
      * specialize (Hb2 b v' Hin a Ha). rewrite !app_length in *. lia.
    + destruct (clone_fields f h r) as [[h2 r1]|] eqn:Hr; [|discriminate].
      inversion Hc; subst. destruct (IH _ _ _ Hr) as (He2 & Hb2).
      split; [exact He2|].
      intros b v' [Heq|Hin] a Ha.
      * inversion Heq; subst. exfalso. eapply reach_zero; eauto.
      * exact (Hb2 b v' Hin a Ha).
Qed.

Lemma deep_clone_good fuel : good (deep_clone true fuel).
Proof.
  induction fuel as [|k IH]; intros h v h' v' Hc; simpl in Hc; [discriminate|].
  destruct v as [z|kd [a|]|fs|[d|]].
  - inversion Hc; subst. split; [exists []; rewrite app_nil_r; auto|intros a Ha; inversion Ha].
  - destruct (nth_error h a) as [c|] eqn:Hn; [|discriminate].
    destruct (clone_list (deep_clone true k) h c) as [[h1 c1]|] eqn:Hl; [|discriminate].
    inversion Hc; subst. destruct (clone_list_good _ IH _ _ _ _ Hl) as ((e & He) & Hb). subst h1.
    split; [exists (e ++ [c1]); rewrite app_assoc; auto|].
    intros x Hx. inversion Hx as [|? ? c0 y ? Hn0 Hin Hy| |]; subst.
    + rewrite !app_length; simpl; lia.
    + rewrite nth_error_snoc in Hn0. inversion Hn0; subst c0.
      apply reach_shrink in Hy; [|intros w Hw; apply (Hb y Hin w Hw)].
      specialize (Hb y Hin x Hy). rewrite !app_length in *; simpl; lia.
  - inversion Hc; subst. split; [exists []; rewrite app_nil_r; auto|intros a Ha; inversion Ha].
  - destruct (clone_fields (deep_clone true k) h fs) as [[h1 fs1]|] eqn:Hl; [|discriminate].
    inversion Hc; subst. destruct (clone_fields_good _ IH _ _ _ _ Hl) as (He & Hb).
    split; [exact He|]. intros x Hx. inversion Hx; subst. eapply Hb; eauto.
  - destruct (deep_clone true k h d) as [[h1 d1]|] eqn:Hd; [|discriminate].
    inversion Hc; subst. destruct (IH _ _ _ _ Hd) as (He & Hb).
    split; [exact He|]. intros x Hx. inversion Hx; subst. auto.
  - inversion Hc; subst. split; [exists []; rewrite app_nil_r; auto|intros a Ha; inversion Ha].
Qed.

(* the pinned code also only appends (it is its result that may reach old cells) *)
Lemma clone_list_ext f : (forall h v h' v', f h v = Some (h', v') -> exists e, h' = h ++ e) ->
  forall vs h h' vs', clone_list f h vs = Some (h', vs') -> exists e, h' = h ++ e.
Proof.
  intros Hg. induction vs as [|v r IH]; intros h h' vs' Hc; simpl in Hc.
  - inversion Hc; subst. exists []; rewrite app_nil_r; auto.
  - destruct (f h v) as [[h1 v1]|] eqn:Hf; [|discriminate].
    destruct (clone_list f h1 r) as [[h2 r1]|] eqn:Hr; [|discriminate].
    inversion Hc; subst. destruct (Hg _ _ _ _ Hf) as (e1 & ->). destruct (IH _ _ _ Hr) as (e2 & ->).
    exists (e1 ++ e2); rewrite app_assoc; auto.
Qed.

Lemma clone_fields_ext f : (forall h v h' v', f h v = Some (h', v') -> exists e, h' = h ++ e) ->
  forall fs h h' fs', clone_fields f h fs = Some (h', fs') -> exists e, h' = h ++ e.
Proof.
  intros Hg. induction fs as [|[b v] r IH]; intros h h' fs' Hc; simpl in Hc.
  - inversion Hc; subst. exists []; rewrite app_nil_r; auto.
  - destruct b.
    + destruct (f h v) as [[h1 v1]|] eqn:Hf; [|discriminate].
      destruct (clone_fields f h1 r) as [[h2 r1]|] eqn:Hr; [|discriminate].
      inversion Hc; subst. destruct (Hg _ _ _ _ Hf) as (e1 & ->). destruct (IH _ _ _ Hr) as (e2 & ->).
      exists (e1 ++ e2); rewrite app_assoc; auto.
    + destruct (clone_fields f h r) as [[h2 r1]|] eqn:Hr; [|discriminate].
      inversion Hc; subst. eauto.
Qed.

Lemma deep_clone_extends fixi fuel : forall h v h' v',
  deep_clone fixi fuel h v = Some (h', v') -> exists e, h' = h ++ e.
Proof.
  induction fuel as [|k IH]; intros h v h' v' Hc; simpl in Hc; [discriminate|].
  destruct v as [z|kd [a|]|fs|[d|]].
  - inversion Hc; subst. exists []; rewrite app_nil_r; auto.
  - destruct (nth_error h a) as [c|] eqn:Hn; [|discriminate].
    destruct (clone_list (deep_clone fixi k) h c) as [[h1 c1]|] eqn:Hl; [|discriminate].
    inversion Hc; subst. destruct (clone_list_ext _ IH _ _ _ _ Hl) as (e & ->).
    exists (e ++ [c1]); rewrite app_assoc; auto.
  - inversion Hc; subst. exists []; rewrite app_nil_r; auto.
  - destruct (clone_fields (deep_clone fixi k) h fs) as [[h1 fs1]|] eqn:Hl; [|discriminate].
    inversion Hc; subst. eapply clone_fields_ext; eauto.
  - destruct fixi.
    + destruct (deep_clone true k h d) as [[h1 d1]|] eqn:Hd; [|discriminate].
      inversion Hc; subst. eauto.
    + inversion Hc; subst. exists []; rewrite app_nil_r; auto.
  - inversion Hc; subst. exists []; rewrite app_nil_r; auto.
Qed.

(* ---- main facts about the repaired clone ---- *)
Theorem clone_fresh fuel h v h' v' :
  deep_clone true fuel h v = Some (h', v') ->
  forall a, reach h' v' a -> length h <= a < length h'.
Proof. intros Hc. exact (proj2 (deep_clone_good fuel _ _ _ _ Hc)). Qed.

Theorem clone_disjoint fuel h v h' v' :
  wf h v -> deep_clone true fuel h v = Some (h', v') ->
  forall a, reach h' v' a -> ~ reach h' v a.
Proof.
  intros Hwf Hc a Ha Hv. destruct (deep_clone_good fuel _ _ _ _ Hc) as ((e & ->) & Hb).
  apply reach_shrink in Hv; [|exact Hwf]. specialize (Hwf a Hv). specialize (Hb a Ha). lia.
Qed.

Lemma read_orig_frame h e h2 v :
  wf h v -> (forall a, a < length h -> nth_error h2 a = nth_error (h ++ e) a) ->
  forall p, read h2 v p = read h v p.
Proof.
  intros Hwf Hag p. apply read_frame. intros a Ha. specialize (Hwf a Ha).
  rewrite Hag by exact Hwf. apply nth_error_app1; exact Hwf.
Qed.

Theorem clone_write_independent fuel h v h' v' :
  wf h v -> deep_clone true fuel h v = Some (h', v') ->
  forall a c, reach h' v' a -> forall p, read (write h' a c) v p = read h v p.
Proof.
  intros Hwf Hc a c Ha p. destruct (deep_clone_good fuel _ _ _ _ Hc) as ((e & ->) & Hb).
  specialize (Hb a Ha). apply read_orig_frame with (e := e); [exact Hwf|].
  intros b Hlt. apply nth_error_write_other. lia.
Qed.

Theorem clone_writes_independent fuel h v h' v' :
  wf h v -> deep_clone true fuel h v = Some (h', v') ->
  forall ws, Forall (fun w => length h <= fst w) ws ->
  forall p, read (write_all ws h') v p = read h v p.
Proof.
  intros Hwf Hc ws Hws p. destruct (deep_clone_extends _ _ _ _ _ _ Hc) as (e & ->).
  apply read_orig_frame with (e := e); [exact Hwf|].
  intros b Hlt. eapply nth_error_write_all_low; eauto.
Qed.

(* ---- edits through the copy ---- *)
Lemma refs_above_change n h h2 v :
  refs_above n h v ->
  (forall a c0, nth_error h2 a = Some c0 ->
     nth_error h a = Some c0 \/ (forall x, In x c0 -> refs_above n h2 x)) ->
  refs_above n h2 v.
Proof.
  intros Hv Hc b Hr. revert Hv.
  induction Hr as [k a|k a c x y Hn Hin Hy IH|bb f fs y Hin Hy IH|d y Hy IH]; intros Hv.
  - apply Hv. apply reach_here.
  - destruct (Hc _ _ Hn) as [Hold|Hnew].
    + apply IH. intros w Hw. apply Hv. eapply reach_cell; eauto.
    + exact (Hnew x Hin y Hy).
  - apply IH. intros w Hw. apply Hv. eapply reach_field; eauto.
  - apply IH. intros w Hw. apply Hv. apply reach_iface; auto.
Qed.

Lemma edits_preserve n h v h2 v2 :
  edits n h v h2 v2 -> refs_above n h v -> n <= length h ->
  (forall a, a < n -> nth_error h2 a = nth_error h a) /\ refs_above n h2 v2.
Proof.
  induction 1 as [h v|h v a c h2 v2 Hra Hc _ IH|h v c h2 v2 Hc _ IH|h v v1 h2 v2 Hv1 _ IH];
    intros Hv Hn.
  - split; auto.
  - assert (Hna : n <= a) by (apply Hv; exact Hra).
    destruct IH as (Hag & Hr2).
    + apply refs_above_change with (h := h); [exact Hv|].
      intros a0 c0 Hn0. destruct (Nat.eq_dec a a0) as [<-|Hne].
      * destruct (Nat.lt_ge_cases a (length h)) as [Hlt|Hge].
        -- rewrite nth_error_write_same in Hn0 by exact Hlt. inversion Hn0; subst. right; exact Hc.
        -- rewrite write_oob in Hn0 by exact Hge. left; exact Hn0.
      * rewrite nth_error_write_other in Hn0 by exact Hne. left; exact Hn0.
    + rewrite length_write; exact Hn.
    + split; [|exact Hr2]. intros b Hb. rewrite Hag by exact Hb. apply nth_error_write_other. lia.
  - destruct IH as (Hag & Hr2).
    + apply refs_above_change with (h := h); [exact Hv|].
      intros a0 c0 Hn0. destruct (Nat.lt_ge_cases a0 (length h)) as [Hlt|Hge].
      * rewrite nth_error_app1 in Hn0 by exact Hlt. left; exact Hn0.
      * destruct (Nat.eq_dec a0 (length h)) as [->|Hne].
        -- rewrite nth_error_snoc in Hn0. inversion Hn0; subst. right; exact Hc.
        -- exfalso.
           assert (Hlt2 : a0 < length (h ++ [c])).
           { apply nth_error_Some. intro Hx. unfold cell, heap in *. rewrite Hx in Hn0. discriminate. }
           rewrite app_length in Hlt2; simpl in Hlt2; unfold cell, heap in *; lia.
    + rewrite app_length; unfold cell, heap in *; simpl; lia.
    + split; [|exact Hr2]. intros b Hb. rewrite Hag by exact Hb. apply nth_error_app1. unfold cell, heap in *; lia.
  - apply IH; auto.
Qed.

Theorem rejected_edit_untouched fuel h v h' v' h2 v2 :
  wf h v -> deep_clone true fuel h v = Some (h', v') ->
  edits (length h) h' v' h2 v2 ->
  forall p, read h2 v p = read h v p.
Proof.
  intros Hwf Hc He p. destruct (deep_clone_good fuel _ _ _ _ Hc) as ((e & ->) & Hb).
  destruct (edits_preserve _ _ _ _ _ He) as (Hag & _).
  - intros b Hb'. apply Hb in Hb'. lia.
  - rewrite app_length; lia.
  - apply read_orig_frame with (e := e); auto.
Qed.

(* ---- same shape ---- *)
Lemma csim_app n : forall h e v v', csim n h v v' -> csim n (h ++ e) v v'.
Proof.
  induction n as [|k IH]; intros h e v v' H; simpl in *; [contradiction|].
  destruct v as [z|kd [a|]|fs|[d|]], v' as [z'|kd' [a'|]|fs'|[d'|]]; try contradiction; auto.
  - destruct H as (-> & c & c' & Hc & Hc' & HF). split; [reflexivity|].
    exists c, c'. repeat split.
    + rewrite nth_error_app1; auto. apply nth_error_Some; congruence.
    + rewrite nth_error_app1; auto. apply nth_error_Some; congruence.
    + eapply Forall2_imp; [|exact HF]. intros; apply IH; auto.
  - eapply Forall2_imp; [|exact H]. intros [b f] [b' f'] (Hb & Hf); simpl in *. split; [exact Hb|].
    destruct b; auto.
Qed.

Definition good_sim (f : cloner) (n : nat) : Prop :=
  forall h v h' v', f h v = Some (h', v') -> csim n h' v v'.

Lemma clone_list_sim f n : good f -> good_sim f n -> forall vs h h' vs',
  clone_list f h vs = Some (h', vs') -> Forall2 (csim n h') vs vs'.
Proof.
  intros Hg Hs. induction vs as [|v r IH]; intros h h' vs' Hc; simpl in Hc.
  - inversion Hc; subst. constructor.
  - destruct (f h v) as [[h1 v1]|] eqn:Hf; [|discriminate].
    destruct (clone_list f h1 r) as [[h2 r1]|] eqn:Hr; [|discriminate].
    inversion Hc; subst. destruct (clone_list_good _ Hg _ _ _ _ Hr) as ((e2 & ->) & _).
    constructor; [apply csim_app; eapply Hs; eauto|eapply IH; eauto].
Qed.

Lemma clone_fields_sim f n : good f -> good_sim f n -> forall fs h h' fs',
  clone_fields f h fs = Some (h', fs') ->
  Forall2 (fun bf bf' : bool * value => fst bf = fst bf' /\
             if fst bf then csim n h' (snd bf) (snd bf') else snd bf' = zero_of (snd bf)) fs fs'.
Proof.
  intros Hg Hs. induction fs as [|[b v] r IH]; intros h h' fs' Hc; simpl in Hc.
  - inversion Hc; subst. constructor.
  - destruct b.
    + destruct (f h v) as [[h1 v1]|] eqn:Hf; [|discriminate].
      destruct (clone_fields f h1 r) as [[h2 r1]|] eqn:Hr; [|discriminate].
      inversion Hc; subst. destruct (clone_fields_good _ Hg _ _ _ _ Hr) as ((e2 & ->) & _).
      constructor; [simpl; split; [reflexivity|apply csim_app; eapply Hs; eauto]|eapply IH; eauto].
    + destruct (clone_fields f h r) as [[h2 r1]|] eqn:Hr; [|discriminate].
      inversion Hc; subst. constructor; [simpl; auto|eapply IH; eauto].
Qed.

Theorem clone_same_shape fuel : forall h v h' v',
  deep_clone true fuel h v = Some (h', v') -> csim fuel h' v v'.
Proof.
  induction fuel as [|k IH]; intros h v h' v' Hc; [discriminate|].
  cbn [deep_clone] in Hc. cbn [csim].
  destruct v as [z|kd [a|]|fs|[d|]].
  - inversion Hc; subst. reflexivity.
  - destruct (nth_error h a) as [c|] eqn:Hn; [|discriminate].
    destruct (clone_list (deep_clone true k) h c) as [[h1 c1]|] eqn:Hl; [|discriminate].
    inversion Hc; subst.
    destruct (clone_list_good _ (deep_clone_good k) _ _ _ _ Hl) as ((e & ->) & _).
    split; [reflexivity|]. exists c, c1. repeat split.
    + rewrite <- app_assoc. rewrite nth_error_app1; auto. apply nth_error_Some; congruence.
    + apply nth_error_snoc.
    + eapply Forall2_imp; [|eapply clone_list_sim; eauto using deep_clone_good].
      intros; apply csim_app; auto.
  - inversion Hc; subst. reflexivity.
  - destruct (clone_fields (deep_clone true k) h fs) as [[h1 fs1]|] eqn:Hl; [|discriminate].
    inversion Hc; subst. eapply clone_fields_sim; eauto using deep_clone_good.
  - destruct (deep_clone true k h d) as [[h1 d1]|] eqn:Hd; [|discriminate].
    inversion Hc; subst. eauto.
  - inversion Hc; subst. exact I.
Qed.

Lemma all_settable_app n : forall h e v, all_settable n h v -> all_settable n (h ++ e) v.
Proof.
  induction n as [|k IH]; intros h e v H; simpl in *; auto.
  destruct v as [z|kd [a|]|fs|[d|]]; auto.
  - destruct (nth_error h a) as [c|] eqn:Hn; [|contradiction].
    rewrite nth_error_app1 by (apply nth_error_Some; congruence). rewrite Hn.
    eapply Forall_impl; [|exact H]. intros; apply IH; auto.
  - eapply Forall_impl; [|exact H]. intros [b f] (Hb & Hf). split; auto.
Qed.

Lemma csim_ssim n : forall h v v', all_settable n h v -> csim n h v v' -> ssim n h v v'.
Proof.
  induction n as [|k IH]; intros h v v' Ha H; simpl in *; [contradiction|].
  destruct v as [z|kd [a|]|fs|[d|]], v' as [z'|kd' [a'|]|fs'|[d'|]]; try contradiction; auto.
  - destruct H as (-> & c & c' & Hc & Hc' & HF). rewrite Hc in Ha. split; [reflexivity|].
    exists c, c'. repeat split; auto.
    eapply Forall2_imp_Forall; [|exact Ha|exact HF]. intros; apply IH; auto.
  - eapply Forall2_imp_Forall; [|exact Ha|exact H].
    intros [b f] [b' f'] (Hb & Hs) (Hbb & Hf); simpl in *. subst b. split; auto.
Qed.

Theorem clone_equal_settable fuel h v h' v' :
  deep_clone true fuel h v = Some (h', v') -> all_settable fuel h v -> ssim fuel h' v v'.
Proof.
  intros Hc Ha. destruct (deep_clone_extends _ _ _ _ _ _ Hc) as (e & He).
  apply csim_ssim; [subst h'; apply all_settable_app; exact Ha|].
  eapply clone_same_shape; eauto.
Qed.

(* ---- what is false ---- *)
(* the pinned code: Conf{OptionalPaths: map{"p": &OptionalPath{Values: any(&struct{..})}}}
   cell 0 = the values struct, cell 1 = the OptionalPath, cell 2 = the map *)
Definition w_heap : heap :=
  [ [VStruct [(true, VScalar 7)]];
    [VStruct [(true, VIface (Some (VRef KPtr (Some 0%nat))))]];
    [VRef KPtr (Some 1%nat)] ].
Definition w_conf : value := VStruct [(true, VScalar 1); (true, VRef KMap (Some 2%nat))].
Definition w_path : list step := [SField 1; SElem 0; SElem 0; SField 0; SIface; SElem 0; SField 0].

Lemma w_wf : wf w_heap w_conf.
Proof. apply closed_wf; reflexivity. Qed.

Theorem pinned_clone_shares :
  exists fuel h' v' a c,
    wf w_heap w_conf /\ deep_clone false fuel w_heap w_conf = Some (h', v') /\
    reach h' v' a /\ reach h' w_conf a /\
    read (write h' a c) w_conf w_path <> read w_heap w_conf w_path.
Proof.
  exists 8%nat.
  eexists. eexists. exists 0%nat. exists [VStruct [(true, VScalar 8)]].
  split; [exact w_wf|]. split; [vm_compute; reflexivity|].
  split; [|split].
  - eapply reach_field; [right; left; reflexivity|].
    eapply reach_cell; [reflexivity|left; reflexivity|].
    eapply reach_cell; [reflexivity|left; reflexivity|].
    eapply reach_field; [left; reflexivity|]. apply reach_iface. apply reach_here.
  - eapply reach_field; [right; left; reflexivity|].
    eapply reach_cell; [reflexivity|left; reflexivity|].
    eapply reach_cell; [reflexivity|left; reflexivity|].
    eapply reach_field; [left; reflexivity|]. apply reach_iface. apply reach_here.
  - vm_compute. discriminate.
Qed.

(* full structural equality fails for fields reflect cannot set (e.g. *regexp.Regexp) *)
Theorem clone_equal_unsettable_fails :
  exists fuel h v h' v',
    deep_clone true fuel h v = Some (h', v') /\ forall n, ~ ssim n h' v v'.
Proof.
  exists 3%nat, [], (VStruct [(false, VScalar 5)]). eexists. eexists.
  split; [vm_compute; reflexivity|].
  intros [|[|n]] H; simpl in H; try contradiction.
  - inversion H as [|? ? ? ? (_ & Hf)]; subst. exact Hf.
  - inversion H as [|? ? ? ? (_ & Hf)]; subst. simpl in Hf. discriminate.
Qed.

(* non-vacuity: a configuration-like value with sharing, an interface, an unexported
   field, a nil and an empty slice; the repaired clone succeeds and is disjoint *)
Definition ex_heap : heap :=
  [ [VScalar 3; VScalar 4];                                     (* 0: []int shared by two fields *)
    [VStruct [(true, VScalar 7); (true, VRef KSlice (Some 0%nat))]];  (* 1: values struct *)
    [VStruct [(true, VIface (Some (VRef KPtr (Some 1%nat))))]];       (* 2: OptionalPath *)
    [VRef KPtr (Some 2%nat)];                                         (* 3: map *)
    [] ].                                                             (* 4: empty slice *)
Definition ex_conf : value :=
  VStruct [(true, VRef KSlice (Some 0%nat)); (true, VRef KMap (Some 3%nat)); (false, VRef KPtr (Some 1%nat));
           (true, VRef KSlice None); (true, VRef KSlice (Some 4%nat)); (true, VIface None)].
