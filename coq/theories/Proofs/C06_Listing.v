(* Proofs for the listing side of C06 (Model/C06_Listing.v). *)
From Coq Require Import List ZArith Bool Lia.
Require Import MTX.Lib.PathClean MTX.Model.C26_RecPath MTX.Model.C06_PathName MTX.Model.C06_Listing
               MTX.Proofs.C06_PathName.
Import ListNotations.
Local Open Scope Z_scope.

Lemma listed_name_some re loff cwd f ts v p :
  listed_name re loff cwd f ts v = Some p <->
  decoded_name loff (list_record_path cwd f ts) v = Some p /\ valid p = true /\ re p = true.
Proof.
  unfold listed_name. destruct (decoded_name loff (list_record_path cwd f ts) v) as [q|].
  - destruct (valid q) eqn:Hv; [destruct (re q) eqn:Hr|].
    + split; [intros [= <-]; auto | intros [[= <-] _]; reflexivity].
    + split; [discriminate | intros [[= <-] [_ H]]; congruence].
    + split; [discriminate | intros [[= <-] [H _]]; congruence].
  - split; [discriminate | intros [H _]; discriminate].
Qed.

(* every name regexpPathFindPathsWithSegments returns was decoded from a visited file, is a valid
   path name and matches the configuration's regular expression: all formats, all directory contents *)
Lemma regexp_paths_sound re loff cwd f ts files p :
  In p (regexp_paths re loff cwd f ts files) ->
  valid p = true /\ re p = true /\
  exists v, In v files /\ decoded_name loff (list_record_path cwd f ts) v = Some p.
Proof.
  induction files as [|v r IH]; cbn [regexp_paths]; [intros []|].
  destruct (listed_name re loff cwd f ts v) as [q|] eqn:E.
  - intros [<-|Hin].
    + apply listed_name_some in E. destruct E as (Hd & Hv & Hr). repeat split; auto. exists v. split; [now left|exact Hd].
    + destruct (IH Hin) as (Hv & Hr & w & Hw & Hd). repeat split; auto. exists w. split; [now right|exact Hd].
  - intros Hin. destruct (IH Hin) as (Hv & Hr & w & Hw & Hd). repeat split; auto. exists w. split; [now right|exact Hd].
Qed.

(* ... and nothing is lost: a visited file whose decoded name is valid and matches is listed *)
Lemma regexp_paths_complete re loff cwd f ts files v p :
  In v files -> decoded_name loff (list_record_path cwd f ts) v = Some p -> valid p = true -> re p = true ->
  In p (regexp_paths re loff cwd f ts files).
Proof.
  intros Hin Hd Hv Hr. assert (E : listed_name re loff cwd f ts v = Some p) by (apply listed_name_some; auto).
  induction files as [|w r IH]; [destruct Hin|]. cbn [regexp_paths]. destruct Hin as [->|Hin].
  - rewrite E. now left.
  - destruct (listed_name re loff cwd f ts w); [right|]; auto.
Qed.

Lemma conf_paths_sound tree loff cwd c p : In p (conf_paths tree loff cwd c) -> conf_admits tree loff cwd c p.
Proof.
  destruct c as [name f ts|re f ts]; cbn [conf_paths conf_admits].
  - destruct (fixed_has_segments _ _ _ _ _ _) eqn:E; [|intros []]. intros [<-|[]]. split; reflexivity.
  - apply regexp_paths_sound.
Qed.

Lemma conf_paths_complete tree loff cwd c p : conf_admits tree loff cwd c p -> In p (conf_paths tree loff cwd c).
Proof.
  destruct c as [name f ts|re f ts]; cbn [conf_paths conf_admits].
  - intros [-> E]. rewrite E. now left.
  - intros (Hv & Hr & v & Hin & Hd). eapply regexp_paths_complete; eauto.
Qed.

(* FindAllPathsWithSegments lists p iff some configuration admits it *)
Lemma find_all_iff tree loff cwd confs p :
  In p (find_all tree loff cwd confs) <-> exists c, In c confs /\ conf_admits tree loff cwd c p.
Proof.
  unfold find_all. rewrite in_flat_map. split; intros (c & Hc & H); exists c; split; auto.
  - now apply conf_paths_sound.
  - now apply conf_paths_complete.
Qed.

(* the names of non-regexp configurations are valid (conf validation, C10/C12): then every listed name is *)
Definition fixed_names_valid (confs : list lconf) : Prop :=
  forall name f ts, In (LFixed name f ts) confs -> valid name = true.

Lemma find_all_valid tree loff cwd confs p :
  fixed_names_valid confs -> In p (find_all tree loff cwd confs) -> valid p = true.
Proof.
  intros Hfix Hin. apply find_all_iff in Hin. destruct Hin as (c & Hc & Ha).
  destruct c as [name f ts|re f ts]; cbn [conf_admits] in Ha.
  - destruct Ha as [-> _]. eapply Hfix; eauto.
  - tauto.
Qed.

(* a listed name, asked back through FindSegments (what the API list and the cleaner do next), only
   yields files under the absolute common path *)
Lemma listed_then_contained tree loff cwd confs p f ts v :
  fixed_names_valid confs -> In p (find_all tree loff cwd confs) ->
  format_ok f = true -> cwd_ok cwd = true ->
  match decode loff (find_record_path cwd f ts p) v with Some _ => true | None => false end = true ->
  find_candidate loff cwd f ts p v = true /\ path_under (abs cwd (common_path f)) v = true.
Proof.
  intros Hfix Hin Hf Hc Hd. assert (Hv := find_all_valid _ _ _ _ _ Hfix Hin).
  assert (E : find_candidate loff cwd f ts p v = true) by (unfold find_candidate; now rewrite Hv, Hd).
  split; [exact E|]. eapply containment_find; eauto.
Qed.
