(* Proofs about Model/C33_Reorderer.v: invariant over all push histories. *)
From Coq Require Import List ZArith Lia Bool ZifyBool.
Require Import MTX.Lib.IntWrap MTX.Model.C33_Reorderer.
Import ListNotations.
Local Open Scope Z_scope.

(* strictly increasing group ids, all above lo *)
Fixpoint inc_from (lo : Z) (l : list sg) : Prop :=
  match l with [] => True | e :: r => lo < gid e /\ inc_from (gid e) r end.

Definition all_le (m : Z) (l : list sg) : Prop := Forall (fun e => gid e <= m) l.
Definition wf (x : sg) : Prop := 0 <= gid x < two64 /\ 0 <= size x.

Lemma inc_from_weaken lo lo' l : lo' <= lo -> inc_from lo l -> inc_from lo' l.
Proof. destruct l as [|e r]; simpl; [trivial|]. intros H [H1 H2]. split; [lia|exact H2]. Qed.

Lemma inc_from_all_gt lo l : inc_from lo l -> Forall (fun e => lo < gid e) l.
Proof.
  revert lo; induction l as [|e r IH]; intros lo H; [constructor|].
  destruct H as [H1 H2]. constructor; [exact H1|].
  apply IH. eapply inc_from_weaken; [|exact H2]. lia.
Qed.

Lemma inc_from_ins lo x l : lo < gid x -> inc_from lo l -> inc_from lo (ins x l).
Proof.
  revert lo; induction l as [|y r IH]; intros lo Hx Hl; simpl.
  - split; [exact Hx|exact I].
  - destruct Hl as [Hy Hr]. destruct (Z.ltb_spec (gid x) (gid y)) as [Hlt|Hge].
    + simpl. repeat split; try assumption.
    + destruct (Z.eqb_spec (gid x) (gid y)) as [Heq|Hne].
      * simpl. split; [exact Hx|]. rewrite Heq. exact Hr.
      * simpl. split; [exact Hy|]. apply IH; [lia|exact Hr].
Qed.

Lemma inc_from_filter p lo l : inc_from lo l -> inc_from lo (filter p l).
Proof.
  revert lo; induction l as [|e r IH]; intros lo H; simpl; [exact I|].
  destruct H as [H1 H2]. destruct (p e); simpl.
  - split; [exact H1|apply IH; exact H2].
  - apply IH. eapply inc_from_weaken; [|exact H2]. lia.
Qed.

Lemma inc_from_app a b l1 l2 :
  inc_from a l1 -> all_le b l1 -> a <= b -> inc_from b l2 -> inc_from a (l1 ++ l2).
Proof.
  revert a; induction l1 as [|e r IH]; intros a H1 Hle Hab H2; simpl.
  - eapply inc_from_weaken; eassumption.
  - destruct H1 as [He Hr]. inversion Hle as [|? ? Hb Hle']; subst.
    split; [exact He|]. apply IH; assumption.
Qed.

Lemma inc_from_raise lo m l : inc_from lo l -> Forall (fun e => m < gid e) l -> inc_from m l.
Proof.
  destruct l as [|e r]; simpl; [trivial|]. intros [_ Hr] Hall. inversion Hall; subst. split; assumption.
Qed.

Lemma lookup_none lo id l : inc_from lo l -> id <= lo -> lookup id l = None.
Proof.
  revert lo; induction l as [|y r IH]; intros lo H Hid; simpl; [reflexivity|].
  destruct H as [Hy Hr]. destruct (Z.eqb_spec (gid y) id); [lia|]. eapply IH; [exact Hr|lia].
Qed.

Arguments sum_sizes : simpl never.
Lemma sum_sizes_nil : sum_sizes [] = 0. Proof. reflexivity. Qed.

Lemma sum_sizes_cons e r : sum_sizes (e :: r) = size e + sum_sizes r.
Proof. reflexivity. Qed.

Lemma sum_sizes_app l1 l2 : sum_sizes (l1 ++ l2) = sum_sizes l1 + sum_sizes l2.
Proof. induction l1 as [|e r IH]; [rewrite sum_sizes_nil; reflexivity|]. simpl app. rewrite !sum_sizes_cons. lia. Qed.



Lemma sum_sizes_nonneg l : Forall (fun e => 0 <= size e) l -> 0 <= sum_sizes l.
Proof. induction 1 as [|e r He _ IH]; [rewrite sum_sizes_nil; lia|]. rewrite sum_sizes_cons. lia. Qed.

Lemma sum_sizes_ins lo x l : inc_from lo l ->
  sum_sizes (ins x l) =
  sum_sizes l - (match lookup (gid x) l with Some p => size p | None => 0 end) + size x.
Proof.
  revert lo; induction l as [|y r IH]; intros lo H; cbn [ins lookup].
  - rewrite sum_sizes_cons, sum_sizes_nil; lia.
  - destruct H as [Hy Hr]. destruct (Z.ltb_spec (gid x) (gid y)) as [Hlt|Hge].
    + destruct (Z.eqb_spec (gid y) (gid x)); [lia|].
      rewrite (lookup_none (gid y) (gid x) r Hr) by lia. rewrite !sum_sizes_cons. lia.
    + destruct (Z.eqb_spec (gid x) (gid y)) as [Heq|Hne].
      * destruct (Z.eqb_spec (gid y) (gid x)); [|lia]. rewrite !sum_sizes_cons. lia.
      * destruct (Z.eqb_spec (gid y) (gid x)); [lia|]. rewrite !sum_sizes_cons, (IH _ Hr). lia.
Qed.

Lemma length_ins x l : (length (ins x l) <= S (length l))%nat.
Proof.
  induction l as [|y r IH]; simpl; [lia|].
  destruct (gid x <? gid y); [simpl; lia|]. destruct (gid x =? gid y); simpl; lia.
Qed.

Lemma in_ins x l : In x (ins x l).
Proof.
  induction l as [|y r IH]; simpl; [left; reflexivity|].
  destruct (gid x <? gid y); [left; reflexivity|]. destruct (gid x =? gid y); [left; reflexivity|right; exact IH].
Qed.

Lemma incl_ins x l : incl (ins x l) (x :: l).
Proof.
  induction l as [|y r IH]; simpl; [apply incl_refl|].
  destruct (gid x <? gid y); [apply incl_refl|].
  destruct (gid x =? gid y).
  - intros e [He|He]; [left; exact He|right; right; exact He].
  - intros e [He|He]; [right; left; exact He|]. destruct (IH e He) as [E|E]; [left; exact E|right; right; exact E].
Qed.

Lemma Forall_ins (P : sg -> Prop) x l : P x -> Forall P l -> Forall P (ins x l).
Proof.
  intros Hx Hl. apply Forall_forall. intros e He. apply incl_ins in He.
  destruct He as [<-|He]; [exact Hx|]. rewrite Forall_forall in Hl. apply Hl; exact He.
Qed.

Lemma filter_split_sum p l :
  sum_sizes (filter p l) + sum_sizes (filter (fun e => negb (p e)) l) = sum_sizes l.
Proof.
  induction l as [|e r IH]; [reflexivity|]. cbn [filter].
  destruct (p e); cbn [negb]; rewrite !sum_sizes_cons; lia.
Qed.

Lemma filter_split_len {A} (p : A -> bool) l :
  (length (filter p l) + length (filter (fun e => negb (p e)) l) = length l)%nat.
Proof. induction l as [|e r IH]; simpl; [reflexivity|]. destruct (p e); simpl; lia. Qed.

(* ---------------- drain ---------------- *)

Lemma drain_spec l : forall c o rest c',
  0 <= c < two64 -> inc_from c l -> Forall (fun e => gid e < two64) l -> drain l c = (o, rest, c') ->
  inc_from c o /\ all_le c' o /\ c <= c' /\ inc_from c' rest /\ l = o ++ rest /\ c' < two64.
Proof.
  induction l as [|e r IH]; intros c o rest c' Hc Hinc Hlt Hd; simpl in Hd.
  - inversion Hd; subst. repeat split; try constructor; lia.
  - destruct Hinc as [He Hr]. inversion Hlt as [|? ? Hel Hlt']; subst.
    destruct (Z.eqb_spec (gid e) (wrapu64 (c + 1))) as [Heq|Hne].
    + assert (wrapu64 (c + 1) = c + 1) as W by (apply wrapu64_id; lia).
      rewrite W in *. destruct (drain r (c + 1)) as [[o' rest'] c''] eqn:Ed.
      inversion Hd; subst. rewrite <- Heq in Ed.
      destruct (IH (gid e) o' rest c' ltac:(lia) Hr Hlt' Ed) as (I1 & I2 & I3 & I4 & I5 & I6).
      repeat split.
      * exact He.
      * exact I1.
      * constructor; [lia|exact I2].
      * lia.
      * exact I4.
      * simpl. f_equal. exact I5.
      * exact I6.
    + inversion Hd; subst. repeat split; try constructor; try lia; assumption.
Qed.

(* ---------------- the invariant ---------------- *)

Record Inv (maxr maxb : Z) (s : state) : Prop := {
  inv_uninit : initialized s = false -> pending s = [];
  inv_cur : 0 <= cur s < two64;
  inv_sorted : inc_from (cur s) (pending s);
  inv_wf : Forall wf (pending s);
  inv_bytes : pbytes s = sum_sizes (pending s);
  inv_count : Z.of_nat (length (pending s)) <= maxr;
  inv_limit : pbytes s <= maxb;
}.

Lemma inv_init maxr maxb : 0 <= maxr -> 0 <= maxb -> Inv maxr maxb init_state.
Proof.
  intros. constructor; simpl; try reflexivity; try constructor; try lia; unfold two64; lia.
Qed.

Lemma wf_sizes l : Forall wf l -> Forall (fun e => 0 <= size e) l.
Proof. apply Forall_impl. intros e [_ H]; exact H. Qed.
Lemma wf_lt l : Forall wf l -> Forall (fun e => gid e < two64) l.
Proof. apply Forall_impl. intros e [[_ H] _]; exact H. Qed.

Lemma Forall_filter {A} (P : A -> Prop) p l : Forall P l -> Forall P (filter p l).
Proof. intros H. apply Forall_forall. intros e He. apply filter_In in He. rewrite Forall_forall in H. apply H, He. Qed.

(* what a flush does, from a state whose pending already contains x *)
Lemma flush_spec maxr maxb s x s' o :
  0 <= cur s < two64 -> inc_from (cur s) (pending s) -> Forall wf (pending s) ->
  pbytes s = sum_sizes (pending s) -> wf x -> cur s < gid x -> In x (pending s) ->
  Z.of_nat (length (pending s)) <= maxr + 1 -> pbytes s - size x <= maxb ->
  flush_up_to s (gid x) = (s', o) ->
  Inv maxr maxb {| initialized := true; cur := cur s'; pending := pending s'; pbytes := pbytes s' |}
  /\ inc_from (cur s) o /\ all_le (cur s') o /\ cur s <= cur s' /\ In x o /\ incl o (pending s)
  /\ initialized s' = initialized s.
Proof.
  intros Hc Hs Hwf Hb Hx Hgt Hin Hlen Hbytes Hf. unfold flush_up_to in Hf.
  set (p := in_range (cur s) (gid x)) in *.
  set (out1 := filter p (pending s)) in *.
  set (rest := filter (fun e => negb (p e)) (pending s)) in *.
  destruct (drain rest (gid x)) as [[out2 rest'] c'] eqn:Ed. inversion Hf; subst s' o; clear Hf. simpl.
  assert (inc_from (cur s) out1) as Ho1 by (apply inc_from_filter; exact Hs).
  assert (all_le (gid x) out1) as Ho1le.
  { apply Forall_forall. intros e He. apply filter_In in He. destruct He as [_ He]. unfold p, in_range in He. lia. }
  assert (inc_from (gid x) rest) as Hrest.
  { apply inc_from_raise with (lo := cur s); [apply inc_from_filter; exact Hs|].
    apply Forall_forall. intros e He. apply filter_In in He. destruct He as [Hein He].
    pose proof (inc_from_all_gt _ _ Hs) as Hall. rewrite Forall_forall in Hall. specialize (Hall e Hein).
    unfold p, in_range in He. lia. }
  assert (Forall wf rest) as Hwfrest by (apply Forall_filter; exact Hwf).
  destruct Hx as [Hxr Hxs].
  destruct (drain_spec rest (gid x) out2 rest' c' ltac:(lia) Hrest (wf_lt _ Hwfrest) Ed) as (D1 & D2 & D3 & D4 & D5 & Hc').
  assert (In x out1) as Hxin.
  { apply filter_In. split; [exact Hin|]. unfold p, in_range. lia. }
  assert (Forall wf out2 /\ Forall wf rest') as [Hwf2 Hwfr'].
  { rewrite D5 in Hwfrest. apply Forall_app in Hwfrest. exact Hwfrest. }
  assert (sum_sizes out1 + sum_sizes rest = sum_sizes (pending s)) as Hsum by apply filter_split_sum.
  assert (sum_sizes rest = sum_sizes out2 + sum_sizes rest') as Hsum2 by (rewrite D5; apply sum_sizes_app).
  assert (size x <= sum_sizes out1) as Hsx.
  { assert (Forall (fun e => 0 <= size e) out1) as Hnn by (apply wf_sizes, Forall_filter; exact Hwf).
    clear - Hxin Hnn. induction out1 as [|e r IH]; [contradiction|].
    inversion Hnn; subst. rewrite sum_sizes_cons. pose proof (sum_sizes_nonneg r H2).
    destruct Hxin as [->|Hr]; [lia|]. specialize (IH Hr H2). lia. }
  pose proof (sum_sizes_nonneg out2 (wf_sizes _ Hwf2)) as Hnn2.
  assert (length out1 + length rest = length (pending s))%nat as Hlen1 by apply filter_split_len.
  assert (length rest = length out2 + length rest')%nat as Hlen2 by (rewrite D5; apply app_length).
  assert (1 <= length out1)%nat as Hl1 by (destruct out1; [contradiction|simpl; lia]).
  split; [|split; [|split; [|split; [|split; [|split]]]]]; simpl.
  - constructor; simpl; try assumption; try lia; discriminate.
  - apply inc_from_app with (b := gid x); try assumption. lia.
  - apply Forall_app. split; [|exact D2]. eapply Forall_impl; [|exact Ho1le]. simpl. intros; lia.
  - lia.
  - apply in_or_app. left. exact Hxin.
  - intros e He. apply in_app_or in He. destruct He as [He|He].
    + apply filter_In in He. apply He.
    + assert (In e rest) as Her by (rewrite D5; apply in_or_app; left; exact He).
      apply filter_In in Her. apply Her.
  - reflexivity.
Qed.

(* ---------------- one push ---------------- *)

Lemma lookup_in id l p : lookup id l = Some p -> In p l /\ gid p = id.
Proof.
  induction l as [|y r IH]; simpl; [discriminate|].
  destruct (Z.eqb_spec (gid y) id) as [E|E].
  - intros H; inversion H; subst. split; [left; reflexivity|reflexivity].
  - intros H. destruct (IH H) as [H1 H2]. split; [right; exact H1|exact H2].
Qed.

Lemma prev_nonneg id l : Forall wf l -> 0 <= match lookup id l with Some p => size p | None => 0 end.
Proof.
  intros Hwf. destruct (lookup id l) as [p|] eqn:E; [|lia].
  apply lookup_in in E. destruct E as [Hin _]. rewrite Forall_forall in Hwf. apply Hwf in Hin. apply Hin.
Qed.

Ltac fin :=
  try solve [ assumption | discriminate | reflexivity | lia | intros ? [] | intros ? ?; right; assumption
            | apply incl_refl | apply incl_ins | constructor; [lia|constructor] | constructor ].

Lemma push_spec maxr maxb s x s' o :
  0 <= maxr -> 0 <= maxb -> Inv maxr maxb s -> wf x -> push maxr maxb s x = (s', o) ->
  Inv maxr maxb s' /\ initialized s' = true /\ incl o (x :: pending s) /\ incl (pending s') (x :: pending s)
  /\ (initialized s = false -> o = [x] /\ cur s' = gid x)
  /\ (initialized s = true -> inc_from (cur s) o /\ all_le (cur s') o /\ cur s <= cur s').
Proof.
  intros Hr Hb HI Hx Hp. destruct HI as [Iu Ic Is Iw Iby Icn Ili]. unfold push in Hp.
  destruct (initialized s) eqn:Ei; simpl in Hp.
  - (* initialized *)
    destruct (Z.leb_spec (gid x) (cur s)) as [Hle|Hgt].
    + (* out of order: skipped *)
      inversion Hp; subst s' o. split; [constructor; try assumption; intros; congruence|].
      repeat split; fin.
    + destruct ((gid x =? wrapu64 (cur s + 1)) && match pending s with [] => true | _ :: _ => false end) eqn:Enext.
      * (* directly next, nothing pending *)
        apply andb_prop in Enext. destruct Enext as [_ Hnil]. destruct (pending s) as [|? ?] eqn:Ep; [|discriminate].
        inversion Hp; subst s' o. simpl. destruct Hx as [Hxr Hxs].
        split; [constructor; simpl; rewrite ?Ep in *; simpl; fin|].
        repeat split; simpl; rewrite ?Ep; fin.
      * (* default branch *)
        set (prev := match lookup (gid x) (pending s) with Some p => size p | None => 0 end) in *.
        set (s1 := {| initialized := true; cur := cur s; pending := ins x (pending s); pbytes := pbytes s - prev + size x |}) in *.
        assert (0 <= prev) as Hprev by (apply prev_nonneg; exact Iw).
        assert (inc_from (cur s1) (pending s1)) as S1s by (unfold s1; simpl; apply inc_from_ins; [lia|exact Is]).
        assert (Forall wf (pending s1)) as S1w by (unfold s1; simpl; apply Forall_ins; assumption).
        assert (pbytes s1 = sum_sizes (pending s1)) as S1b.
        { unfold s1; simpl. rewrite (sum_sizes_ins (cur s) x (pending s) Is). fold prev. lia. }
        pose proof (length_ins x (pending s)) as Hlen.
        assert (flush_up_to s1 (gid x) = (s', o) ->
                Inv maxr maxb s' /\ initialized s' = true /\ incl o (x :: pending s) /\ incl (pending s') (x :: pending s)
                /\ (true = false -> o = [x] /\ cur s' = gid x)
                /\ (true = true -> inc_from (cur s) o /\ all_le (cur s') o /\ cur s <= cur s')) as Hflush.
        { intros Hf.
          destruct (flush_spec maxr maxb s1 x s' o Ic S1s S1w S1b Hx Hgt (in_ins x (pending s))
                      ltac:(simpl; lia) ltac:(simpl; lia) Hf) as (F1 & F2 & F3 & F4 & F5 & F6 & F7).
          assert (incl (pending s') (pending s1)) as Hincl.
          { unfold flush_up_to in Hf.
            set (rest := filter (fun e => negb (in_range (cur s1) (gid x) e)) (pending s1)) in *.
            destruct (drain rest (gid x)) as [[o2 r2] c2] eqn:Ed.
            inversion Hf; subst s' o. simpl.
            assert (inc_from (gid x) rest) as Hrest.
            { apply inc_from_raise with (lo := cur s1); [apply inc_from_filter; exact S1s|].
              apply Forall_forall. intros e He. apply filter_In in He. destruct He as [Hein He].
              pose proof (inc_from_all_gt _ _ S1s) as Hall. rewrite Forall_forall in Hall. specialize (Hall e Hein).
              unfold in_range in He. lia. }
            destruct (drain_spec rest (gid x) o2 r2 c2 ltac:(destruct Hx; lia) Hrest
                        (wf_lt _ (Forall_filter _ _ _ S1w)) Ed) as (_ & _ & _ & _ & D5 & _).
            intros e He.
            assert (In e rest) as H1 by (rewrite D5; apply in_or_app; right; exact He).
            apply filter_In in H1. apply H1. }
          destruct s' as [si sc sp sb]. simpl in *. subst si.
          split; [exact F1|]. split; [reflexivity|].
          split; [intros e He; apply incl_ins; apply F6; exact He|].
          split; [intros e He; apply incl_ins; apply Hincl; exact He|].
          split; [discriminate|]. intros _. repeat split; assumption. }
        match type of Hp with (if ?c then _ else _) = _ => destruct c eqn:E1 end; [apply Hflush; exact Hp|].
        match type of Hp with (if ?c then _ else _) = _ => destruct c eqn:E2 end; [apply Hflush; exact Hp|].
        match type of Hp with (if ?c then _ else _) = _ => destruct c eqn:E3 end; [apply Hflush; exact Hp|].
        inversion Hp; subst s' o.
        split; [constructor; unfold s1 in *; simpl in *; fin|].
        repeat split; unfold s1; simpl; fin.
  - (* first push *)
    inversion Hp; subst s' o. simpl. rewrite (Iu eq_refl) in *. destruct Hx as [Hxr Hxs].
    split; [constructor; simpl; rewrite ?(Iu eq_refl); simpl; fin|].
    repeat split; simpl; fin.
Qed.

(* ---------------- histories ---------------- *)

Definition increasing (l : list sg) : Prop :=
  match l with [] => True | e :: r => inc_from (gid e) r end.

Lemma run_cons maxr maxb s x r :
  run maxr maxb s (x :: r) =
  (let '(s1, o) := push maxr maxb s x in let '(s2, os) := run maxr maxb s1 r in (s2, o :: os)).
Proof. reflexivity. Qed.

Lemma run_inv maxr maxb : 0 <= maxr -> 0 <= maxb -> forall xs s s' outs,
  Inv maxr maxb s -> Forall wf xs -> run maxr maxb s xs = (s', outs) -> Inv maxr maxb s'.
Proof.
  intros Hr Hb. induction xs as [|x r IH]; intros s s' outs HI Hwf Hrun.
  - inversion Hrun; subst; exact HI.
  - rewrite run_cons in Hrun. destruct (push maxr maxb s x) as [s1 o] eqn:Ep.
    destruct (run maxr maxb s1 r) as [s2 os] eqn:Er. inversion Hrun; subst s' outs.
    inversion Hwf as [|? ? Hx Hwf']; subst.
    destruct (push_spec _ _ _ _ _ _ Hr Hb HI Hx Ep) as (I1 & _). eapply IH; eassumption.
Qed.

Lemma run_increasing_from maxr maxb : 0 <= maxr -> 0 <= maxb -> forall xs s s' outs,
  Inv maxr maxb s -> initialized s = true -> Forall wf xs -> run maxr maxb s xs = (s', outs) ->
  inc_from (cur s) (concat outs).
Proof.
  intros Hr Hb. induction xs as [|x r IH]; intros s s' outs HI Hi Hwf Hrun.
  - inversion Hrun; subst; exact I.
  - rewrite run_cons in Hrun. destruct (push maxr maxb s x) as [s1 o] eqn:Ep.
    destruct (run maxr maxb s1 r) as [s2 os] eqn:Er. inversion Hrun; subst s' outs.
    inversion Hwf as [|? ? Hx Hwf']; subst.
    destruct (push_spec _ _ _ _ _ _ Hr Hb HI Hx Ep) as (I1 & I2 & _ & _ & _ & I6).
    destruct (I6 Hi) as (J1 & J2 & J3). simpl.
    apply inc_from_app with (b := cur s1); try assumption. eapply IH; eassumption.
Qed.

Lemma history_increasing maxr maxb xs s' outs : 0 <= maxr -> 0 <= maxb ->
  Forall wf xs -> run maxr maxb init_state xs = (s', outs) -> increasing (concat outs).
Proof.
  intros Hr Hb Hwf Hrun. destruct xs as [|x r]; [inversion Hrun; subst; exact I|].
  rewrite run_cons in Hrun. destruct (push maxr maxb init_state x) as [s1 o] eqn:Ep.
  destruct (run maxr maxb s1 r) as [s2 os] eqn:Er. inversion Hrun; subst s' outs.
  inversion Hwf as [|? ? Hx Hwf']; subst.
  destruct (push_spec _ _ _ _ _ _ Hr Hb (inv_init _ _ Hr Hb) Hx Ep) as (I1 & I2 & _ & _ & I5 & _).
  destruct (I5 eq_refl) as [-> Hc]. simpl. rewrite <- Hc.
  exact (run_increasing_from maxr maxb Hr Hb r s1 s2 os I1 I2 Hwf' Er).
Qed.

Lemma inc_from_nodup lo l : inc_from lo l -> NoDup l.
Proof.
  revert lo; induction l as [|e r IH]; intros lo H; [constructor|].
  destruct H as [_ Hr]. constructor; [|eapply IH; exact Hr].
  intros Hin. pose proof (inc_from_all_gt _ _ Hr) as Hall. rewrite Forall_forall in Hall.
  specialize (Hall e Hin). lia.
Qed.

Lemma increasing_nodup l : increasing l -> NoDup l.
Proof.
  destruct l as [|e r]; [constructor|]. simpl. intros H. constructor; [|eapply inc_from_nodup; exact H].
  intros Hin. pose proof (inc_from_all_gt _ _ H) as Hall. rewrite Forall_forall in Hall.
  specialize (Hall e Hin). lia.
Qed.

Lemma run_received maxr maxb : 0 <= maxr -> 0 <= maxb -> forall xs s s' outs,
  Inv maxr maxb s -> Forall wf xs -> run maxr maxb s xs = (s', outs) ->
  incl (concat outs) (pending s ++ xs) /\ incl (pending s') (pending s ++ xs).
Proof.
  intros Hr Hb. induction xs as [|x r IH]; intros s s' outs HI Hwf Hrun.
  - inversion Hrun; subst. simpl. rewrite app_nil_r. split; [intros e []|apply incl_refl].
  - rewrite run_cons in Hrun. destruct (push maxr maxb s x) as [s1 o] eqn:Ep.
    destruct (run maxr maxb s1 r) as [s2 os] eqn:Er. inversion Hrun; subst s' outs.
    inversion Hwf as [|? ? Hx Hwf']; subst.
    destruct (push_spec _ _ _ _ _ _ Hr Hb HI Hx Ep) as (I1 & _ & I3 & I4 & _).
    destruct (IH _ _ _ I1 Hwf' Er) as [K1 K2].
    assert (incl (pending s1 ++ r) (pending s ++ x :: r)) as Hmono.
    { intros e He. apply in_app_or in He. destruct He as [He|He].
      - apply I4 in He. destruct He as [<-|He]; apply in_or_app; [right; left; reflexivity|left; exact He].
      - apply in_or_app. right. right. exact He. }
    split.
    + simpl. intros e He. apply in_app_or in He. destruct He as [He|He].
      * apply I3 in He. destruct He as [<-|He]; apply in_or_app; [right; left; reflexivity|left; exact He].
      * apply Hmono, K1, He.
    + intros e He. apply Hmono, K2, He.
Qed.

Lemma history_received maxr maxb xs s' outs : 0 <= maxr -> 0 <= maxb ->
  Forall wf xs -> run maxr maxb init_state xs = (s', outs) ->
  incl (concat outs) xs /\ NoDup (concat outs).
Proof.
  intros Hr Hb Hwf Hrun. split.
  - destruct (run_received _ _ Hr Hb _ _ _ _ (inv_init _ _ Hr Hb) Hwf Hrun) as [H _]. exact H.
  - apply increasing_nodup. exact (history_increasing maxr maxb xs s' outs Hr Hb Hwf Hrun).
Qed.

Lemma history_bounds maxr maxb xs : 0 <= maxr -> 0 <= maxb -> Forall wf xs ->
  let s := fst (run maxr maxb init_state xs) in
  Z.of_nat (length (pending s)) <= maxr /\ pbytes s <= maxb /\ pbytes s = sum_sizes (pending s).
Proof.
  intros Hr Hb Hwf. destruct (run maxr maxb init_state xs) as [s outs] eqn:E. simpl.
  pose proof (run_inv _ _ Hr Hb _ _ _ _ (inv_init _ _ Hr Hb) Hwf E) as [_ _ _ _ H5 H6 H7]. auto.
Qed.

(* ---------------- the next subgroup is delivered immediately ---------------- *)

Lemma filter_le_nil lo m l : inc_from lo l -> m <= lo -> filter (fun e => gid e <=? m) l = [].
Proof.
  revert lo; induction l as [|y r IH]; intros lo H Hm; simpl; [reflexivity|].
  destruct H as [Hy Hr]. destruct (Z.leb_spec (gid y) m); [lia|]. eapply IH; [exact Hr|lia].
Qed.

Lemma filter_next c x l : inc_from c l -> gid x = c + 1 ->
  filter (fun e => gid e <=? gid x) (ins x l) = [x].
Proof.
  intros Hl Hx. destruct l as [|y r]; simpl.
  - rewrite Z.leb_refl. reflexivity.
  - destruct Hl as [Hy Hr]. destruct (Z.ltb_spec (gid x) (gid y)) as [Hlt|Hge].
    + simpl. rewrite Z.leb_refl. destruct (Z.leb_spec (gid y) (gid x)); [lia|].
      rewrite (filter_le_nil (gid y) (gid x) r Hr) by lia. reflexivity.
    + destruct (Z.eqb_spec (gid x) (gid y)) as [Heq|Hne]; [|lia].
      simpl. rewrite Z.leb_refl. rewrite (filter_le_nil (gid y) (gid x) r Hr) by lia. reflexivity.
Qed.

Lemma next_immediate maxr maxb s x :
  Inv maxr maxb s -> initialized s = true -> wf x -> gid x = cur s + 1 ->
  In x (snd (push maxr maxb s x)).
Proof.
  intros HI Hi [Hxr Hxs] Hnext. destruct HI as [_ Ic Is _ _ _ _]. unfold push. rewrite Hi. simpl.
  destruct (Z.leb_spec (gid x) (cur s)); [lia|].
  destruct ((gid x =? wrapu64 (cur s + 1)) && match pending s with [] => true | _ :: _ => false end);
    [left; reflexivity|].
  rewrite (filter_next (cur s) x (pending s) Is Hnext).
  replace (wrapu64 (gid x - cur s)) with 1 by (rewrite wrapu64_id; unfold two64; lia).
  simpl. unfold flush_up_to. simpl.
  destruct (drain _ (gid x)) as [[o2 r2] c2]. simpl. apply in_or_app. left.
  apply filter_In. split; [apply in_ins|]. unfold in_range. lia.
Qed.
