(* Proofs for C30 (retention deletes only expired segments of the right path). *)
From Coq Require Import List ZArith Bool Lia ZifyBool.
Require Import MTX.Lib.Civil MTX.Model.C26_RecPath MTX.Proofs.C26_RecPath MTX.Model.C26_Zone MTX.Proofs.C26_Zone
               MTX.Model.C31_DeleteSeg MTX.Proofs.C31_DeleteSeg MTX.Model.C30_Cleaner.
Import ListNotations.
Local Open Scope Z_scope.

(* ---------------------------------------------------------------- list facts *)

Lemma filter_all {A} (f : A -> bool) l : (forall x, In x l -> f x = true) -> filter f l = l.
Proof.
  induction l as [|x l IH]; intros H; [reflexivity|]. cbn [filter].
  rewrite (H x (or_introl eq_refl)). f_equal. apply IH. intros y Hy. apply H. right; exact Hy.
Qed.

Lemma filter_twice {A} (f g : A -> bool) l : filter f (filter g l) = filter (fun x => g x && f x) l.
Proof.
  induction l as [|x l IH]; [reflexivity|]. cbn [filter].
  destruct (g x); cbn [filter andb]; [destruct (f x); now rewrite IH|exact IH].
Qed.

(* removing the claims of one name after the other = removing everything claimed by some name *)
Lemma fold_filter_union {A B} (P : B -> A -> bool) (names : list B) : forall tr,
  fold_left (fun tr pn => filter (fun e => negb (P pn e)) tr) names tr =
  filter (fun e => negb (existsb (fun pn => P pn e) names)) tr.
Proof.
  induction names as [|a names IH]; intros tr.
  - cbn [fold_left existsb negb]. symmetry. apply filter_all. reflexivity.
  - cbn [fold_left existsb]. rewrite IH, filter_twice. apply filter_ext. intros e.
    now rewrite negb_orb.
Qed.

Lemma combine_seq_in {A} (l : list A) : forall s i c,
  In (i, c) (combine (seq s (length l)) l) <-> (s <= i)%nat /\ nth_error l (i - s) = Some c.
Proof.
  induction l as [|x l IH]; intros s i c.
  - cbn. split; [intros []|]. intros [_ H]. destruct (i - s)%nat; discriminate.
  - cbn [length seq combine In]. rewrite IH. split.
    + intros [H|[Hle H]].
      * inversion H; subst. split; [lia|]. now rewrite Nat.sub_diag.
      * split; [lia|]. replace (i - s)%nat with (S (i - S s)) by lia. exact H.
    + intros [Hle H]. destruct (Nat.eq_dec s i) as [->|Hne].
      * rewrite Nat.sub_diag in H. cbn in H. inversion H; subst. left; reflexivity.
      * right. split; [lia|]. replace (i - s)%nat with (S (i - S s)) in H by lia. exact H.
Qed.

Lemma combine_seq0_in {A} (l : list A) i c :
  In (i, c) (combine (seq 0 (length l)) l) <-> nth_error l i = Some c.
Proof. rewrite combine_seq_in, Nat.sub_0_r. split; [intros [_ H]; exact H|intros H; split; [lia|exact H]]. Qed.

(* ---------------------------------------------------------------- one pass *)

Section Cleaner.
Variable L : lzone.
Variable rematch : nat -> list Z -> bool.
Variable resolve : list Z -> option nat.

Notation recognises := (recognises L).
Notation path_names := (path_names L rematch).
Notation claimed := (claimed L resolve).
Notation deleted := (deleted L rematch resolve).
Notation run_seq := (run_seq L rematch resolve).

Lemma recognises_some g e r : recognises g e = Some r ->
  snd e = KOther /\ under (common_path g) (fst e) = true /\ decode_lz L g (fst e) = Some r.
Proof.
  unfold C30_Cleaner.recognises, is_file. destruct e as [p k]. cbn [fst snd].
  destruct k; cbn [andb]; [discriminate|].
  destruct (under (common_path g) p); [|discriminate]. intros H. repeat split; assumption.
Qed.

Lemma recognises_intro g e r :
  snd e = KOther -> under (common_path g) (fst e) = true -> decode_lz L g (fst e) = Some r ->
  recognises g e = Some r.
Proof.
  intros Hk Hu Hd. unfold C30_Cleaner.recognises, is_file. rewrite Hk, Hu. exact Hd.
Qed.

(* the sequential pass leaves exactly the entries no discovered path name claims *)
Theorem run_seq_union confs now tree :
  run_seq confs now tree =
  filter (fun e => negb (existsb (fun pn => claimed confs now pn e) (path_names confs tree))) tree.
Proof. unfold C30_Cleaner.run_seq, step. apply fold_filter_union. Qed.

Theorem run_seq_complement confs now tree e :
  In e (run_seq confs now tree) <-> In e tree /\ ~ In e (deleted confs now tree).
Proof.
  rewrite run_seq_union. unfold C30_Cleaner.deleted. rewrite !filter_In. split.
  - intros [Hin Hn]. split; [exact Hin|]. intros [_ Hc]. rewrite Hc in Hn. discriminate.
  - intros [Hin Hn]. split; [exact Hin|].
    destruct (existsb _ _) eqn:E; [|reflexivity]. exfalso. apply Hn. split; [exact Hin|reflexivity].
Qed.

(* what a claim means *)
Lemma claimed_spec confs now pn e : claimed confs now pn e = true <->
  exists j c p u n, resolve pn = Some j /\ nth_error confs j = Some c /\ pc_da c <> 0 /\
    valid_path_name pn = true /\ snd e = KOther /\
    under (common_path (seg_format c pn)) (fst e) = true /\
    decode_lz L (seg_format c pn) (fst e) = Some (p, u, n) /\ start_ns u n <= now - pc_da c.
Proof.
  unfold C30_Cleaner.claimed. split.
  - destruct (resolve pn) as [j|]; [|discriminate].
    destruct (nth_error confs j) as [c|] eqn:Hc; [|discriminate].
    rewrite !andb_true_iff. intros [[Hda Hv] Hr].
    destruct (recognises (seg_format c pn) e) as [[[p u] n]|] eqn:Hrec; [|discriminate].
    destruct (recognises_some _ _ _ Hrec) as (Hk & Hu & Hd).
    exists j, c, p, u, n. repeat split; try assumption; try reflexivity.
    all: lia.
  - intros (j & c & p & u & n & Hr & Hc & Hda & Hv & Hk & Hu & Hd & Hle).
    rewrite Hr, Hc, Hv. rewrite (recognises_intro _ _ _ Hk Hu Hd).
    rewrite !andb_true_iff. repeat split; lia.
Qed.

(* C30, first half: only expired segments of the right path are deleted *)
Theorem only_expired confs now tree e : In e (deleted confs now tree) ->
  In e tree /\ snd e = KOther /\
  exists pn j c p u n,
    In pn (path_names confs tree) /\ resolve pn = Some j /\ nth_error confs j = Some c /\
    pc_da c <> 0 /\ valid_path_name pn = true /\
    under (common_path (seg_format c pn)) (fst e) = true /\
    decode_lz L (seg_format c pn) (fst e) = Some (p, u, n) /\ start_ns u n <= now - pc_da c.
Proof.
  unfold C30_Cleaner.deleted. rewrite filter_In, existsb_exists. intros (Hin & pn & Hpn & Hc).
  apply claimed_spec in Hc. destruct Hc as (j & c & p & u & n & Hr & Hn & Hda & Hv & Hk & Hu & Hd & Hle).
  split; [exact Hin|]. split; [exact Hk|].
  exists pn, j, c, p, u, n. repeat split; assumption.
Qed.

(* ... and, by C26's whole-name theorem, its name is as a whole the literals of that path's format with
   well-shaped fields in between: no foreign prefix, suffix or infix (x.mp4.bak is never deleted) *)
Theorem deleted_whole_name confs now tree e : In e (deleted confs now tree) ->
  exists pn j c caps, resolve pn = Some j /\ nth_error confs j = Some c /\
    fst e = fill (tokenize (seg_format c pn)) caps /\ forallb cap_shape caps = true.
Proof.
  intros H. destruct (only_expired _ _ _ _ H) as (_ & _ & pn & j & c & p & u & n & _ & Hr & Hn & _ & _ & _ & Hd & _).
  destruct (whole_name_lz _ _ _ _ Hd) as (caps & Hf & Hs & _).
  exists pn, j, c, caps. repeat split; assumption.
Qed.

(* where path names come from *)
Theorem path_names_sound confs tree pn : In pn (path_names confs tree) ->
  exists i c, nth_error confs i = Some c /\
    ((pc_regex c = false /\ pn = pc_name c /\
      exists e r, In e tree /\ recognises (seg_format c (pc_name c)) e = Some r)
     \/ (pc_regex c = true /\ valid_path_name pn = true /\ rematch i pn = true /\
         exists e u n, In e tree /\ recognises (pc_rp c ++ pc_ext c) e = Some (pn, u, n))).
Proof.
  unfold C30_Cleaner.path_names. rewrite in_flat_map. intros ([i c] & Hic & Hpn).
  apply combine_seq0_in in Hic. exists i, c. split; [exact Hic|].
  destruct (pc_regex c) eqn:Hre.
  - right. unfold regex_names in Hpn. apply in_flat_map in Hpn. destruct Hpn as (e & He & Hp).
    destruct (recognises (pc_rp c ++ pc_ext c) e) as [[[p u] n]|] eqn:Hrec; [|destruct Hp].
    destruct (valid_path_name p && rematch i p) eqn:Hv; [|destruct Hp].
    destruct Hp as [<-|[]]. apply andb_true_iff in Hv. destruct Hv as [Hv Hm].
    repeat split; try assumption. exists e, u, n. split; assumption.
  - left. destruct (fixed_has_segments L c tree) eqn:Hf; [|destruct Hpn].
    destruct Hpn as [<-|[]]. repeat split.
    unfold fixed_has_segments in Hf. apply existsb_exists in Hf. destruct Hf as (e & He & Hr).
    destruct (recognises (seg_format c (pc_name c)) e) as [r|] eqn:Hrec; [|discriminate].
    exists e, r. split; [exact He|exact Hrec].
Qed.

Lemma discovered_static confs tree j c e r :
  nth_error confs j = Some c -> pc_regex c = false -> In e tree ->
  recognises (seg_format c (pc_name c)) e = Some r -> In (pc_name c) (path_names confs tree).
Proof.
  intros Hn Hre He Hr. unfold C30_Cleaner.path_names. apply in_flat_map. exists (j, c).
  split; [now apply combine_seq0_in|]. rewrite Hre.
  assert (Hf : fixed_has_segments L c tree = true).
  { unfold fixed_has_segments. apply existsb_exists. exists e. split; [exact He|]. now rewrite Hr. }
  rewrite Hf. left; reflexivity.
Qed.

Lemma discovered_regex confs tree i c e pn u n :
  nth_error confs i = Some c -> pc_regex c = true -> In e tree ->
  recognises (pc_rp c ++ pc_ext c) e = Some (pn, u, n) -> valid_path_name pn = true -> rematch i pn = true ->
  In pn (path_names confs tree).
Proof.
  intros Hn Hre He Hr Hv Hm. unfold C30_Cleaner.path_names. apply in_flat_map. exists (i, c).
  split; [now apply combine_seq0_in|]. rewrite Hre. unfold regex_names. apply in_flat_map.
  exists e. split; [exact He|]. rewrite Hr, Hv, Hm. left; reflexivity.
Qed.

(* C30, second half: every expired segment of a discovered path, lying under the common path of the
   configuration the path resolves to (deleteAfter <> 0), is deleted *)
Theorem all_expired confs now tree e pn j c p u n :
  In e tree -> snd e = KOther -> In pn (path_names confs tree) ->
  resolve pn = Some j -> nth_error confs j = Some c -> pc_da c <> 0 -> valid_path_name pn = true ->
  under (common_path (seg_format c pn)) (fst e) = true ->
  decode_lz L (seg_format c pn) (fst e) = Some (p, u, n) -> start_ns u n <= now - pc_da c ->
  In e (deleted confs now tree).
Proof.
  intros He Hk Hpn Hr Hn Hda Hv Hu Hd Hle. unfold C30_Cleaner.deleted. apply filter_In. split; [exact He|].
  apply existsb_exists. exists pn. split; [exact Hpn|]. apply claimed_spec.
  exists j, c, p, u, n. repeat split; assumption.
Qed.

(* for a static configuration the segment itself makes the path discovered *)
Theorem all_expired_static confs now tree e j c p u n :
  In e tree -> snd e = KOther -> nth_error confs j = Some c -> pc_regex c = false ->
  resolve (pc_name c) = Some j -> pc_da c <> 0 -> valid_path_name (pc_name c) = true ->
  under (common_path (seg_format c (pc_name c))) (fst e) = true ->
  decode_lz L (seg_format c (pc_name c)) (fst e) = Some (p, u, n) -> start_ns u n <= now - pc_da c ->
  In e (deleted confs now tree).
Proof.
  intros He Hk Hn Hre Hr Hda Hv Hu Hd Hle.
  apply (all_expired confs now tree e (pc_name c) j c p u n); try assumption.
  apply (discovered_static confs tree j c e (p, u, n)); try assumption.
  apply recognises_intro; assumption.
Qed.

(* every expired segment the recorder wrote (C26's Encode of the record path with the path name) for a
   path that resolves to a regular-expression configuration matching it is deleted *)
Theorem all_expired_recorded confs now tree e pn j c t :
  let F := pc_rp c ++ pc_ext c in
  let g := seg_format c pn in
  In e tree -> snd e = KOther -> fst e = encode_go F pn t ->
  resolve pn = Some j -> nth_error confs j = Some c -> pc_regex c = true -> rematch j pn = true ->
  pc_da c <> 0 -> valid_path_name pn = true -> name_ok pn = true -> Forall (fun x => x <> 37) (pc_ext c) ->
  no_stray (tokenize (pc_rp c)) = true ->
  wf_format F = true -> identifies (tokenize F) = true -> encodable_lz L (tokenize F) t = true ->
  no_stray (tokenize g) = true -> no_path (tokenize g) = true -> identifies (tokenize g) = true ->
  encodable_lz L (tokenize g) t = true ->
  under (common_path F) (fst e) = true -> under (common_path g) (fst e) = true ->
  start_ns (fst (trunc_start (tokenize g) t)) (snd (trunc_start (tokenize g) t)) <= now - pc_da c ->
  In e (deleted confs now tree).
Proof.
  intros F g He Hk Hname Hr Hn Hre Hm Hda Hv Hok Hext Hsrp HwF HiF HeF Hsg Hpg Hig Heg HuF Hug Hle.
  assert (Hname' : fst e = encode_go g [] t).
  { rewrite Hname. symmetry. apply path_format_encode; [exact Hsrp|apply name_ok_no37; exact Hok|exact Hext]. }
  apply (all_expired confs now tree e pn j c [] (fst (trunc_start (tokenize g) t)) (snd (trunc_start (tokenize g) t)) He Hk);
    try assumption.
  - apply (discovered_regex confs tree j c e pn (fst (trunc_start (tokenize F) t)) (snd (trunc_start (tokenize F) t)));
      try assumption.
    apply recognises_intro; [exact Hk|exact HuF|]. rewrite Hname. apply roundtrip_lz; assumption.
  - rewrite Hname'. apply roundtrip_nopath_lz; assumption.
Qed.

End Cleaner.

(* ---------------------------------------------------------------- full whole-name; zone tables *)

(* a deleted file's name is exactly what Encode writes for the path and start Decode reports *)
Theorem deleted_is_encoding L rematch resolve confs now tree e :
  In e (deleted L rematch resolve confs now tree) ->
  exists pn j c p u n off, resolve pn = Some j /\ nth_error confs j = Some c /\
    decode_lz L (seg_format c pn) (fst e) = Some (p, u, n) /\
    fst e = encode_go (seg_format c pn) p (mkI u n off) /\ start_ns u n <= now - pc_da c.
Proof.
  intros H. destruct (only_expired _ _ _ _ _ _ _ H) as (_ & _ & pn & j & c & p & u & n & _ & Hr & Hn & _ & _ & _ & Hd & Hle).
  destruct (whole_name_full _ _ _ _ _ _ Hd) as (off & Hv).
  exists pn, j, c, p, u, n, off. repeat split; assumption.
Qed.

(* all_expired_recorded for any local zone in which the decoded Start shows the reading that was
   written: the segment is judged on the Start the listing reports *)
Theorem all_expired_recorded_wall L rematch resolve confs now tree e pn j c t :
  let F := pc_rp c ++ pc_ext c in
  let g := seg_format c pn in
  In e tree -> snd e = KOther -> fst e = encode_go F pn t ->
  resolve pn = Some j -> nth_error confs j = Some c -> pc_regex c = true -> rematch j pn = true ->
  pc_da c <> 0 -> valid_path_name pn = true -> name_ok pn = true -> Forall (fun x => x <> 37) (pc_ext c) ->
  no_stray (tokenize (pc_rp c)) = true ->
  wf_format F = true -> identifies (tokenize F) = true -> enc_ranges (tokenize F) t = true ->
  no_stray (tokenize g) = true -> no_path (tokenize g) = true -> identifies (tokenize g) = true ->
  enc_ranges (tokenize g) t = true ->
  (forall ts, decoded_unix L ts t + lz_at L (decoded_unix L ts t) = i_unix t + i_off t) ->
  under (common_path F) (fst e) = true -> under (common_path g) (fst e) = true ->
  start_ns (decoded_unix L (tokenize g) t) (snd (trunc_start (tokenize g) t)) <= now - pc_da c ->
  In e (deleted L rematch resolve confs now tree).
Proof.
  intros F g He Hk Hname Hr Hn Hre Hm Hda Hv Hok Hext Hsrp HwF HiF HeF Hsg Hpg Hig Heg Hwall HuF Hug Hle.
  assert (Hname' : fst e = encode_go g [] t).
  { rewrite Hname. symmetry. apply path_format_encode; [exact Hsrp|apply name_ok_no37; exact Hok|exact Hext]. }
  apply (all_expired L rematch resolve confs now tree e pn j c [] (decoded_unix L (tokenize g) t)
           (snd (trunc_start (tokenize g) t)) He Hk); try assumption.
  - apply (discovered_regex L rematch confs tree j c e pn (decoded_unix L (tokenize F) t) (snd (trunc_start (tokenize F) t)));
      try assumption.
    apply recognises_intro; [exact Hk|exact HuF|]. rewrite Hname. apply roundtrip_wall; try assumption.
    intros _. apply Hwall.
  - rewrite Hname'. apply roundtrip_nopath_wall; try assumption. intros _. apply Hwall.
Qed.

(* in a zone-database zone: every segment the recorder wrote - repeated hours included - is deleted once
   the Start the listing reports for it has expired *)
Theorem all_expired_recorded_zone B z rematch resolve confs now tree e pn j c u n :
  zone_ok B z = true ->
  let t := local_instant z u n in
  let F := pc_rp c ++ pc_ext c in
  let g := seg_format c pn in
  In e tree -> snd e = KOther -> fst e = encode_go F pn t ->
  resolve pn = Some j -> nth_error confs j = Some c -> pc_regex c = true -> rematch j pn = true ->
  pc_da c <> 0 -> valid_path_name pn = true -> name_ok pn = true -> Forall (fun x => x <> 37) (pc_ext c) ->
  no_stray (tokenize (pc_rp c)) = true ->
  wf_format F = true -> identifies (tokenize F) = true -> enc_ranges (tokenize F) t = true ->
  no_stray (tokenize g) = true -> no_path (tokenize g) = true -> identifies (tokenize g) = true ->
  enc_ranges (tokenize g) t = true ->
  under (common_path F) (fst e) = true -> under (common_path g) (fst e) = true ->
  start_ns (decoded_unix (lz_of_zone z) (tokenize g) t) (snd (trunc_start (tokenize g) t)) <= now - pc_da c ->
  In e (deleted (lz_of_zone z) rematch resolve confs now tree).
Proof.
  intros Hok t F g. intros. eapply all_expired_recorded_wall with (t := t); try eassumption.
  intros ts. exact (decoded_wall_zone B z ts u n Hok).
Qed.

(* that Start is the recorded instant outside the repeated hours ... *)
Lemma decoded_exact_zone B z ts u n : zone_ok B z = true -> in_repeat (lookup z) u = false ->
  decoded_unix (lz_of_zone z) ts (local_instant z u n) = u.
Proof.
  intros Hok Hrep. unfold decoded_unix. cbn [local_instant i_unix i_off lz_of_zone lz_date].
  destruct (has Ts ts); [reflexivity|]. destruct (has Tz ts); [lia|].
  rewrite (zone_date_recovers B z Hok u Hrep). lia.
Qed.
