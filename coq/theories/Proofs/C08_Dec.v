(* C08 — decimal numerals: printing and parsing lemmas shared by the codec proofs. *)
From Coq Require Import List ZArith Bool Lia.
Require Import MTX.Lib.IntWrap MTX.Lib.Utf8 MTX.Model.C08_Scalars.
Import ListNotations.
Local Open Scope Z_scope.

Lemma is_digit_spec c : is_digit c = true <-> 48 <= c <= 57.
Proof. unfold is_digit. rewrite andb_true_iff, !Z.leb_le. tauto. Qed.

Lemma is_digit_false c : is_digit c = false <-> (c < 48 \/ 57 < c).
Proof.
  unfold is_digit. rewrite andb_false_iff, !Z.leb_gt. tauto.
Qed.

Lemma digits_val_app s : forall a t, digits_val a (s ++ t) = digits_val (digits_val a s) t.
Proof. induction s as [|c s IH]; intros a t; simpl; [reflexivity|apply IH]. Qed.

Lemma digits_val_mono s : forall a, 0 <= a -> forallb is_digit s = true -> a <= digits_val a s.
Proof.
  induction s as [|c s IH]; intros a Ha Hd; simpl in *; [lia|].
  apply andb_true_iff in Hd as [Hc Hs]. apply is_digit_spec in Hc.
  specialize (IH (a * 10 + (c - 48)) ltac:(lia) Hs). lia.
Qed.

Lemma digits_val_nonneg s a : 0 <= a -> forallb is_digit s = true -> 0 <= digits_val a s.
Proof. intros Ha Hd. pose proof (digits_val_mono s a Ha Hd). lia. Qed.

(* ---- dec_fuel *)

Lemma pow10_succ f : 10 ^ Z.of_nat (S f) = 10 * 10 ^ Z.of_nat f.
Proof. rewrite Nat2Z.inj_succ, Z.pow_succ_r by lia. reflexivity. Qed.

Lemma dec_fuel_val f : forall n, 0 <= n < 10 ^ Z.of_nat f -> digits_val 0 (dec_fuel f n) = n.
Proof.
  induction f as [|f IH]; intros n Hn.
  - change (10 ^ Z.of_nat 0) with 1 in Hn. simpl. lia.
  - cbn [dec_fuel]. destruct (n <? 10) eqn:E.
    + cbn [digits_val]. lia.
    + apply Z.ltb_ge in E. rewrite pow10_succ in Hn.
      rewrite digits_val_app, IH.
      * cbn [digits_val]. pose proof (Z.div_mod n 10 ltac:(lia)). lia.
      * split; [apply Z.div_pos; lia|]. apply Z.div_lt_upper_bound; lia.
Qed.

Lemma dec_fuel_digits f : forall n, 0 <= n < 10 ^ Z.of_nat f -> forallb is_digit (dec_fuel f n) = true.
Proof.
  induction f as [|f IH]; intros n Hn.
  - reflexivity.
  - cbn [dec_fuel]. destruct (n <? 10) eqn:E.
    + apply Z.ltb_lt in E. destruct Hn as [Hn0 _]. cbn [forallb]. rewrite andb_true_r. apply is_digit_spec. lia.
    + apply Z.ltb_ge in E. rewrite pow10_succ in Hn. rewrite forallb_app, IH.
      * cbn [forallb]. rewrite andb_true_r. apply is_digit_spec.
        pose proof (Z.mod_pos_bound n 10 ltac:(lia)). lia.
      * split; [apply Z.div_pos; lia|]. apply Z.div_lt_upper_bound; lia.
Qed.

Lemma dec_fuel_nonempty f n : dec_fuel (S f) n <> [].
Proof.
  cbn [dec_fuel]. destruct (n <? 10); [discriminate|].
  intros H. apply app_eq_nil in H as [_ H]. discriminate.
Qed.

(* the first digit is '0' only for the numeral "0" *)
Lemma dec_fuel_head f : forall n, 0 <= n < 10 ^ Z.of_nat (S f) ->
  exists c r, dec_fuel (S f) n = c :: r /\ 48 <= c <= 57 /\ (c = 48 -> n = 0 /\ r = []).
Proof.
  induction f as [|f IH]; intros n Hn.
  - change (10 ^ Z.of_nat 1) with 10 in Hn. cbn [dec_fuel].
    replace (n <? 10) with true by (symmetry; apply Z.ltb_lt; lia).
    exists (48 + n), []. repeat split; lia.
  - remember (S f) as g. cbn [dec_fuel]. destruct (n <? 10) eqn:E.
    + apply Z.ltb_lt in E. destruct Hn as [Hn0 _]. exists (48 + n), []. repeat split; lia.
    + apply Z.ltb_ge in E. rewrite pow10_succ in Hn. subst g.
      destruct (IH (n / 10)) as (c & r & Hd & Hc & H0).
      { split; [apply Z.div_pos; lia|]. apply Z.div_lt_upper_bound; lia. }
      rewrite Hd. exists c, (r ++ [48 + n mod 10]). split; [reflexivity|]. split; [exact Hc|].
      intros Hc0. destruct (H0 Hc0) as [Hz _].
      assert (n / 10 > 0) by (apply Z.lt_gt, Z.div_str_pos; lia). lia.
Qed.

Lemma pow10_40 : 10 ^ Z.of_nat 40 = 10000000000000000000000000000000000000000.
Proof. reflexivity. Qed.

Definition dec_range (n : Z) : Prop := 0 <= n < 10 ^ Z.of_nat 40.

Lemma dec_range_u64 n : 0 <= n <= two64 -> dec_range n.
Proof. unfold dec_range, two64. rewrite pow10_40. lia. Qed.

Lemma dec_val n : dec_range n -> digits_val 0 (dec n) = n.
Proof. apply dec_fuel_val. Qed.

Lemma dec_digits n : dec_range n -> forallb is_digit (dec n) = true.
Proof. apply dec_fuel_digits. Qed.

Lemma dec_nonempty n : dec n <> [].
Proof. apply dec_fuel_nonempty. Qed.

Lemma dec_head n : dec_range n ->
  exists c r, dec n = c :: r /\ 48 <= c <= 57 /\ (c = 48 -> n = 0 /\ r = []).
Proof. apply dec_fuel_head. Qed.

(* ---- span over a run of digits followed by something else *)

Definition starts_nondigit (s : list Z) : Prop := match s with [] => True | c :: _ => is_digit c = false end.

Lemma span_digits ds : forall rest, forallb is_digit ds = true -> starts_nondigit rest ->
  span is_digit (ds ++ rest) = (ds, rest).
Proof.
  induction ds as [|c ds IH]; intros rest Hd Hr; simpl in *.
  - destruct rest as [|c r]; [reflexivity|]. simpl in Hr. simpl. rewrite Hr. reflexivity.
  - apply andb_true_iff in Hd as [Hc Hs]. rewrite Hc, IH by assumption. reflexivity.
Qed.

Lemma span_all (p : Z -> bool) ds : forall rest, forallb p ds = true ->
  match rest with [] => True | c :: _ => p c = false end ->
  span p (ds ++ rest) = (ds, rest).
Proof.
  induction ds as [|c ds IH]; intros rest Hd Hr; simpl in *.
  - destruct rest as [|c r]; [reflexivity|]. simpl. rewrite Hr. reflexivity.
  - apply andb_true_iff in Hd as [Hc Hs]. rewrite Hc, IH by assumption. reflexivity.
Qed.
