(* Proofs for Model/C40_StreamLock.v: with the programs of the code (`prog Code`) no schedule of any number of
   concurrent Stream operations reaches a panic state, the mutex is a mutex, a registered reader is never visible
   outside a critical section while hasReaders is still open, every operation completes; the edited program tables
   are refuted by concrete schedules. *)
From Coq Require Import List Arith Bool Lia.
Require Import MTX.Model.C40_StreamLock.
Import ListNotations.
Import SL.

(* ---- where a goroutine is with respect to the mutex, read off the code it still has to execute ------------------ *)
Inductive stg := SNo | SAnn | SW | SR.

Definition is_lockreq i := match i with ILockReq => true | _ => false end.
Definition is_unlock i := match i with IUnlock => true | _ => false end.
Definition is_rlock i := match i with IRLock => true | _ => false end.
Definition is_runlock i := match i with IRUnlock => true | _ => false end.

Definition stage (c : list instr) : stg :=
  if existsb is_lockreq c then SNo
  else match c with
       | ILockAcq :: _ => SAnn
       | _ => if existsb is_unlock c then SW
              else if existsb is_rlock c then SNo
              else if existsb is_runlock c then SR else SNo
       end.

Fixpoint tails (l : list instr) : list (list instr) :=
  l :: match l with [] => [] | _ :: t => tails t end.

Lemma tails_self l : In l (tails l).
Proof. destruct l; simpl; auto. Qed.

Lemma tails_tl l : forall i c, In (i :: c) (tails l) -> In c (tails l).
Proof.
  induction l as [|a l IH]; intros i c H; simpl in H.
  - destruct H as [H|[]]; discriminate.
  - destruct H as [H|H].
    + inversion H; subst. simpl. right. apply tails_self.
    + simpl. right. eapply IH; exact H.
Qed.

Definition lock_ok (x : glob) (p : nat) (st : stg) : Prop :=
  match st with
  | SNo => owns x p = false /\ holds_r x p = false
  | SAnn => owns x p = true /\ wheld x = false /\ holds_r x p = false
  | SW => owns x p = true /\ wheld x = true /\ holds_r x p = false
  | SR => owns x p = false /\ holds_r x p = true
  end.

(* inside AddReader: registered, the close not yet decided / done *)
Definition mid_add (c : list instr) : bool :=
  match c with ICheckHas :: _ | ICloseHas :: _ => true | _ => false end.
Definition add_done (c : list instr) : bool := match c with [IUnlock] | [] => true | _ => false end.

Record Inv (s : state) : Prop := {
  i_panic : panic s = None;
  i_proc : forall p pr, nth_error (procs s) p = Some pr ->
      In (p_code pr) (tails (prog Code (p_op pr)))
      /\ lock_ok (g s) p (stage (p_code pr))
      /\ (forall t, p_code pr = ICloseHas :: t -> p_flag pr = negb (has_closed (g s)))
      /\ (is_add (p_op pr) = true -> add_done (p_code pr) = true -> has_closed (g s) = true);
  i_own : forall p, wown (g s) = Some p -> p < length (procs s);
  i_rd : forall p, In p (rdh (g s)) -> p < length (procs s);
  i_excl : wheld (g s) = true -> rdh (g s) = [] /\ wown (g s) <> None;
  i_hand : has_closed (g s) = false -> forall r, In r (readers (g s)) ->
      exists p pr, nth_error (procs s) p = Some pr /\ p_op pr = OpAdd r /\ mid_add (p_code pr) = true;
}.

(* ---- lists ------------------------------------------------------------------------------------------------------- *)
Lemma set_nth_length p pr l : length (set_nth p pr l) = length l.
Proof. revert p; induction l as [|a l IH]; intros [|p]; simpl; auto. Qed.

Lemma nth_set_nth_eq l : forall p pr, p < length l -> nth_error (set_nth p pr l) p = Some pr.
Proof. induction l as [|a l IH]; intros [|p] pr H; simpl in *; try lia; auto. apply IH; lia. Qed.

Lemma nth_set_nth_ne l : forall p q pr, q <> p -> nth_error (set_nth p pr l) q = nth_error l q.
Proof. induction l as [|a l IH]; intros [|p] [|q] pr H; simpl; auto; try congruence. Qed.

Lemma nth_lt {A} (l : list A) p x : nth_error l p = Some x -> p < length l.
Proof. intros H. apply nth_error_Some. congruence. Qed.

Lemma memn_In x l : memn x l = true <-> In x l.
Proof.
  unfold memn. rewrite existsb_exists. split.
  - intros [y [Hy He]]. apply Nat.eqb_eq in He. subst. exact Hy.
  - intros H. exists x. split; [exact H|apply Nat.eqb_refl].
Qed.

Lemma memn_false x l : memn x l = false <-> ~ In x l.
Proof. rewrite <- memn_In. destruct (memn x l); split; intros; congruence. Qed.

Lemma memn_deln_ne p q l : q <> p -> memn q (deln p l) = memn q l.
Proof.
  intros H. induction l as [|a l IH]; simpl; [reflexivity|].
  destruct (Nat.eqb_spec p a) as [->|Hn]; simpl.
  - rewrite IH. destruct (Nat.eqb_spec q a); [congruence|reflexivity].
  - rewrite IH. reflexivity.
Qed.

Lemma memn_deln_eq p l : memn p (deln p l) = false.
Proof.
  apply memn_false. unfold deln. intros H. apply filter_In in H. destruct H as [_ H].
  rewrite Nat.eqb_refl in H. discriminate.
Qed.

Lemma In_deln x p l : In x (deln p l) -> In x l.
Proof. unfold deln. intros H. apply filter_In in H. tauto. Qed.

(* ---- the shared part under the setters --------------------------------------------------------------------------- *)
Lemma owns_spec x p : owns x p = true <-> wown x = Some p.
Proof.
  unfold owns. destruct (wown x) as [q|]; split; intros H; try discriminate.
  - apply Nat.eqb_eq in H. congruence.
  - inversion H. apply Nat.eqb_refl.
Qed.

Lemma owns_unique x p q : owns x p = true -> owns x q = true -> p = q.
Proof. rewrite !owns_spec. congruence. Qed.

Lemma lock_ok_other x y p :
  (forall q, q <> p -> owns y q = owns x q /\ holds_r y q = holds_r x q) ->
  (wheld y = wheld x \/ forall q, q <> p -> owns x q = false) ->
  forall q st, q <> p -> lock_ok x q st -> lock_ok y q st.
Proof.
  intros H1 H2 q st Hq H. destruct (H1 q Hq) as [Ho Hr].
  destruct st; simpl in *; rewrite Ho, Hr.
  - exact H.
  - destruct H as (A & B & C). destruct H2 as [H2|H2]; [rewrite H2; auto|rewrite (H2 q Hq) in A; discriminate].
  - destruct H as (A & B & C). destruct H2 as [H2|H2]; [rewrite H2; auto|rewrite (H2 q Hq) in A; discriminate].
  - exact H.
Qed.

Lemma lock_ok_same x y :
  wown y = wown x -> wheld y = wheld x -> rdh y = rdh x -> forall q st, lock_ok x q st -> lock_ok y q st.
Proof.
  intros A B C q st H. unfold lock_ok, owns, holds_r in *. rewrite A, B, C. exact H.
Qed.

(* ---- the invariant is kept by a step of goroutine p ------------------------------------------------------------- *)
Lemma at_close_stage o t : In (ICloseHas :: t) (tails (prog Code o)) -> stage (ICloseHas :: t) = SW.
Proof.
  intros Ht. destruct o as [r|r|ss|ss| | | | |[|]]; simpl in Ht;
    repeat (destruct Ht as [Ht|Ht]; [try discriminate; inversion Ht; subst; reflexivity|]); contradiction.
Qed.

Lemma inv_update s p pr i rest x fl :
  Inv s -> nth_error (procs s) p = Some pr -> p_code pr = i :: rest ->
  lock_ok x p (stage rest) ->
  (forall t, rest = ICloseHas :: t -> fl = negb (has_closed x)) ->
  (is_add (p_op pr) = true -> add_done rest = true -> has_closed x = true) ->
  (forall q st, q <> p -> lock_ok (g s) q st -> lock_ok x q st) ->
  (has_closed x = has_closed (g s) \/ (has_closed x = true /\ i = ICloseHas)) ->
  (forall q, wown x = Some q -> q < length (procs s)) ->
  (forall q, In q (rdh x) -> q < length (procs s)) ->
  (wheld x = true -> rdh x = [] /\ wown x <> None) ->
  (has_closed x = false -> forall r, In r (readers x) ->
       (In r (readers (g s)) /\ (p_op pr = OpAdd r -> mid_add (i :: rest) = true -> mid_add rest = true))
       \/ (p_op pr = OpAdd r /\ mid_add rest = true)) ->
  Inv {| procs := set_nth p (mkProc (p_op pr) rest fl) (procs s); g := x; panic := None |}.
Proof.
  intros I En Ec Hlp Hfp Hap Hlo Hhc Hown Hrd Hex Hrs.
  pose proof (nth_lt _ _ _ En) as Hlt.
  constructor; simpl.
  - reflexivity.
  - intros q qr Hq. destruct (Nat.eq_dec q p) as [->|Hne].
    + rewrite nth_set_nth_eq in Hq by exact Hlt. inversion Hq; subst qr; clear Hq. simpl.
      destruct (i_proc _ I p pr En) as (Ht & _). rewrite Ec in Ht.
      split; [eapply tails_tl; exact Ht|]. split; [exact Hlp|]. split; [exact Hfp|exact Hap].
    + rewrite nth_set_nth_ne in Hq by exact Hne.
      destruct (i_proc _ I q qr Hq) as (Ht & Hl & Hf & Ha).
      split; [exact Ht|]. split; [apply Hlo; assumption|]. split.
      * intros t Et. destruct Hhc as [Hhc|[Hhc Hop]]; [rewrite Hhc; eapply Hf; exact Et|].
        (* q sits at the close: it holds the write lock, and so does p *)
        exfalso. rewrite Et in Ht, Hl. rewrite (at_close_stage _ _ Ht) in Hl. destruct Hl as (A & _).
        destruct (i_proc _ I p pr En) as (Htp & Hlp0 & _). rewrite Ec, Hop in Htp, Hlp0.
        rewrite (at_close_stage _ _ Htp) in Hlp0. destruct Hlp0 as (B & _).
        apply Hne. eapply owns_unique; eassumption.
      * intros A B. destruct Hhc as [Hhc|[Hhc _]]; [rewrite Hhc; auto|exact Hhc].
  - intros q Hq. rewrite set_nth_length. auto.
  - intros q Hq. rewrite set_nth_length. auto.
  - exact Hex.
  - intros Hc r Hr. destruct (Hrs Hc r Hr) as [[Hin Hmid]|[Hop Hmid]].
    + assert (Hc0 : has_closed (g s) = false).
      { destruct Hhc as [Hhc|[Hhc _]]; congruence. }
      destruct (i_hand _ I Hc0 r Hin) as (w & wr & Hw & Hwo & Hwm).
      destruct (Nat.eq_dec w p) as [->|Hne].
      * rewrite En in Hw. inversion Hw; subst wr; clear Hw. rewrite Ec in Hwm.
        exists p, (mkProc (p_op pr) rest fl). rewrite nth_set_nth_eq by exact Hlt. simpl. auto.
      * exists w, wr. rewrite nth_set_nth_ne by exact Hne. auto.
    + exists p, (mkProc (p_op pr) rest fl). rewrite nth_set_nth_eq by exact Hlt. simpl. auto.
Qed.

Lemma holds_r_spec x p : holds_r x p = true <-> In p (rdh x).
Proof. unfold holds_r. apply memn_In. Qed.

(* what a step of p does to everybody else and to the mutex, whatever p's operation is *)
Lemma exec_frame s p pr i rest x fl' :
  Inv s -> nth_error (procs s) p = Some pr -> p_code pr = i :: rest -> exec p (p_flag pr) i (g s) = Next x fl' ->
  (forall q st, q <> p -> lock_ok (g s) q st -> lock_ok x q st) /\
  (has_closed x = has_closed (g s) \/ (has_closed x = true /\ i = ICloseHas)) /\
  (forall q, wown x = Some q -> q < length (procs s)) /\
  (forall q, In q (rdh x) -> q < length (procs s)) /\
  (wheld x = true -> rdh x = [] /\ wown x <> None).
Proof.
  intros I En Ec He. pose proof (nth_lt _ _ _ En) as Hlt.
  pose proof (i_own _ I) as Ho. pose proof (i_rd _ I) as Hr. pose proof (i_excl _ I) as Hx.
  assert (Same : forall y, wown y = wown (g s) -> wheld y = wheld (g s) -> rdh y = rdh (g s) ->
            has_closed y = has_closed (g s) \/ (has_closed y = true /\ i = ICloseHas) ->
            (forall q st, q <> p -> lock_ok (g s) q st -> lock_ok y q st) /\
            (has_closed y = has_closed (g s) \/ (has_closed y = true /\ i = ICloseHas)) /\
            (forall q, wown y = Some q -> q < length (procs s)) /\
            (forall q, In q (rdh y) -> q < length (procs s)) /\
            (wheld y = true -> rdh y = [] /\ wown y <> None)).
  { intros y A B C D. split; [intros q st _; apply lock_ok_same; assumption|]. split; [exact D|].
    rewrite A, B, C. auto. }
  destruct i; simpl in He.
  - (* ILockReq *)
    destruct (wown (g s)) eqn:Ew; [discriminate|]. inversion He; subst; clear He. simpl.
    split.
    { apply lock_ok_other.
      - intros q Hq. unfold owns, holds_r; simpl. rewrite Ew. split; [|reflexivity].
        destruct (Nat.eqb_spec p q); congruence.
      - right. intros q _. unfold owns. rewrite Ew. reflexivity. }
    split; [left; reflexivity|]. split; [intros q Hq; inversion Hq; subst; exact Hlt|]. split; [exact Hr|].
    intros H. destruct (wheld (g s)) eqn:Eh; [|discriminate]. destruct (Hx eq_refl) as [_ C]. congruence.
  - (* ILockAcq *)
    destruct (owns (g s) p) eqn:Eo; [|discriminate]. destruct (rdh (g s)) eqn:Er; [|discriminate].
    inversion He; subst; clear He. simpl. apply owns_spec in Eo.
    split.
    { apply lock_ok_other.
      - intros q Hq. unfold owns, holds_r; simpl. rewrite Eo, Er. split; reflexivity.
      - right. intros q Hq. unfold owns. rewrite Eo. destruct (Nat.eqb_spec p q); congruence. }
    split; [left; reflexivity|]. split; [intros q Hq; inversion Hq; subst; exact Hlt|].
    split; [intros q []|]. intros _. split; [reflexivity|discriminate].
  - (* IUnlock *)
    destruct (holds_w (g s) p) eqn:Eh; [|discriminate]. inversion He; subst; clear He. simpl.
    unfold holds_w in Eh. apply andb_prop in Eh. destruct Eh as [Eo Eh]. apply owns_spec in Eo.
    split.
    { apply lock_ok_other.
      - intros q Hq. unfold owns, holds_r; simpl. rewrite Eo. split; [|reflexivity].
        destruct (Nat.eqb_spec p q); congruence.
      - right. intros q Hq. unfold owns. rewrite Eo. destruct (Nat.eqb_spec p q); congruence. }
    split; [left; reflexivity|]. split; [discriminate|]. split; [exact Hr|]. discriminate.
  - (* IRLock *)
    destruct (wown (g s)) eqn:Ew; [discriminate|]. inversion He; subst; clear He. simpl.
    split.
    { apply lock_ok_other.
      - intros q Hq. unfold owns, holds_r; simpl. rewrite Ew. split; [reflexivity|].
        destruct (Nat.eqb_spec q p); [congruence|reflexivity].
      - right. intros q _. unfold owns. rewrite Ew. reflexivity. }
    split; [left; reflexivity|]. split; [discriminate|].
    split; [intros q [Hq|Hq]; [subst; exact Hlt|auto]|]. discriminate.
  - (* IRUnlock *)
    destruct (holds_r (g s) p) eqn:Eh; [|discriminate]. inversion He; subst; clear He. simpl.
    split.
    { apply lock_ok_other.
      - intros q Hq. unfold owns, holds_r; simpl. split; [reflexivity|]. apply memn_deln_ne. exact Hq.
      - left. reflexivity. }
    split; [left; reflexivity|]. split; [exact Ho|].
    split; [intros q Hq; apply Hr; eapply In_deln; exact Hq|].
    intros H. destruct (Hx H) as [A B]. rewrite A. split; [reflexivity|exact B].
  - inversion He; subst; clear He. apply Same; solve [reflexivity|left; reflexivity].
  - destruct (holds_w (g s) p); [|discriminate]. inversion He; subst; clear He. apply Same; solve [reflexivity|left; reflexivity].
  - inversion He; subst; clear He. apply Same; solve [reflexivity|left; reflexivity].
  - destruct (p_flag pr).
    + destruct (has_closed (g s)); [discriminate|]. inversion He; subst; clear He.
      apply Same; [reflexivity|reflexivity|reflexivity|right; split; reflexivity].
    + inversion He; subst; clear He. apply Same; solve [reflexivity|left; reflexivity].
  - destruct (holds_w (g s) p); [|discriminate]. inversion He; subst; clear He. apply Same; solve [reflexivity|left; reflexivity].
  - inversion He; subst; clear He. apply Same; solve [reflexivity|left; reflexivity].
  - destruct (holds_w (g s) p); [|discriminate]. inversion He; subst; clear He. apply Same; solve [reflexivity|left; reflexivity].
  - destruct (holds_any (g s) p); [|discriminate]. inversion He; subst; clear He. apply Same; solve [reflexivity|left; reflexivity].
  - destruct (holds_any (g s) p); [|discriminate]. inversion He; subst; clear He. apply Same; solve [reflexivity|left; reflexivity].
  - destruct (has_closed (g s)) eqn:Eh; [|discriminate]. inversion He; subst; clear He.
    apply Same; solve [reflexivity|left; reflexivity|left; symmetry; exact Eh|left; exact Eh].
  - destruct (holds_any (g s) p); [|discriminate]. inversion He; subst; clear He. apply Same; solve [reflexivity|left; reflexivity].
  - destruct (holds_w (g s) p); [|discriminate]. inversion He; subst; clear He. apply Same; solve [reflexivity|left; reflexivity].
  - destruct (holds_any (g s) p); [|discriminate]. inversion He; subst; clear He. apply Same; solve [reflexivity|left; reflexivity].
Qed.

Lemma lk_req x p : holds_r x p = false -> lock_ok (set_lock x (Some p) false (rdh x)) p SAnn.
Proof. intros H. unfold lock_ok, owns, holds_r in *. simpl. rewrite Nat.eqb_refl. auto. Qed.
Lemma lk_acq x p : lock_ok (set_lock x (Some p) true []) p SW.
Proof. unfold lock_ok, owns, holds_r. simpl. rewrite Nat.eqb_refl. auto. Qed.
Lemma lk_unlock x p : holds_r x p = false -> lock_ok (set_lock x None false (rdh x)) p SNo.
Proof. intros H. unfold lock_ok, owns, holds_r in *. simpl. auto. Qed.
Lemma lk_rlock x p : lock_ok (set_lock x None false (p :: rdh x)) p SR.
Proof. unfold lock_ok, owns, holds_r. simpl. rewrite Nat.eqb_refl. auto. Qed.
Lemma lk_runlock x p : owns x p = false -> lock_ok (set_lock x (wown x) (wheld x) (deln p (rdh x))) p SNo.
Proof. intros H. unfold lock_ok, holds_r. simpl. split; [exact H|apply memn_deln_eq]. Qed.

Ltac use_lock Hl :=
  cbn in Hl; first [destruct Hl as (?LA & ?LB & ?LC)|destruct Hl as (?LA & ?LB)].
Ltac reduce_exec He :=
  simpl in He; unfold holds_w, holds_any in He;
  repeat match goal with
         | H : owns _ _ = _ |- _ => rewrite H in He
         | H : wheld _ = _ |- _ => rewrite H in He
         | H : holds_r _ _ = _ |- _ => rewrite H in He
         end;
  simpl in He; rewrite ?orb_true_r in He.
Ltac enum_pos Ht i rest :=
  simpl in Ht; repeat (destruct Ht as [Ht|Ht]; [inversion Ht; subst i rest; clear Ht|]); try contradiction.
Ltac enum_any Ht :=
  simpl in Ht; repeat (destruct Ht as [Ht|Ht]; [try discriminate Ht; inversion Ht; subst; clear Ht|]); try contradiction.
Ltac split_exec He :=
  try (destruct (wown (g _)) eqn:Ew; [discriminate|]);
  try (destruct (rdh (g _)) eqn:Er; [|discriminate]).
Ltac lock_goal :=
  match goal with
  | |- lock_ok ?x ?p (stage ?c) => let st := eval cbv in (stage c) in change (lock_ok x p st)
  end;
  first [ apply lk_req; assumption | apply lk_acq | apply lk_unlock; assumption | apply lk_rlock
        | apply lk_runlock; assumption
        | eapply lock_ok_same; [reflexivity|reflexivity|reflexivity|cbn; repeat split; assumption] ].

Lemma stage_full o : stage (prog Code o) = SNo.
Proof. destruct o as [r|r|ss|ss| | | | |[|]]; reflexivity. Qed.

Lemma step_no_crash s p pr i rest k : Inv s -> nth_error (procs s) p = Some pr -> p_code pr = i :: rest ->
  exec p (p_flag pr) i (g s) = Crash k -> False.
Proof.
  intros I En Ec He.
  destruct (i_proc _ I p pr En) as (Ht & Hl & Hf & Ha). rewrite Ec in Ht, Hl, Hf, Ha.
  destruct pr as [o c fl]; simpl in *; subst c.
  destruct o as [r|r|ss|ss| | | | |[|]]; enum_pos Ht i rest; use_lock Hl; reduce_exec He.
  all: try discriminate.
  all: try (destruct (wown (g s)); discriminate).
  all: try (destruct (rdh (g s)); discriminate).
  all: try (destruct (has_closed (g s)); discriminate).
  all: specialize (Hf _ eq_refl); subst fl; destruct (has_closed (g s)); discriminate.
Qed.

Lemma step_pos s p pr i rest x fl' : Inv s -> nth_error (procs s) p = Some pr -> p_code pr = i :: rest ->
  exec p (p_flag pr) i (g s) = Next x fl' ->
  lock_ok x p (stage rest)
  /\ (forall t, rest = ICloseHas :: t -> fl' = negb (has_closed x))
  /\ (is_add (p_op pr) = true -> add_done rest = true -> has_closed x = true)
  /\ (has_closed x = false -> forall r, In r (readers x) ->
       (In r (readers (g s)) /\ (p_op pr = OpAdd r -> mid_add (i :: rest) = true -> mid_add rest = true))
       \/ (p_op pr = OpAdd r /\ mid_add rest = true)).
Proof.
  intros I En Ec He.
  destruct (i_proc _ I p pr En) as (Ht & Hl & Hf & Ha). rewrite Ec in Ht, Hl, Hf, Ha.
  destruct pr as [o c fl]; simpl in *; subst c.
  destruct o as [r|r|ss|ss| | | | |[|]]; enum_pos Ht i rest; use_lock Hl; reduce_exec He.
  all: try (destruct (wown (g s)) eqn:Ew; [discriminate|]).
  all: try (destruct (rdh (g s)) eqn:Er; [|discriminate]).
  all: try (destruct fl; [destruct (has_closed (g s)) eqn:Ehc; [discriminate|]|]).
  all: try (destruct (has_closed (g s)) eqn:Ehc; [|discriminate]).
  all: inversion He; subst x fl'; clear He.
  all: split; [lock_goal|].
  all: split; [intros t Et; first [discriminate Et|simpl; rewrite ?Ew, ?Er; reflexivity]|].
  all: split; [first [intros A; discriminate A|intros _ B; discriminate B|idtac]|].
  all: try solve [intros _ _; reflexivity].
  all: try solve [intros _ _; specialize (Hf _ eq_refl); destruct (has_closed (g s)); [reflexivity|discriminate Hf]].
  all: try solve [intros A _; apply Ha; [exact A|reflexivity]].
  all: try solve [intros Hc r0 Hr0; simpl in Hc, Hr0; first
         [ discriminate Hc
         | specialize (Hf _ eq_refl); rewrite Hc in Hf; discriminate Hf
         | left; split; [exact Hr0|intros A B; first [discriminate A|discriminate B|reflexivity]]
         | left; split; [eapply In_deln; exact Hr0|intros A; discriminate A]
         | destruct Hr0 as [->|Hr0]; [right; split; reflexivity|left; split; [exact Hr0|intros _ B; discriminate B]] ]].
Qed.

Lemma inv_step s l s' : Inv s -> step Code s l = Some s' -> Inv s'.
Proof.
  intros I Hst. unfold step in Hst. rewrite (i_panic _ I) in Hst. destruct l as [o|p].
  - inversion Hst; subst s'; clear Hst.
    assert (Hnew : forall q qr, nth_error (procs s ++ [mkProc o (prog Code o) false]) q = Some qr ->
               nth_error (procs s) q = Some qr \/ (q = length (procs s) /\ qr = mkProc o (prog Code o) false)).
    { intros q qr Hq. destruct (Nat.lt_ge_cases q (length (procs s))) as [Hlt|Hge].
      - left. rewrite nth_error_app1 in Hq by exact Hlt. exact Hq.
      - right. rewrite nth_error_app2 in Hq by exact Hge.
        destruct (q - length (procs s)) as [|k] eqn:Ek; simpl in Hq.
        + inversion Hq. split; [lia|reflexivity].
        + destruct k; discriminate. }
    constructor; simpl.
    + reflexivity.
    + intros q qr Hq. destruct (Hnew q qr Hq) as [Hq'|[-> ->]].
      * exact (i_proc _ I q qr Hq').
      * simpl. split; [apply tails_self|]. rewrite stage_full. split; [|split].
        -- simpl. split.
           ++ destruct (owns (g s) (length (procs s))) eqn:Eo; [|reflexivity].
              apply owns_spec in Eo. apply (i_own _ I) in Eo. lia.
           ++ destruct (holds_r (g s) (length (procs s))) eqn:Eo; [|reflexivity].
              apply holds_r_spec in Eo. apply (i_rd _ I) in Eo. lia.
        -- intros t Et. destruct o as [r|r|ss|ss| | | | |[|]]; discriminate.
        -- intros _ Hd. destruct o as [r|r|ss|ss| | | | |[|]]; discriminate.
    + intros q Hq. rewrite app_length. simpl. apply (i_own _ I) in Hq. lia.
    + intros q Hq. rewrite app_length. simpl. apply (i_rd _ I) in Hq. lia.
    + exact (i_excl _ I).
    + intros Hc r Hr. destruct (i_hand _ I Hc r Hr) as (w & wr & Hw & Hrest).
      exists w, wr. split; [|exact Hrest]. rewrite nth_error_app1; [exact Hw|]. eapply nth_lt; exact Hw.
  - destruct (nth_error (procs s) p) as [pr|] eqn:En; [|discriminate].
    destruct (p_code pr) as [|i rest] eqn:Ec; [discriminate|].
    destruct (exec p (p_flag pr) i (g s)) as [|x fl'|k] eqn:He; [discriminate| |].
    + inversion Hst; subst s'; clear Hst.
      destruct (exec_frame s p pr i rest x fl' I En Ec He) as (F1 & F2 & F3 & F4 & F5).
      destruct (step_pos s p pr i rest x fl' I En Ec He) as (P1 & P2 & P3 & P4).
      apply (inv_update s p pr i rest x fl' I En Ec); assumption.
    + exfalso. eapply step_no_crash; eassumption.
Qed.

Lemma inv_init : Inv init.
Proof.
  constructor; simpl; try discriminate; try reflexivity.
  - intros [|p] pr H; discriminate.
  - intros p [].
  - intros _ r [].
Qed.

Lemma inv_reachable s : reachable Code s -> Inv s.
Proof. induction 1 as [|s l s' _ IH Hst]; [exact inv_init|eapply inv_step; eassumption]. Qed.

Lemma inv_run ls : forall s s', Inv s -> run Code s ls = Some s' -> Inv s'.
Proof.
  induction ls as [|l t IH]; intros s s' I H; simpl in H.
  - inversion H; subst; exact I.
  - destruct (step Code s l) as [s1|] eqn:E; [|discriminate]. eapply IH; [eapply inv_step; eassumption|exact H].
Qed.

Lemma reachable_run v ls : forall s s', reachable v s -> run v s ls = Some s' -> reachable v s'.
Proof.
  induction ls as [|l t IH]; intros s s' R H; simpl in H.
  - inversion H; subst; exact R.
  - destruct (step v s l) as [s1|] eqn:E; [|discriminate]. eapply IH; [eapply r_step; eassumption|exact H].
Qed.

(* ---- safety ------------------------------------------------------------------------------------------------------ *)
Theorem no_panic s : reachable Code s -> panic s = None.
Proof. intros R. exact (i_panic _ (inv_reachable s R)). Qed.

(* the mutex is a mutex: one writer at most, and no reader next to it; who is inside a section is who the mutex says *)
Theorem mutual_exclusion s : reachable Code s ->
  (forall p q, holds_w (g s) p = true -> holds_w (g s) q = true -> p = q)
  /\ (forall p q, holds_w (g s) p = true -> holds_r (g s) q = true -> False)
  /\ (forall p pr, nth_error (procs s) p = Some pr ->
        (stage (p_code pr) = SW <-> holds_w (g s) p = true) /\ (stage (p_code pr) = SR <-> holds_r (g s) p = true)).
Proof.
  intros R. pose proof (inv_reachable s R) as I. split; [|split].
  - intros p q Hp Hq. unfold holds_w in *. apply andb_prop in Hp, Hq. eapply owns_unique; [apply Hp|apply Hq].
  - intros p q Hp Hq. unfold holds_w in Hp. apply andb_prop in Hp. destruct Hp as [_ Hh].
    destruct (i_excl _ I Hh) as [E _]. apply holds_r_spec in Hq. rewrite E in Hq. exact Hq.
  - intros p pr En. destruct (i_proc _ I p pr En) as (_ & Hl & _). unfold holds_w.
    destruct (stage (p_code pr)); simpl in Hl; split; split; intros H; try discriminate; try reflexivity.
    all: try (destruct Hl as (A & B); rewrite ?A, ?B in H; simpl in H; discriminate).
    all: try (destruct Hl as (A & B & C); rewrite ?A, ?B, ?C in H; simpl in H; discriminate).
    + destruct Hl as (A & B & C). rewrite A, B. reflexivity.
    + destruct Hl as (A & B). exact B.
Qed.

(* the handshake: whenever nobody is inside AddReader / RemoveReader with the write lock (the lock is free, or an
   observer has it), a registered reader means that hasReaders is closed - registration and close are ONE section *)
Theorem handshake s : reachable Code s -> no_mutator s -> readers (g s) <> [] -> has_closed (g s) = true.
Proof.
  intros R Hn Hr. pose proof (inv_reachable s R) as I.
  destruct (has_closed (g s)) eqn:Ec; [reflexivity|exfalso].
  destruct (readers (g s)) as [|r t] eqn:Er; [congruence|].
  destruct (i_hand _ I Ec r) as (p & pr & En & Eo & Em); [rewrite Er; left; reflexivity|].
  destruct (i_proc _ I p pr En) as (Ht & Hl & _).
  assert (Hs : stage (p_code pr) = SW).
  { rewrite Eo in Ht. simpl in Ht.
    repeat (destruct Ht as [Ht|Ht]; [rewrite <- Ht in Em |- *; first [discriminate Em|reflexivity]|]). contradiction. }
  rewrite Hs in Hl. destruct Hl as (A & B & _).
  specialize (Hn p pr En). unfold holds_w in Hn. rewrite A, B, Eo in Hn. exact (Hn eq_refl).
Qed.

(* WaitForReaders: once an AddReader call has returned, hasReaders is closed (and stays closed) *)
Theorem joined_means_closed s p pr r : reachable Code s ->
  nth_error (procs s) p = Some pr -> p_op pr = OpAdd r -> p_code pr = [] -> has_closed (g s) = true.
Proof.
  intros R En Eo Ec. destruct (i_proc _ (inv_reachable s R) p pr En) as (_ & _ & _ & Ha).
  apply Ha; [rewrite Eo|rewrite Ec]; reflexivity.
Qed.

(* ---- every operation completes ---------------------------------------------------------------------------------- *)
Lemma blocked_why p fl i x : exec p fl i x = Blocked ->
  (i = ILockReq /\ wown x <> None) \/ (i = ILockAcq /\ owns x p = true /\ rdh x <> []) \/
  (i = IRLock /\ wown x <> None) \/ (i = IWaitHas /\ has_closed x = false).
Proof.
  intros H. destruct i; cbn [exec] in H;
    repeat match type of H with
           | (if ?c then _ else _) = _ => destruct c eqn:?
           | match ?c with _ => _ end = _ => destruct c eqn:?
           end; try discriminate.
  - left. split; [reflexivity|discriminate].
  - right. left. split; [reflexivity|]. split; [first [assumption|reflexivity]|discriminate].
  - right. right. left. split; [reflexivity|discriminate].
  - right. right. right. split; [reflexivity|first [assumption|reflexivity]].
Qed.

Lemma step_none s p pr i rest : panic s = None -> nth_error (procs s) p = Some pr -> p_code pr = i :: rest ->
  step Code s (LStep p) = None -> exec p (p_flag pr) i (g s) = Blocked.
Proof.
  intros Hp En Ec H. unfold step in H. rewrite Hp, En, Ec in H.
  destruct (exec p (p_flag pr) i (g s)); [reflexivity|discriminate|discriminate].
Qed.

(* a goroutine that holds the mutex (read or write) is never blocked: nothing inside a section waits *)
Lemma holder_moves s p pr : Inv s -> nth_error (procs s) p = Some pr ->
  holds_w (g s) p = true \/ holds_r (g s) p = true -> exists s', step Code s (LStep p) = Some s'.
Proof.
  intros I En Hh. destruct (step Code s (LStep p)) as [s'|] eqn:Es; [exists s'; reflexivity|exfalso].
  destruct (i_proc _ I p pr En) as (Ht & Hl & _).
  destruct (p_code pr) as [|i rest] eqn:Ec.
  - simpl in Hl. destruct Hl as (A & B). unfold holds_w in Hh. rewrite A, B in Hh. destruct Hh; discriminate.
  - pose proof (step_none s p pr i rest (i_panic _ I) En Ec Es) as Hb. apply blocked_why in Hb.
    destruct pr as [o c fl]; simpl in *; subst c.
    destruct o as [r|r|ss|ss| | | | |[|]]; enum_pos Ht i rest; use_lock Hl; unfold holds_w in Hh;
      repeat match goal with
             | H : owns _ _ = _ |- _ => rewrite H in Hh
             | H : wheld _ = _ |- _ => rewrite H in Hh
             | H : holds_r _ _ = _ |- _ => rewrite H in Hh
             end; simpl in Hh;
      try (destruct Hh; discriminate);
      destruct Hb as [[Hb _]|[[Hb _]|[[Hb _]|[Hb _]]]]; discriminate Hb.
Qed.

Fixpoint count_to (n : nat) : list nat := match n with 0 => [] | S k => count_to k ++ [k] end.
Lemma count_to_In n p : In p (count_to n) <-> p < n.
Proof.
  induction n as [|k IH]; simpl; [split; [intros []|lia]|].
  rewrite in_app_iff, IH. simpl. split; [intros [H|[H|[]]]; lia|intros H].
  destruct (Nat.eq_dec p k); [right; left; congruence|left; lia].
Qed.

Definition stepb (s : state) (p : nat) : bool :=
  match step Code s (LStep p) with Some _ => true | None => false end.

Theorem progress s : Inv s -> (exists p s', step Code s (LStep p) = Some s') \/ quiescent s.
Proof.
  intros I.
  destruct (existsb (stepb s) (count_to (length (procs s)))) eqn:Ex.
  { left. apply existsb_exists in Ex. destruct Ex as (p & _ & Hp). unfold stepb in Hp.
    destruct (step Code s (LStep p)) as [s'|] eqn:Es; [exists p, s'; exact Es|discriminate]. }
  assert (Hnone : forall p, step Code s (LStep p) = None).
  { intros p. destruct (Nat.lt_ge_cases p (length (procs s))) as [Hlt|Hge].
    - destruct (step Code s (LStep p)) as [s'|] eqn:Es; [|reflexivity]. exfalso.
      assert (Hx : existsb (stepb s) (count_to (length (procs s))) = true).
      { apply existsb_exists. exists p. split; [apply count_to_In; exact Hlt|]. unfold stepb. rewrite Es. reflexivity. }
      congruence.
    - unfold step. rewrite (i_panic _ I). apply nth_error_None in Hge. rewrite Hge. reflexivity. }
  clear Ex.
  (* nobody can move: then nobody has the mutex *)
  assert (Hfree : wown (g s) = None).
  { destruct (wown (g s)) as [p|] eqn:Ew; [exfalso|reflexivity].
    pose proof (i_own _ I p Ew) as Hlt. destruct (nth_error (procs s) p) as [pr|] eqn:En;
      [|apply nth_error_None in En; lia].
    assert (Ho : owns (g s) p = true) by (apply owns_spec; exact Ew).
    destruct (wheld (g s)) eqn:Eh.
    - destruct (holder_moves s p pr I En) as [s' Hs']; [left; unfold holds_w; rewrite Ho, Eh; reflexivity|].
      rewrite Hnone in Hs'. discriminate.
    - (* announced, waiting for the readers: one of them can move *)
      destruct (rdh (g s)) as [|q t] eqn:Er.
      + destruct (i_proc _ I p pr En) as (Ht & Hl & _).
        destruct (p_code pr) as [|i rest] eqn:Ec.
        * simpl in Hl. destruct Hl as (A & _). congruence.
        * pose proof (step_none s p pr i rest (i_panic _ I) En Ec (Hnone p)) as Hb. apply blocked_why in Hb.
          destruct Hb as [[-> Hb]|[[-> (_ & Hb)]|[[-> Hb]|[-> Hb]]]].
          -- destruct pr as [o c fl]; simpl in *; subst c.
             destruct o as [r|r|ss|ss| | | | |[|]]; enum_any Ht; use_lock Hl; congruence.
          -- congruence.
          -- destruct pr as [o c fl]; simpl in *; subst c.
             destruct o as [r|r|ss|ss| | | | |[|]]; enum_any Ht; use_lock Hl; congruence.
          -- destruct pr as [o c fl]; simpl in *; subst c.
             destruct o as [r|r|ss|ss| | | | |[|]]; enum_any Ht; use_lock Hl; congruence.
      + assert (Hq : In q (rdh (g s))) by (rewrite Er; left; reflexivity).
        pose proof (i_rd _ I q Hq) as Hql. destruct (nth_error (procs s) q) as [qr|] eqn:Eq;
          [|apply nth_error_None in Eq; lia].
        destruct (holder_moves s q qr I Eq) as [s' Hs']; [right; apply holds_r_spec; exact Hq|].
        rewrite Hnone in Hs'. discriminate. }
  right. intros pr Hin. apply In_nth_error in Hin. destruct Hin as [p En].
  assert (Hshape : forall q qr, nth_error (procs s) q = Some qr ->
            p_code qr = [] \/ (p_op qr = OpWait /\ has_closed (g s) = false)).
  { intros q qr Eq. destruct (i_proc _ I q qr Eq) as (Ht & Hl & _).
    destruct (p_code qr) as [|i rest] eqn:Ec; [left; reflexivity|right].
    pose proof (step_none s q qr i rest (i_panic _ I) Eq Ec (Hnone q)) as Hb. apply blocked_why in Hb.
    destruct Hb as [[_ Hb]|[[_ (Hb & _)]|[[_ Hb]|[-> Hb]]]]; try congruence.
    - apply owns_spec in Hb. congruence.
    - split; [|exact Hb]. destruct qr as [o c fl]; simpl in *; subst c.
      destruct o as [r|r|ss|ss| | | | |[|]]; enum_any Ht; reflexivity. }
  destruct (Hshape p pr En) as [Hc|[Ho Hc]]; [left; exact Hc|right].
  split; [exact Ho|]. split; [exact Hc|].
  intros qr Hq. apply In_nth_error in Hq. destruct Hq as [q Eq].
  destruct (is_add (p_op qr)) eqn:Ea; [exfalso|reflexivity].
  destruct (Hshape q qr Eq) as [Hqc|[Hqo _]]; [|rewrite Hqo in Ea; discriminate].
  destruct (i_proc _ I q qr Eq) as (_ & _ & _ & Ha). rewrite Hqc in Ha. rewrite (Ha Ea eq_refl) in Hc. discriminate.
Qed.

Lemma measure_set_nth l : forall p pr i rest fl, nth_error l p = Some pr -> p_code pr = i :: rest ->
  S (fold_right (fun pr n => length (p_code pr) + n) 0 (set_nth p (mkProc (p_op pr) rest fl) l))
  = fold_right (fun pr n => length (p_code pr) + n) 0 l.
Proof.
  induction l as [|a l IH]; intros [|p] pr i rest fl En Ec; simpl in *; try discriminate.
  - inversion En; subst a. rewrite Ec. simpl. reflexivity.
  - rewrite <- (IH p pr i rest fl En Ec). lia.
Qed.

Lemma step_measure s p s' : Inv s -> step Code s (LStep p) = Some s' -> S (measure s') = measure s.
Proof.
  intros I Hst. pose proof (inv_step _ _ _ I Hst) as I'. unfold step in Hst. rewrite (i_panic _ I) in Hst.
  destruct (nth_error (procs s) p) as [pr|] eqn:En; [|discriminate].
  destruct (p_code pr) as [|i rest] eqn:Ec; [discriminate|].
  destruct (exec p (p_flag pr) i (g s)) as [|x fl'|k]; [discriminate| |].
  - inversion Hst; subst s'. unfold measure. simpl. eapply measure_set_nth; eassumption.
  - inversion Hst; subst s'. pose proof (i_panic _ I') as Hp. simpl in Hp. discriminate.
Qed.

(* every schedule of steps of the goroutines is finite: exactly `measure s` instructions are left *)
Theorem internal_run_bounded ls : forall s s', Inv s ->
  forallb internal ls = true -> run Code s ls = Some s' -> length ls + measure s' = measure s.
Proof.
  induction ls as [|l t IH]; intros s s' I Hall Hrun; simpl in *.
  - inversion Hrun; subst. reflexivity.
  - apply andb_prop in Hall. destruct Hall as [Hl Hall].
    destruct (step Code s l) as [s1|] eqn:E; [|discriminate].
    destruct l as [o|p]; [discriminate|].
    rewrite <- (step_measure _ _ _ I E). rewrite <- (IH s1 s' (inv_step _ _ _ I E) Hall Hrun). lia.
Qed.

Theorem stuck_quiescent s : Inv s -> (forall l, internal l = true -> step Code s l = None) -> quiescent s.
Proof.
  intros I Hs. destruct (progress s I) as [(p & s' & H)|Q]; [|exact Q].
  rewrite (Hs (LStep p) eq_refl) in H. discriminate.
Qed.

Theorem completes s : Inv s ->
  exists ls s', forallb internal ls = true /\ run Code s ls = Some s' /\ quiescent s' /\ length ls <= measure s.
Proof.
  remember (measure s) as n eqn:En. revert s En. induction n as [|n IH]; intros s En I.
  - exists [], s. repeat split; auto. destruct (progress s I) as [(p & s' & H)|Q]; [|exact Q].
    pose proof (step_measure _ _ _ I H). lia.
  - destruct (progress s I) as [(p & s1 & H)|Q].
    + pose proof (step_measure _ _ _ I H) as Hm.
      destruct (IH s1 ltac:(lia) (inv_step _ _ _ I H)) as (ls & s' & Ha & Hr & Q & Hlen).
      exists (LStep p :: ls), s'. simpl. rewrite H. repeat split; auto. lia.
    + exists [], s. repeat split; auto. simpl. lia.
Qed.

(* ---- the edited program tables --------------------------------------------------------------------------------- *)
Definition steps (p n : nat) : list label := repeat (LStep p) n.

(* two first joiners: both register and unlock, both see hasReaders open, both close it *)
Definition double_close_trace : list label :=
  [LSpawn (OpAdd 1); LSpawn (OpAdd 2)] ++ steps 0 5 ++ steps 1 5 ++ [LStep 0; LStep 1; LStep 0; LStep 1].

Lemma unlock_before_check_double_close :
  match run UnlockBeforeCheck init double_close_trace with
  | Some s => panic s = Some PDoubleClose
  | None => False
  end.
Proof. vm_compute. reflexivity. Qed.

Lemma same_trace_not_in_code : run Code init double_close_trace = None.
Proof. vm_compute. reflexivity. Qed.

(* what an observer sees that gets the mutex right after the first joiner's Unlock: a reader, hasReaders open *)
Definition exposed_trace : list label :=
  [LSpawn (OpAdd 1); LSpawn (OpHold true)] ++ steps 0 5 ++ steps 1 2.

Lemma unlock_before_check_exposed :
  match run UnlockBeforeCheck init exposed_trace with
  | Some s => holds_w (g s) 1 = true /\ readers (g s) = [1] /\ has_closed (g s) = false /\ panic s = None
  | None => False
  end.
Proof. vm_compute. repeat split. Qed.

Lemma code_not_exposed :
  match run Code init ([LSpawn (OpAdd 1); LSpawn (OpHold true)] ++ steps 0 7 ++ steps 1 2) with
  | Some s => holds_w (g s) 1 = true /\ readers (g s) = [1] /\ has_closed (g s) = true
  | None => False
  end.
Proof. vm_compute. repeat split. Qed.

Lemma unreg_after_unlock_race :
  match run UnregAfterUnlock init ([LSpawn (OpAdd 1)] ++ steps 0 7 ++ [LSpawn (OpRemove 1)] ++ steps 1 4) with
  | Some s => panic s = Some PRace
  | None => False
  end.
Proof. vm_compute. reflexivity. Qed.

Lemma add_under_rlock_race :
  match run AddUnderRLock init ([LSpawn (OpAdd 1)] ++ steps 0 3) with
  | Some s => panic s = Some PRace
  | None => False
  end.
Proof. vm_compute. reflexivity. Qed.

Lemma write_no_lock_race :
  match run WriteNoLock init [LSpawn (OpWrite 0); LStep 0] with
  | Some s => panic s = Some PRace
  | None => False
  end.
Proof. vm_compute. reflexivity. Qed.

Lemma run_reachable v ls s : run v init ls = Some s -> reachable v s.
Proof. apply reachable_run. constructor. Qed.

Lemma close_no_lock_race :
  match run CloseNoLock init [LSpawn OpClose; LStep 0] with
  | Some s => panic s = Some PRace
  | None => False
  end.
Proof. vm_compute. reflexivity. Qed.

