(* JSON strings on byte strings (list Z):
   - json_string: model of encoding/json's string encoder with the default HTML-safe escaping
     (encode.go appendString with escapeHTML = true, which is what json.Marshal uses);
   - parse_string / parse_object: a small JSON parser for strings and objects whose members are
     strings (RFC 8259 syntax; escapes decoded as encoding/json's unquote does, including
     surrogate pairs and U+FFFD for unpaired surrogates and for ill-formed raw UTF-8);
   - parse_string (json_string s ++ tail) = Some (sanitize s, tail) for ALL byte strings s.
   Owner: builder of C37. *)
From Coq Require Import List ZArith Bool Lia.
Require Import MTX.Lib.Utf8.
Import ListNotations.
Local Open Scope Z_scope.

(* ---- encoder ------------------------------------------------------------------------ *)

Definition hexdigit (n : Z) : Z := if n <? 10 then 48 + n else 87 + n.   (* "0123456789abcdef" *)

(* one byte < 0x80 (htmlSafeSet: everything from 0x20 except quote, backslash, <, >, &; DEL counts as safe) *)
Definition esc_ascii (b : Z) : list Z :=
  if (b =? 34) || (b =? 92) then [92; b]
  else if b =? 8 then [92; 98]
  else if b =? 12 then [92; 102]
  else if b =? 10 then [92; 110]
  else if b =? 13 then [92; 114]
  else if b =? 9 then [92; 116]
  else if (b <? 32) || (b =? 60) || (b =? 62) || (b =? 38)
       then [92; 117; 48; 48; hexdigit (b / 16); hexdigit (b mod 16)]
  else [b].

Definition esc_rune (r : rune) : list Z :=
  match r with
  | RAscii b => esc_ascii b
  | RBad _ => [92; 117; 102; 102; 102; 100]                       (* backslash-u fffd *)
  | RMulti bs =>
      if list_eqb bs [226; 128; 168] then [92; 117; 50; 48; 50; 56]       (* U+2028 as backslash-u 2028 *)
      else if list_eqb bs [226; 128; 169] then [92; 117; 50; 48; 50; 57]  (* U+2029 as backslash-u 2029 *)
      else bs
  end.

Definition json_body (s : list Z) : list Z := flat_map esc_rune (runes s).
Definition json_string (s : list Z) : list Z := 34 :: json_body s ++ [34].

(* ---- parser ------------------------------------------------------------------------- *)

Definition hexval (c : Z) : option Z :=
  if in_rng 48 57 c then Some (c - 48)
  else if in_rng 97 102 c then Some (c - 87)
  else if in_rng 65 70 c then Some (c - 55)
  else None.

Definition hex4 (s : list Z) : option (Z * list Z) :=
  match s with
  | a :: b :: c :: d :: r =>
      match hexval a, hexval b, hexval c, hexval d with
      | Some a, Some b, Some c, Some d => Some (((a * 16 + b) * 16 + c) * 16 + d, r)
      | _, _, _, _ => None
      end
  | _ => None
  end.

Inductive tok := TEnd | TOut (bs : list Z).

(* second half of a surrogate pair, if the input continues with \uDC00..\uDFFF *)
Definition low_surrogate (s : list Z) : option (Z * list Z) :=
  match s with
  | a :: b :: r =>
      if (a =? 92) && (b =? 117) then
        match hex4 r with
        | Some (u2, r') => if in_rng 56320 57343 u2 then Some (u2, r') else None
        | None => None
        end
      else None
  | _ => None
  end.

(* one element of a string body: closing quote, escape, or raw character *)
Definition lex1 (s : list Z) : option (tok * list Z) :=
  match s with
  | [] => None
  | c :: r =>
    if c =? 34 then Some (TEnd, r)
    else if c =? 92 then
      match r with
      | [] => None
      | e :: r' =>
        if e =? 34 then Some (TOut [34], r')
        else if e =? 92 then Some (TOut [92], r')
        else if e =? 47 then Some (TOut [47], r')
        else if e =? 98 then Some (TOut [8], r')
        else if e =? 102 then Some (TOut [12], r')
        else if e =? 110 then Some (TOut [10], r')
        else if e =? 114 then Some (TOut [13], r')
        else if e =? 116 then Some (TOut [9], r')
        else if e =? 117 then
          match hex4 r' with
          | None => None
          | Some (u, r2) =>
              if in_rng 55296 56319 u then
                match low_surrogate r2 with
                | Some (u2, r3) => Some (TOut (encode_rune (65536 + (u - 55296) * 1024 + (u2 - 56320))), r3)
                | None => Some (TOut fffd, r2)
                end
              else Some (TOut (encode_rune u), r2)
          end
        else None
      end
    else if c <? 32 then None
    else if c <? 128 then Some (TOut [c], r)
    else match decode1 s with
         | Some (RMulti bs, rest) => Some (TOut bs, rest)
         | Some (_, rest) => Some (TOut fffd, rest)
         | None => None
         end
  end.

Fixpoint parse_body (fuel : nat) (s : list Z) : option (list Z * list Z) :=
  match fuel with
  | O => None
  | S f =>
    match lex1 s with
    | None => None
    | Some (TEnd, r) => Some ([], r)
    | Some (TOut bs, r) =>
        match parse_body f r with
        | Some (out, rest) => Some (bs ++ out, rest)
        | None => None
        end
    end
  end.

(* a JSON string at the head of s: its decoded value (UTF-8) and the rest of the input *)
Definition parse_string (s : list Z) : option (list Z * list Z) :=
  match s with
  | c :: r => if c =? 34 then parse_body (length s) r else None
  | [] => None
  end.

Definition is_ws (c : Z) : bool := (c =? 32) || (c =? 9) || (c =? 10) || (c =? 13).
Fixpoint skip_ws (s : list Z) : list Z :=
  match s with
  | c :: r => if is_ws c then skip_ws r else s
  | [] => []
  end.

(* "key" : "value" ( , "key" : "value" )* } *)
Fixpoint parse_members (fuel : nat) (s : list Z) : option (list (list Z * list Z) * list Z) :=
  match fuel with
  | O => None
  | S f =>
    match parse_string (skip_ws s) with
    | None => None
    | Some (k, s1) =>
      match skip_ws s1 with
      | c1 :: s2 =>
        if c1 =? 58 then
          match parse_string (skip_ws s2) with
          | None => None
          | Some (v, s3) =>
            match skip_ws s3 with
            | c2 :: s4 =>
                if c2 =? 125 then Some ([(k, v)], s4)
                else if c2 =? 44 then
                  match parse_members f s4 with
                  | Some (ms, rest) => Some ((k, v) :: ms, rest)
                  | None => None
                  end
                else None
            | [] => None
            end
          end
        else None
      | [] => None
      end
    end
  end.

(* an object all of whose members are strings: the member list and the rest of the input *)
Definition parse_object (s : list Z) : option (list (list Z * list Z) * list Z) :=
  match skip_ws s with
  | c :: r =>
      if c =? 123 then
        match skip_ws r with
        | c' :: r' => if c' =? 125 then Some ([], r') else parse_members (length s) r
        | [] => None
        end
      else None
  | [] => None
  end.

(* the value encoding/json would store for a key: the last member with that name *)
Fixpoint lookup (k : list Z) (ms : list (list Z * list Z)) : option (list Z) :=
  match ms with
  | [] => None
  | (k', v) :: r => match lookup k r with
                    | Some x => Some x
                    | None => if list_eqb k k' then Some v else None
                    end
  end.

(* ---- the round trip ----------------------------------------------------------------- *)

Lemma ascii_cases (P : Z -> Prop) :
  (forall n : nat, (n < 128)%nat -> P (Z.of_nat n)) -> forall b, 0 <= b < 128 -> P b.
Proof. intros H b Hb. rewrite <- (Z2Nat.id b) by lia. apply H. lia. Qed.

(* the escape of one ASCII byte is read back as that byte *)
Lemma lex1_esc_ascii b tail : 0 <= b < 128 -> lex1 (esc_ascii b ++ tail) = Some (TOut [b], tail).
Proof.
  revert b. apply ascii_cases. intros n Hn.
  do 128 (destruct n as [|n]; [reflexivity|]). lia.
Qed.

Lemma esc_ascii_len b : (1 <= length (esc_ascii b))%nat.
Proof.
  unfold esc_ascii.
  repeat match goal with |- context [if ?c then _ else _] => destruct c end; simpl; lia.
Qed.

Lemma lex1_esc_rune r tail : wf_rune r -> lex1 (esc_rune r ++ tail) = Some (TOut (rune_out r), tail).
Proof.
  destruct r as [b|b|bs]; simpl; intros W.
  - apply lex1_esc_ascii; exact W.
  - reflexivity.
  - destruct (list_eqb bs [226; 128; 168]) eqn:E1.
    { apply list_eqb_eq in E1. subst. reflexivity. }
    destruct (list_eqb bs [226; 128; 169]) eqn:E2.
    { apply list_eqb_eq in E2. subst. reflexivity. }
    pose proof (decode1_multi_app bs tail W) as D.
    assert (Hhd : exists b0 bs', bs = b0 :: bs' /\ 194 <= b0).
    { destruct bs as [|b0 [|b1 [|b2 [|b3 [|b4 l]]]]]; simpl in W; try discriminate;
        unfold in_rng in W; repeat (apply andb_true_iff in W as [W ?]); apply Z.leb_le in W;
        eexists _, _; (split; [reflexivity|lia]). }
    destruct Hhd as (b0 & bs' & -> & Hb0).
    cbn [app] in *. unfold lex1.
    replace (b0 =? 34) with false by (symmetry; apply Z.eqb_neq; lia).
    replace (b0 =? 92) with false by (symmetry; apply Z.eqb_neq; lia).
    replace (b0 <? 32) with false by (symmetry; apply Z.ltb_ge; lia).
    replace (b0 <? 128) with false by (symmetry; apply Z.ltb_ge; lia).
    rewrite D. reflexivity.
Qed.

Lemma esc_rune_len r : wf_rune r -> (1 <= length (esc_rune r))%nat.
Proof.
  destruct r as [b|b|bs]; simpl; intros W; [apply esc_ascii_len|lia|].
  repeat match goal with |- context [if ?c then _ else _] => destruct c end; simpl; try lia.
  destruct bs as [|b0 [|b1 bs]]; simpl in *; try discriminate; lia.
Qed.

Lemma parse_body_esc rs : forall tail fuel, Forall wf_rune rs ->
  (length (flat_map esc_rune rs) < fuel)%nat ->
  parse_body fuel (flat_map esc_rune rs ++ 34 :: tail) = Some (flat_map rune_out rs, tail).
Proof.
  induction rs as [|r rs IH]; intros tail fuel W Hf.
  - destruct fuel; [simpl in Hf; lia|]. reflexivity.
  - inversion W as [|? ? Wr Wrs]; subst.
    destruct fuel; [simpl in Hf; lia|].
    cbn [flat_map] in *. rewrite <- app_assoc. cbn [parse_body].
    rewrite (lex1_esc_rune r _ Wr).
    rewrite IH; [reflexivity|exact Wrs|].
    rewrite app_length in Hf. pose proof (esc_rune_len r Wr). lia.
Qed.

(* MAIN: for every byte string, the encoded string parses back to the sanitised string *)
Theorem parse_json_string s tail :
  bytes s -> parse_string (json_string s ++ tail) = Some (sanitize s, tail).
Proof.
  intros Hb. unfold json_string, json_body, sanitize, parse_string. cbn [app].
  rewrite Z.eqb_refl. rewrite <- app_assoc. cbn [app].
  apply parse_body_esc; [apply runes_wf; exact Hb|].
  cbn [length]. rewrite !app_length. simpl. lia.
Qed.

(* no control character (in particular no newline) and nothing above the bytes of the source
   appears raw in the encoding *)
Lemma esc_ascii_no_ctl b : 0 <= b < 128 -> Forall (fun c => 32 <= c < 128) (esc_ascii b).
Proof.
  revert b. apply ascii_cases. intros n Hn.
  do 128 (destruct n as [|n]; [cbv; repeat constructor; discriminate|]). lia.
Qed.

Lemma valid_seq_high bs : valid_seq bs = true -> Forall (fun c => 128 <= c < 256) bs.
Proof.
  unfold valid_seq, second_ok, cont.
  destruct bs as [|b0 [|b1 [|b2 [|b3 [|b4 l]]]]]; intros W; try discriminate;
    repeat (apply andb_true_iff in W as [W ?]);
    repeat match goal with
    | H : (if ?c then _ else _) = true |- _ => destruct c
    | H : in_rng _ _ _ = true |- _ => apply in_rng_spec in H
    end; repeat constructor; lia.
Qed.

Lemma esc_rune_no_ctl r : wf_rune r -> Forall (fun c => 32 <= c < 256) (esc_rune r).
Proof.
  destruct r as [b|b|bs]; simpl; intros W.
  - eapply Forall_impl; [|apply esc_ascii_no_ctl; exact W]. simpl; intros; lia.
  - repeat constructor; lia.
  - repeat match goal with |- context [if ?c then _ else _] => destruct c end;
      try (repeat constructor; lia).
    eapply Forall_impl; [|apply valid_seq_high; exact W]. simpl; intros; lia.
Qed.

Lemma json_string_no_ctl s : bytes s -> Forall (fun c => 32 <= c < 256) (json_string s).
Proof.
  intros Hb. unfold json_string, json_body. constructor; [lia|].
  apply Forall_app. split; [|repeat constructor; lia].
  pose proof (runes_wf s Hb) as W. induction W as [|r rs Wr Wrs IH]; [constructor|].
  simpl. apply Forall_app. split; [apply esc_rune_no_ctl; exact Wr|exact IH].
Qed.

(* plain strings (printable ASCII without quote and backslash) may be written between quotes as
   they are: that is what the log line does with the timestamp and the level *)
Definition plain_char (c : Z) : bool := (32 <=? c) && (c <? 127) && negb (c =? 34) && negb (c =? 92).
Definition plain (s : list Z) : bool := forallb plain_char s.

Lemma parse_body_plain p : forall tail fuel, plain p = true -> (length p < fuel)%nat ->
  parse_body fuel (p ++ 34 :: tail) = Some (p, tail).
Proof.
  induction p as [|c p IH]; intros tail fuel Hp Hf.
  - destruct fuel; [simpl in Hf; lia|]. reflexivity.
  - simpl in Hp. apply andb_true_iff in Hp as [Hc Hp].
    destruct fuel; [simpl in Hf; lia|]. simpl in Hf.
    unfold plain_char in Hc. repeat (apply andb_true_iff in Hc as [Hc ?]).
    cbn [app parse_body lex1].
    replace (c =? 34) with false by (symmetry; apply negb_true_iff; assumption).
    replace (c =? 92) with false by (symmetry; apply negb_true_iff; assumption).
    replace (c <? 32) with false by (symmetry; apply Z.ltb_ge; lia).
    replace (c <? 128) with true by (symmetry; apply Z.ltb_lt; lia).
    rewrite IH by (auto; lia). reflexivity.
Qed.

Lemma parse_string_plain p tail : plain p = true ->
  parse_string (34 :: p ++ 34 :: tail) = Some (p, tail).
Proof.
  intros Hp. unfold parse_string. rewrite Z.eqb_refl.
  apply parse_body_plain; [exact Hp|]. cbn [length]. rewrite app_length. simpl. lia.
Qed.

Lemma skip_ws_nonws c r : is_ws c = false -> skip_ws (c :: r) = c :: r.
Proof. intros H. simpl. rewrite H. reflexivity. Qed.
