(* Lexical path cleaning on '/'-separated byte strings: Go's path.Clean = filepath.Clean on
   Unix, filepath.Join / filepath.Abs (with the working directory as an argument), plus a
   one-pass scanner for ".." segments and the lemmas C06 needs
   ("no '..' segment appended => the cleaned path stays under the cleaned prefix").
   Strings are lists of byte values. Owned by C06; only add at the end. *)
From Coq Require Import List ZArith Bool Lia.
Import ListNotations.
Local Open Scope Z_scope.

(* ------------------------------------------------------------------ byte strings *)

Fixpoint bytes_eqb (a b : list Z) : bool :=
  match a, b with
  | [], [] => true
  | x :: a', y :: b' => (x =? y) && bytes_eqb a' b'
  | _, _ => false
  end.

Fixpoint is_prefix (p s : list Z) : bool :=
  match p, s with
  | [], _ => true
  | a :: p', b :: s' => (a =? b) && is_prefix p' s'
  | _ :: _, [] => false
  end.

Definition no47 (s : list Z) : Prop := Forall (fun c => c <> 47) s.

(* strings.Split(s, "/"): never empty; "" -> [""] *)
Fixpoint split47 (s : list Z) : list (list Z) :=
  match s with
  | [] => [[]]
  | c :: r =>
      if c =? 47 then [] :: split47 r
      else match split47 r with
           | g :: gs => (c :: g) :: gs
           | [] => [[c]]
           end
  end.

(* strings.Join(segs, "/") *)
Fixpoint join47 (segs : list (list Z)) : list Z :=
  match segs with
  | [] => []
  | [g] => g
  | g :: r => g ++ 47 :: join47 r
  end.

Definition is_dot (g : list Z) : bool := bytes_eqb g [46].
Definition is_dd (g : list Z) : bool := bytes_eqb g [46; 46].
Definition is_nil (g : list Z) : bool := match g with [] => true | _ => false end.

(* ------------------------------------------------------------------ Clean / Abs *)

Definition rooted (p : list Z) : bool := match p with c :: _ => c =? 47 | [] => false end.

(* one path element against the stack of kept elements (top first) *)
Definition cstep (root : bool) (st : list (list Z)) (g : list Z) : list (list Z) :=
  if is_nil g || is_dot g then st
  else if is_dd g then
    match st with
    | [] => if root then [] else [g]
    | top :: rest => if is_dd top then g :: st else rest
    end
  else g :: st.

Definition cstack (root : bool) (p : list Z) : list (list Z) := fold_left (cstep root) (split47 p) [].

(* path.Clean *)
Definition clean (p : list Z) : list Z :=
  let st := cstack (rooted p) p in
  if rooted p then 47 :: join47 (rev st)
  else match st with [] => [46] | _ => join47 (rev st) end.

(* filepath.Abs with the working directory cwd (an absolute path): Clean(p) if p is absolute,
   else Join(cwd, p) = Clean(cwd + "/" + p) *)
Definition abs (cwd p : list Z) : list Z := if rooted p then clean p else clean (cwd ++ 47 :: p).

(* component-wise containment of two cleaned absolute paths *)
Definition path_under (base p : list Z) : bool :=
  bytes_eqb p base || is_prefix (if bytes_eqb base [47] then base else base ++ [47]) p.

(* ------------------------------------------------------------------ ".." scanner *)

Inductive sst := SBad | S0 | S1 | S2 | SX.

Definition sstep (s : sst) (c : Z) : sst :=
  match s with
  | SBad => SBad
  | _ =>
    if c =? 47 then match s with S2 => SBad | _ => S0 end
    else if c =? 46 then match s with S0 => S1 | S1 => S2 | _ => SX end
    else SX
  end.
Definition scan (s : sst) (l : list Z) : sst := fold_left sstep l s.
Definition sfin (s : sst) : bool := match s with SBad | S2 => true | _ => false end.
(* some '/'-separated segment of l is ".." *)
Definition has_dd (l : list Z) : bool := sfin (scan S0 l).

(* ------------------------------------------------------------------ lemmas *)

Lemma bytes_eqb_eq a : forall b, bytes_eqb a b = true <-> a = b.
Proof.
  induction a as [|x a IH]; intros [|y b]; cbn [bytes_eqb]; try (split; [discriminate|discriminate]); [tauto|].
  rewrite andb_true_iff, Z.eqb_eq, IH. split; [intros [-> ->]; reflexivity|intros H; inversion H; auto].
Qed.

Lemma bytes_eqb_refl a : bytes_eqb a a = true.
Proof. now apply bytes_eqb_eq. Qed.

Lemma is_prefix_app a b : is_prefix a (a ++ b) = true.
Proof. induction a as [|x a IH]; [reflexivity|]. cbn. now rewrite Z.eqb_refl, IH. Qed.

Lemma is_prefix_iff p : forall s, is_prefix p s = true <-> exists r, s = p ++ r.
Proof.
  induction p as [|a p IH]; intros s; cbn [is_prefix].
  - split; [intros _; now exists s|reflexivity].
  - destruct s as [|b s]; [split; [discriminate|intros [r Hr]; discriminate]|].
    rewrite andb_true_iff, Z.eqb_eq, IH. split.
    + intros [-> [r ->]]. now exists r.
    + intros [r Hr]. cbn in Hr. inversion Hr; subst. split; [reflexivity|now exists r].
Qed.

Lemma is_prefix_trans a b c : is_prefix a b = true -> is_prefix b c = true -> is_prefix a c = true.
Proof.
  rewrite !is_prefix_iff. intros [r ->] [r' ->]. exists (r ++ r'). now rewrite app_assoc.
Qed.

Lemma split47_nonnil s : split47 s <> [].
Proof.
  destruct s as [|c r]; [discriminate|]. cbn [split47]. destruct (c =? 47); [discriminate|].
  destruct (split47 r); discriminate.
Qed.

Lemma split47_app s : forall b, split47 (s ++ 47 :: b) = split47 s ++ split47 b.
Proof.
  induction s as [|c r IH]; intros b; [reflexivity|].
  cbn [app split47]. rewrite IH. destruct (c =? 47); [reflexivity|].
  destruct (split47 r) as [|g gs] eqn:E; [now apply split47_nonnil in E|reflexivity].
Qed.

(* appending to a string without '/' in front *)
Lemma split47_pre p : no47 p -> forall s,
  split47 (p ++ s) = match split47 s with g :: gs => (p ++ g) :: gs | [] => [] end.
Proof.
  intros Hp s. induction Hp as [|c p Hc Hp IH].
  - cbn [app]. destruct (split47 s); reflexivity.
  - cbn [app split47]. destruct (Z.eqb_spec c 47); [contradiction|]. rewrite IH.
    destruct (split47 s) eqn:E; [now apply split47_nonnil in E|reflexivity].
Qed.

Lemma split47_no47 g : no47 g -> split47 g = [g].
Proof.
  intros H. pose proof (split47_pre g H []) as E. cbn [split47] in E. now rewrite !app_nil_r in E.
Qed.

Lemma split47_segs_no47 s : Forall no47 (split47 s).
Proof.
  induction s as [|c r IH]; [repeat constructor|]. cbn [split47].
  destruct (Z.eqb_spec c 47).
  - constructor; [constructor|exact IH].
  - destruct (split47 r) as [|g gs]; [repeat constructor; assumption|].
    inversion IH; subst. constructor; [constructor; assumption|assumption].
Qed.

Lemma join47_cons g r : r <> [] -> join47 (g :: r) = g ++ 47 :: join47 r.
Proof. destruct r; [contradiction|reflexivity]. Qed.

Lemma join47_app a b : a <> [] -> b <> [] -> join47 (a ++ b) = join47 a ++ 47 :: join47 b.
Proof.
  intros Ha Hb. induction a as [|g a IH]; [contradiction|].
  destruct a as [|g' a'].
  - cbn [app]. now rewrite join47_cons.
  - change ((g :: g' :: a') ++ b) with (g :: (g' :: a') ++ b).
    rewrite join47_cons by discriminate. rewrite IH by discriminate.
    rewrite (join47_cons g (g' :: a')) by discriminate. now rewrite <- app_assoc.
Qed.

Lemma split47_join47 segs : segs <> [] -> Forall no47 segs -> split47 (join47 segs) = segs.
Proof.
  intros Hne H. induction H as [|g r Hg Hr IH]; [contradiction|].
  destruct r as [|g' r'].
  - cbn [join47]. now apply split47_no47.
  - rewrite join47_cons by discriminate. rewrite split47_app, IH by discriminate.
    now rewrite split47_no47.
Qed.

(* --- scanner *)

Lemma scan_app s a b : scan s (a ++ b) = scan (scan s a) b.
Proof. unfold scan. apply fold_left_app. Qed.

Lemma scan_bad l : scan SBad l = SBad.
Proof. induction l as [|c l IH]; [reflexivity|]. exact IH. Qed.

Lemma scan_sx l : no47 l -> scan SX l = SX.
Proof.
  intros H. induction H as [|c l Hc Hl IH]; [reflexivity|].
  change (scan SX (c :: l)) with (scan (sstep SX c) l). unfold sstep.
  destruct (Z.eqb_spec c 47); [contradiction|]. destruct (c =? 46); exact IH.
Qed.

(* a non-empty text without '.' and '/' makes the current segment harmless *)
Lemma scan_plain s l : s <> SBad -> l <> [] -> Forall (fun c => c <> 47 /\ c <> 46) l -> scan s l = SX.
Proof.
  intros Hs Hl H. destruct H as [|c l [Hc Hc'] H]; [contradiction|].
  change (scan s (c :: l)) with (scan (sstep s c) l).
  assert (E : sstep s c = SX).
  { unfold sstep. destruct (Z.eqb_spec c 47); [contradiction|]. destruct (Z.eqb_spec c 46); [contradiction|].
    destruct s; try reflexivity. contradiction. }
  rewrite E. apply scan_sx. apply Forall_forall. intros x Hx. rewrite Forall_forall in H. now apply H.
Qed.

(* state after a segment text *)
Definition cls (p : list Z) : sst :=
  match p with
  | [] => S0
  | [a] => if a =? 46 then S1 else SX
  | [a; b] => if (a =? 46) && (b =? 46) then S2 else SX
  | _ => SX
  end.

Lemma scan_cls p : no47 p -> scan S0 p = cls p.
Proof.
  intros H. destruct p as [|a [|b [|d p]]].
  - reflexivity.
  - inversion H; subst. cbn. destruct (Z.eqb_spec a 47); [contradiction|]. destruct (a =? 46); reflexivity.
  - inversion H as [|? ? Ha H1]; subst. inversion H1 as [|? ? Hb _]; subst. cbn.
    destruct (Z.eqb_spec a 47); [contradiction|]. destruct (Z.eqb_spec b 47); [contradiction|].
    destruct (a =? 46); cbn; destruct (Z.eqb_spec b 47); try contradiction; destruct (b =? 46); reflexivity.
  - inversion H as [|? ? Ha H1]; subst. inversion H1 as [|? ? Hb H2]; subst. inversion H2 as [|? ? Hd H3]; subst.
    change (scan S0 (a :: b :: d :: p)) with (scan (sstep (sstep (sstep S0 a) b) d) p).
    assert (E : sstep (sstep (sstep S0 a) b) d = SX).
    { unfold sstep. destruct (Z.eqb_spec a 47); [contradiction|]. destruct (Z.eqb_spec b 47); [contradiction|].
      destruct (Z.eqb_spec d 47); [contradiction|]. destruct (a =? 46), (b =? 46), (d =? 46); reflexivity. }
    rewrite E. cbn [cls]. now apply scan_sx.
Qed.

Lemma cls_fin p : sfin (cls p) = is_dd p.
Proof.
  destruct p as [|a [|b [|d p]]]; cbn; try reflexivity.
  - destruct (a =? 46); reflexivity.
  - destruct (a =? 46), (b =? 46); reflexivity.
  - destruct (a =? 46), (b =? 46); reflexivity.
Qed.

Lemma cls_not_bad p : cls p <> SBad.
Proof.
  destruct p as [|a [|b [|d p]]]; cbn; try discriminate.
  - destruct (a =? 46); discriminate.
  - destruct ((a =? 46) && (b =? 46)); discriminate.
Qed.

(* a segment that is non-empty and neither "." nor ".." *)
Definition seg_plain (g : list Z) : bool := negb (is_nil g) && negb (is_dot g) && negb (is_dd g).

Lemma cls_plain p : seg_plain p = true -> cls p = SX.
Proof.
  unfold seg_plain, is_nil, is_dot, is_dd. destruct p as [|a [|b [|d p]]]; cbn; try discriminate; try reflexivity.
  - destruct (a =? 46); [discriminate|reflexivity].
  - destruct (a =? 46), (b =? 46); try reflexivity. discriminate.
Qed.

(* the scanner agrees with splitting *)
Lemma scan_split s : forall p, no47 p ->
  sfin (scan (scan S0 p) s) =
  existsb is_dd (match split47 s with g :: gs => (p ++ g) :: gs | [] => [] end).
Proof.
  induction s as [|c r IH]; intros p Hp.
  - cbn [scan fold_left split47 existsb]. rewrite app_nil_r, orb_false_r, scan_cls by assumption. apply cls_fin.
  - change (scan (scan S0 p) (c :: r)) with (scan (sstep (scan S0 p) c) r). cbn [split47].
    destruct (Z.eqb_spec c 47) as [->|Hc].
    + rewrite app_nil_r. cbn [existsb]. rewrite scan_cls by assumption.
      pose proof (cls_fin p) as Hf. pose proof (cls_not_bad p) as Hb.
      destruct (is_dd p) eqn:Edd.
      * assert (cls p = S2) by (destruct (cls p); try discriminate; [contradiction|reflexivity]).
        rewrite H. cbn [sstep Z.eqb]. rewrite scan_bad. reflexivity.
      * assert (E : sstep (cls p) 47 = S0) by (destruct (cls p); try reflexivity; [contradiction|discriminate]).
        rewrite E. change S0 with (scan S0 []). rewrite (IH [] (Forall_nil _)). cbn [orb].
        destruct (split47 r) eqn:Er; [now apply split47_nonnil in Er|reflexivity].
    + assert (E : sstep (scan S0 p) c = scan S0 (p ++ [c])) by (rewrite scan_app; reflexivity).
      rewrite E. rewrite IH by (apply Forall_app; split; [assumption|repeat constructor; assumption]).
      destruct (split47 r) as [|g gs] eqn:Er; [now apply split47_nonnil in Er|]. now rewrite <- app_assoc.
Qed.

Theorem has_dd_split s : has_dd s = existsb is_dd (split47 s).
Proof.
  unfold has_dd. change (scan S0 s) with (scan (scan S0 []) s). rewrite scan_split by constructor.
  destruct (split47 s); reflexivity.
Qed.

(* a string whose segments are harmless and whose last segment is plain: from any live state
   (its first segment being glued to what precedes) the scan ends in SX *)
Lemma scan_segments s : forall p, no47 p ->
  (match split47 s with
   | g :: gs => existsb is_dd ((p ++ g) :: gs) = false /\ seg_plain (last ((p ++ g) :: gs) []) = true
   | [] => False
   end) ->
  scan (scan S0 p) s = SX.
Proof.
  induction s as [|c r IH]; intros p Hp H.
  - cbn [split47] in H. rewrite app_nil_r in H. destruct H as [_ H]. cbn [last] in H.
    cbn [scan fold_left]. rewrite scan_cls by assumption. now apply cls_plain.
  - change (scan (scan S0 p) (c :: r)) with (scan (sstep (scan S0 p) c) r). cbn [split47] in H.
    destruct (Z.eqb_spec c 47) as [->|Hc].
    + rewrite app_nil_r in H. destruct H as [Hdd Hlast]. cbn [existsb] in Hdd. apply orb_false_iff in Hdd.
      destruct Hdd as [Hp2 Hdd]. rewrite scan_cls by assumption.
      pose proof (cls_fin p) as Hf. rewrite Hp2 in Hf. pose proof (cls_not_bad p) as Hb.
      assert (E : sstep (cls p) 47 = S0) by (destruct (cls p); try reflexivity; [contradiction|discriminate]).
      rewrite E. change S0 with (scan S0 []). apply IH; [constructor|].
      destruct (split47 r) as [|g gs] eqn:Er; [now apply split47_nonnil in Er|]. cbn [app]. split; [exact Hdd|].
      exact Hlast.
    + assert (E : sstep (scan S0 p) c = scan S0 (p ++ [c])) by (rewrite scan_app; reflexivity).
      rewrite E. apply IH; [apply Forall_app; split; [assumption|repeat constructor; assumption]|].
      destruct (split47 r) as [|g gs] eqn:Er; [now apply split47_nonnil in Er|].
      rewrite <- app_assoc. exact H.
Qed.

(* representatives of the live states *)
Lemma live_state s : s <> SBad -> exists p, no47 p /\ scan S0 p = s /\ (length p <= 2)%nat.
Proof.
  intros H. destruct s; [contradiction| | | |].
  - exists []. repeat split; [constructor|cbn; lia].
  - exists [46]. repeat split; [repeat constructor; lia|cbn; lia].
  - exists [46; 46]. repeat split; [repeat constructor; lia|cbn; lia].
  - exists [120]. repeat split; [repeat constructor; lia|cbn; lia].
Qed.

(* --- cleaning *)

Lemma cstep_plain root st g : seg_plain g = true -> cstep root st g = g :: st.
Proof.
  unfold seg_plain, cstep. intros H. apply andb_true_iff in H. destruct H as [H H3].
  apply andb_true_iff in H. destruct H as [H1 H2].
  apply negb_true_iff in H1, H2, H3. now rewrite H1, H2, H3.
Qed.

Definition keeps (g : list Z) : bool := negb (is_nil g || is_dot g).

(* elements without ".." only push *)
Lemma cstack_no_dd root segs : existsb is_dd segs = false ->
  forall st, fold_left (cstep root) segs st = rev (filter keeps segs) ++ st.
Proof.
  induction segs as [|g segs IH]; intros H st; [reflexivity|].
  cbn [existsb] in H. apply orb_false_iff in H. destruct H as [Hg H].
  cbn [fold_left filter]. rewrite IH by assumption. unfold keeps at 2, cstep.
  destruct (is_nil g || is_dot g); cbn [negb]; [reflexivity|].
  rewrite Hg. cbn [rev]. now rewrite <- app_assoc.
Qed.

Lemma rooted_app x y : rooted x = true -> rooted (x ++ y) = true.
Proof. destruct x; [discriminate|]. intros H; exact H. Qed.

Lemma path_under_join (A T : list (list Z)) :
  path_under (47 :: join47 A) (47 :: join47 (A ++ T)) = true.
Proof.
  unfold path_under. destruct T as [|t T]; [rewrite app_nil_r, bytes_eqb_refl; reflexivity|].
  apply orb_true_iff. right.
  destruct (bytes_eqb (47 :: join47 A) [47]) eqn:E.
  - apply bytes_eqb_eq in E. rewrite E. cbn [is_prefix]. now rewrite Z.eqb_refl.
  - destruct A as [|a A]; [cbn in E; discriminate|].
    rewrite join47_app by discriminate.
    replace (47 :: join47 (a :: A) ++ 47 :: join47 (t :: T))
      with (((47 :: join47 (a :: A)) ++ [47]) ++ join47 (t :: T)) by (cbn [app]; now rewrite <- app_assoc).
    apply is_prefix_app.
Qed.

Lemma cstack_app root x e : cstack root (x ++ 47 :: e) = fold_left (cstep root) (split47 e) (cstack root x).
Proof. unfold cstack. now rewrite split47_app, fold_left_app. Qed.

(* appending "/e" where e has no ".." segment keeps the cleaned path under the cleaned prefix *)
Theorem clean_under x e : rooted x = true -> has_dd e = false ->
  path_under (clean x) (clean (x ++ 47 :: e)) = true.
Proof.
  intros Hx He. unfold clean. rewrite (rooted_app x (47 :: e) Hx), Hx.
  rewrite cstack_app. rewrite has_dd_split in He. rewrite cstack_no_dd by exact He.
  rewrite rev_app_distr, rev_involutive. apply path_under_join.
Qed.

Lemma clean_trailing_slash x : rooted x = true -> clean (x ++ [47]) = clean x.
Proof.
  intros Hx. unfold clean. rewrite (rooted_app x [47] Hx), Hx. now rewrite cstack_app.
Qed.

(* the same for filepath.Abs: c is a non-empty prefix, or the prefix is empty and e is relative *)
Theorem abs_under cwd c e : rooted cwd = true -> c <> [] -> has_dd e = false ->
  path_under (abs cwd c) (abs cwd (c ++ 47 :: e)) = true.
Proof.
  intros Hcwd Hne He. unfold abs. destruct (rooted c) eqn:Hc.
  - rewrite (rooted_app c (47 :: e) Hc). now apply clean_under.
  - assert (Hr : rooted (c ++ 47 :: e) = false) by (destruct c; [contradiction|exact Hc]).
    rewrite Hr. replace (cwd ++ 47 :: c ++ 47 :: e) with ((cwd ++ 47 :: c) ++ 47 :: e) by (now rewrite <- app_assoc).
    apply clean_under; [now apply rooted_app|exact He].
Qed.

Theorem abs_under_rel cwd e : rooted cwd = true -> rooted e = false -> has_dd e = false ->
  path_under (abs cwd []) (abs cwd e) = true.
Proof.
  intros Hcwd Hr He. unfold abs. rewrite Hr. cbn [rooted]. rewrite clean_trailing_slash by assumption.
  now apply clean_under.
Qed.

(* the cleaned form of x/e when e has no ".." segment *)
Lemma clean_app_form x e : rooted x = true -> has_dd e = false ->
  clean x = 47 :: join47 (rev (cstack true x)) /\
  clean (x ++ 47 :: e) = 47 :: join47 (rev (cstack true x) ++ filter keeps (split47 e)).
Proof.
  intros Hx He. unfold clean. rewrite (rooted_app x (47 :: e) Hx), Hx. split; [reflexivity|].
  rewrite cstack_app. rewrite has_dd_split in He. rewrite cstack_no_dd by exact He.
  now rewrite rev_app_distr, rev_involutive.
Qed.

(* byte predicates survive splitting, cleaning and joining *)
Section BytePred.
  Variable Q : Z -> Prop.

  Lemma split47_forall s : Forall Q s -> Forall (Forall Q) (split47 s).
  Proof.
    intros H. induction H as [|c r Hc Hr IH]; [repeat constructor|]. cbn [split47].
    destruct (c =? 47); [constructor; [constructor|exact IH]|].
    destruct (split47 r) as [|g gs]; [repeat constructor; assumption|].
    inversion IH; subst. constructor; [constructor; assumption|assumption].
  Qed.

  Lemma cstep_forall root st g : Forall (Forall Q) st -> Forall Q g -> Forall (Forall Q) (cstep root st g).
  Proof.
    intros Hst Hg. unfold cstep. destruct (is_nil g || is_dot g); [exact Hst|].
    destruct (is_dd g).
    - destruct st as [|top rest]; [destruct root; repeat constructor; assumption|].
      destruct (is_dd top); [constructor; assumption|now inversion Hst].
    - constructor; assumption.
  Qed.

  Lemma cfold_forall root segs : Forall (Forall Q) segs -> forall st, Forall (Forall Q) st ->
    Forall (Forall Q) (fold_left (cstep root) segs st).
  Proof.
    intros H. induction H as [|g segs Hg Hs IH]; intros st Hst; [exact Hst|].
    cbn [fold_left]. apply IH. now apply cstep_forall.
  Qed.

  Lemma join47_forall segs : Q 47 -> Forall (Forall Q) segs -> Forall Q (join47 segs).
  Proof.
    intros H47 H. induction H as [|g r Hg Hr IH]; [constructor|].
    destruct r as [|g' r']; [exact Hg|]. rewrite join47_cons by discriminate.
    apply Forall_app. split; [exact Hg|]. constructor; assumption.
  Qed.

  Lemma clean_forall x : Q 47 -> Q 46 -> Forall Q x -> Forall Q (clean x).
  Proof.
    intros H47 H46 Hx. unfold clean.
    assert (Hst : Forall (Forall Q) (cstack (rooted x) x)).
    { unfold cstack. apply cfold_forall; [now apply split47_forall|constructor]. }
    assert (Hj : Forall Q (join47 (rev (cstack (rooted x) x)))).
    { apply join47_forall; [exact H47|]. now apply Forall_rev. }
    destruct (rooted x); [constructor; assumption|].
    destruct (cstack false x); [repeat constructor; assumption|exact Hj].
  Qed.
End BytePred.

(* ------------------------------------------------------------------ Abs (Clean p) = Abs p *)

Definition kept (g : list Z) : Prop := no47 g /\ keeps g = true.

Lemma keeps_cstep root st g : keeps g = true -> is_dd g = false -> cstep root st g = g :: st.
Proof.
  unfold keeps, cstep. intros Hk Hd. apply negb_true_iff in Hk. now rewrite Hk, Hd.
Qed.

Lemma cstep_kept root st g : Forall kept st -> no47 g -> Forall kept (cstep root st g).
Proof.
  intros Hst Hg. unfold cstep. destruct (is_nil g || is_dot g) eqn:E; [exact Hst|].
  assert (Hk : kept g) by (split; [exact Hg|unfold keeps; now rewrite E]).
  destruct (is_dd g).
  - destruct st as [|top rest]; [destruct root; [constructor|now constructor]|].
    destruct (is_dd top); [now constructor|now inversion Hst].
  - now constructor.
Qed.

Lemma cfold_kept root segs : Forall no47 segs -> forall st, Forall kept st -> Forall kept (fold_left (cstep root) segs st).
Proof.
  intros H. induction H as [|g segs Hg Hs IH]; intros st Hst; [exact Hst|]. cbn [fold_left]. apply IH. now apply cstep_kept.
Qed.

(* in a rooted stack nothing is ".." *)
Lemma cstep_true_nodd st g : existsb is_dd st = false -> existsb is_dd (cstep true st g) = false.
Proof.
  intros Hst. unfold cstep. destruct (is_nil g || is_dot g); [exact Hst|].
  destruct (is_dd g) eqn:Ed.
  - destruct st as [|top rest]; [reflexivity|]. cbn [existsb] in Hst. apply orb_false_iff in Hst.
    destruct Hst as [Ht Hr]. now rewrite Ht.
  - cbn [existsb]. now rewrite Ed.
Qed.

Lemma cfold_true_nodd segs : forall st, existsb is_dd st = false -> existsb is_dd (fold_left (cstep true) segs st) = false.
Proof. induction segs as [|g segs IH]; intros st H; [exact H|]. cbn [fold_left]. apply IH. now apply cstep_true_nodd. Qed.

Lemma cstep_skip root st g : is_nil g || is_dot g = true -> cstep root st g = st.
Proof. intros E. unfold cstep. now rewrite E. Qed.

Lemma cstep_dd_nil root g : is_nil g || is_dot g = false -> is_dd g = true ->
  cstep root [] g = if root then [] else [g].
Proof. intros E Ed. unfold cstep. now rewrite E, Ed. Qed.

Lemma cstep_dd_cons root top rest g : is_nil g || is_dot g = false -> is_dd g = true ->
  cstep root (top :: rest) g = if is_dd top then g :: top :: rest else rest.
Proof. intros E Ed. unfold cstep. now rewrite E, Ed. Qed.

Lemma cstep_push root st g : is_nil g || is_dot g = false -> is_dd g = false -> cstep root st g = g :: st.
Proof. intros E Ed. unfold cstep. now rewrite E, Ed. Qed.

(* replaying the relative stack (bottom first) on an absolute stack = processing the element there *)
Lemma replay_step st g S0 : Forall kept st ->
  fold_left (cstep true) (rev (cstep false st g)) S0 = cstep true (fold_left (cstep true) (rev st) S0) g.
Proof.
  intros Hst. destruct (is_nil g || is_dot g) eqn:E.
  - now rewrite !cstep_skip by exact E.
  - destruct (is_dd g) eqn:Ed.
    + destruct st as [|top rest].
      * rewrite cstep_dd_nil by assumption. reflexivity.
      * rewrite cstep_dd_cons by assumption. destruct (is_dd top) eqn:Et.
        -- change (rev (g :: top :: rest)) with (rev (top :: rest) ++ [g]). now rewrite fold_left_app.
        -- cbn [rev]. rewrite fold_left_app. cbn [fold_left].
           inversion Hst as [|? ? [_ Hk] _]; subst.
           rewrite (keeps_cstep true _ top Hk Et). rewrite cstep_dd_cons by assumption. now rewrite Et.
    + rewrite (cstep_push false) by assumption.
      change (rev (g :: st)) with (rev st ++ [g]). now rewrite fold_left_app.
Qed.

Lemma replay segs : Forall no47 segs -> forall st S0, Forall kept st ->
  fold_left (cstep true) (rev (fold_left (cstep false) segs st)) S0 =
  fold_left (cstep true) segs (fold_left (cstep true) (rev st) S0).
Proof.
  intros H. induction H as [|g segs Hg Hs IH]; intros st S0 Hst; [reflexivity|].
  cbn [fold_left]. rewrite IH by (now apply cstep_kept). now rewrite replay_step.
Qed.

Lemma kept_no47 st : Forall kept st -> Forall no47 st.
Proof. intros H. apply Forall_forall. intros g Hg. rewrite Forall_forall in H. now apply H. Qed.

Lemma join47_not_rooted segs : segs <> [] -> Forall kept segs -> rooted (join47 segs) = false.
Proof.
  intros Hne H. destruct H as [|g r [Hg Hk] Hr]; [contradiction|].
  assert (E : exists c t, g = c :: t /\ c <> 47).
  { unfold keeps, is_nil in Hk. destruct g as [|c t]; [discriminate|]. exists c, t. split; [reflexivity|]. now inversion Hg. }
  destruct E as (c & t & -> & Hc). destruct r; cbn [join47 app rooted]; now apply Z.eqb_neq.
Qed.

Lemma clean_rel_form p : rooted p = false ->
  rooted (clean p) = false /\
  forall S0, fold_left (cstep true) (split47 (clean p)) S0 = fold_left (cstep true) (split47 p) S0.
Proof.
  intros Hp. unfold clean. rewrite Hp.
  assert (Hk : Forall kept (cstack false p)) by (apply cfold_kept; [apply split47_segs_no47|constructor]).
  pose proof (replay (split47 p) (split47_segs_no47 p) [] ) as Hr. cbn [rev fold_left] in Hr. fold (cstack false p) in Hr.
  destruct (cstack false p) as [|g st] eqn:E.
  - split; [reflexivity|]. intros S0. rewrite <- (Hr S0 (Forall_nil _)). reflexivity.
  - assert (Hrk : Forall kept (rev (g :: st))) by (now apply Forall_rev).
    assert (Hne : rev (g :: st) <> []) by (cbn [rev]; intros Hx; now apply app_eq_nil in Hx as [_ Hx]).
    split; [now apply join47_not_rooted|]. intros S0.
    rewrite split47_join47 by (try assumption; now apply kept_no47). now apply Hr.
Qed.

Lemma existsb_false_rev {A} (f : A -> bool) l : existsb f l = false -> existsb f (rev l) = false.
Proof.
  intros H. destruct (existsb f (rev l)) eqn:E; [|reflexivity]. apply existsb_exists in E.
  destruct E as (x & Hx & Hf). apply in_rev in Hx.
  assert (existsb f l = true) by (apply existsb_exists; now exists x). congruence.
Qed.

Lemma forallb_filter_same {A} (f : A -> bool) l : forallb f l = true -> filter f l = l.
Proof.
  induction l as [|x l IH]; [reflexivity|]. cbn [forallb filter]. intros H. apply andb_true_iff in H.
  destruct H as [Hx Hl]. now rewrite Hx, IH.
Qed.

Lemma clean_rooted_form p : rooted p = true -> clean p = 47 :: join47 (rev (cstack true p)).
Proof. intros Hp. unfold clean. now rewrite Hp. Qed.

Lemma cstack_rooted_join R : Forall kept R -> existsb is_dd R = false ->
  cstack true (47 :: join47 (rev R)) = R.
Proof.
  intros Hk Hd. unfold cstack. cbn [split47]. rewrite Z.eqb_refl. cbn [fold_left].
  rewrite (cstep_skip true [] []) by reflexivity.
  destruct R as [|g st].
  - reflexivity.
  - assert (Hrk : Forall kept (rev (g :: st))) by (now apply Forall_rev).
    assert (Hne : rev (g :: st) <> []) by (cbn [rev]; intros Hx; now apply app_eq_nil in Hx as [_ Hx]).
    rewrite split47_join47 by (try assumption; now apply kept_no47).
    rewrite cstack_no_dd by (now apply existsb_false_rev).
    assert (Hf : filter keeps (rev (g :: st)) = rev (g :: st)).
    { apply forallb_filter_same. apply forallb_forall. intros x Hx. rewrite Forall_forall in Hrk. now apply Hrk. }
    now rewrite Hf, rev_involutive, app_nil_r.
Qed.

Lemma clean_idem_rooted p : rooted p = true -> clean (clean p) = clean p.
Proof.
  intros Hp. rewrite (clean_rooted_form p Hp). set (R := cstack true p).
  assert (Hk : Forall kept R) by (apply cfold_kept; [apply split47_segs_no47|constructor]).
  assert (Hd : existsb is_dd R = false) by (apply cfold_true_nodd; reflexivity).
  rewrite clean_rooted_form by (cbn [rooted]; apply Z.eqb_refl).
  now rewrite cstack_rooted_join.
Qed.

(* filepath.Abs(filepath.Clean(p)) = filepath.Abs(p) *)
Theorem abs_clean cwd p : rooted cwd = true -> abs cwd (clean p) = abs cwd p.
Proof.
  intros Hc. unfold abs. destruct (rooted p) eqn:Hp.
  - assert (Hr : rooted (clean p) = true) by (unfold clean; rewrite Hp; cbn [rooted]; apply Z.eqb_refl).
    rewrite Hr. now apply clean_idem_rooted.
  - destruct (clean_rel_form p Hp) as [Hr Hf]. rewrite Hr.
    rewrite (clean_rooted_form (cwd ++ 47 :: clean p)) by (now apply rooted_app).
    rewrite (clean_rooted_form (cwd ++ 47 :: p)) by (now apply rooted_app).
    rewrite !cstack_app. now rewrite Hf.
Qed.
