(* A small reflect-like value universe over an address-indexed heap.

   Used by C11 (deepClone independence); meant to be reusable by C07/C12.

   * A [value] is what a Go variable of some type holds *inline*: scalars, struct fields,
     and the *headers* of pointers / slices / maps (an address or nil), and interfaces
     (nil or a dynamic value, itself inline: an interface holding a pointer is
     [VIface (Some (VRef KPtr (Some a)))]).
   * Everything a header refers to lives in a heap [cell]: the pointee (one value), the
     slice's backing array (its elements), the map's values (in sorted key order; keys are
     immutable scalars and are not represented). A cell is the unit of mutation.
   * The heap is a list of cells, the address is the index. Allocation appends, so "the old
     heap is untouched" is literally [h' = h ++ ext].
   Not represented: interior pointers (pointer to a field or to a slice element), slices
     sharing a backing array at different offsets, arrays/chans/funcs holding references
     (they are [VScalar] = opaque and immutable; the users' drivers must check that the Go
     types they ship do not need them).

   Only add to this file at the end; never change a statement. *)
From Coq Require Import List ZArith Bool Lia Arith.
Import ListNotations.

Definition addr := nat.
Inductive refkind := KPtr | KSlice | KMap.

Inductive value : Type :=
| VScalar (z : Z)                        (* opaque immutable token (0 = the zero value) *)
| VRef (k : refkind) (a : option addr)   (* pointer/slice/map header; None = nil *)
| VStruct (fs : list (bool * value))     (* fields in declaration order; flag = reflect CanSet (exported) *)
| VIface (d : option value).             (* interface: nil or its dynamic value *)

Definition cell := list value.
Definition heap := list cell.

Definition refkind_eqb (a b : refkind) : bool :=
  match a, b with KPtr, KPtr | KSlice, KSlice | KMap, KMap => true | _, _ => false end.

(* induction principle for the nested type *)
Section value_ind_nested.
  Variable P : value -> Prop.
  Hypothesis Hs : forall z, P (VScalar z).
  Hypothesis Hr : forall k a, P (VRef k a).
  Hypothesis Hst : forall fs, Forall (fun bf => P (snd bf)) fs -> P (VStruct fs).
  Hypothesis Hi0 : P (VIface None).
  Hypothesis Hi : forall d, P d -> P (VIface (Some d)).
  Fixpoint value_ind_nested (v : value) : P v :=
    match v with
    | VScalar z => Hs z
    | VRef k a => Hr k a
    | VStruct fs =>
        Hst fs ((fix go (l : list (bool * value)) : Forall (fun bf => P (snd bf)) l :=
                   match l with
                   | [] => Forall_nil _
                   | bf :: r => Forall_cons bf (value_ind_nested (snd bf)) (go r)
                   end) fs)
    | VIface None => Hi0
    | VIface (Some d) => Hi d (value_ind_nested d)
    end.
End value_ind_nested.

(* ---- reachability: the cells a value can reach (and therefore read or mutate) ---- *)
Inductive reach (h : heap) : value -> addr -> Prop :=
| reach_here k a : reach h (VRef k (Some a)) a
| reach_cell k a c v x : nth_error h a = Some c -> In v c -> reach h v x -> reach h (VRef k (Some a)) x
| reach_field b f fs x : In (b, f) fs -> reach h f x -> reach h (VStruct fs) x
| reach_iface d x : reach h d x -> reach h (VIface (Some d)) x.

(* no dangling reference below v *)
Definition wf (h : heap) (v : value) : Prop := forall a, reach h v a -> a < length h.

(* ---- reads along a path, writes of a whole cell ---- *)
Inductive step := SField (i : nat) | SElem (i : nat) | SIface.

Fixpoint read (h : heap) (v : value) (p : list step) : option value :=
  match p with
  | [] => Some v
  | s :: r =>
      match s, v with
      | SField i, VStruct fs => match nth_error fs i with Some (_, f) => read h f r | None => None end
      | SElem i, VRef _ (Some a) =>
          match nth_error h a with
          | Some c => match nth_error c i with Some x => read h x r | None => None end
          | None => None
          end
      | SIface, VIface (Some d) => read h d r
      | _, _ => None
      end
  end.

Fixpoint write (h : heap) (a : addr) (c : cell) : heap :=
  match h, a with
  | [], _ => []
  | _ :: t, O => c :: t
  | x :: t, S k => x :: write t k c
  end.

Definition write_all (ws : list (addr * cell)) (h : heap) : heap :=
  fold_left (fun h w => write h (fst w) (snd w)) ws h.

(* ---- executable companions (for correspondence checks; fuel bounds the nesting depth) ---- *)
Fixpoint reach_list (fuel : nat) (h : heap) (v : value) : list addr :=
  match fuel with
  | O => []
  | S k =>
      match v with
      | VScalar _ => []
      | VRef _ None => []
      | VRef _ (Some a) =>
          a :: match nth_error h a with
               | Some c => flat_map (reach_list k h) c
               | None => []
               end
      | VStruct fs => flat_map (fun bf => reach_list k h (snd bf)) fs
      | VIface None => []
      | VIface (Some d) => reach_list k h d
      end
  end.

(* ---- lemmas ---- *)
Lemma length_write h a c : length (write h a c) = length h.
Proof. revert a; induction h as [|x t IH]; intros [|a]; simpl; auto. Qed.

Lemma nth_error_write_other h a c b : a <> b -> nth_error (write h a c) b = nth_error h b.
Proof.
  revert a b; induction h as [|x t IH]; intros [|a] [|b] Hab; simpl; auto; try congruence.
Qed.

Lemma nth_error_write_same h a c : a < length h -> nth_error (write h a c) a = Some c.
Proof.
  revert a; induction h as [|x t IH]; intros [|a] Hl; simpl in *; try lia; auto.
  apply IH; lia.
Qed.

Lemma write_oob h a c : length h <= a -> write h a c = h.
Proof.
  revert a; induction h as [|x t IH]; intros [|a] Hl; simpl in *; try lia; auto.
  f_equal; apply IH; lia.
Qed.

Lemma nth_error_write_all_low ws : forall h n a,
  Forall (fun w => n <= fst w) ws -> a < n -> nth_error (write_all ws h) a = nth_error h a.
Proof.
  induction ws as [|[b c] ws IH]; intros h n a Hall Ha; simpl; auto.
  inversion Hall as [|? ? Hb Hr]; subst; simpl in *.
  unfold write_all in IH. rewrite (IH _ n a Hr Ha).
  apply nth_error_write_other; lia.
Qed.

Lemma reach_app h e v a : reach h v a -> reach (h ++ e) v a.
Proof.
  induction 1 as [k a|k a c v x Hn Hin _ IH|b f fs x Hin _ IH|d x _ IH].
  - apply reach_here.
  - eapply reach_cell; eauto. rewrite nth_error_app1; auto. apply nth_error_Some; congruence.
  - eapply reach_field; eauto.
  - apply reach_iface; auto.
Qed.

(* a value that is closed in h reaches nothing more in an extension of h *)
Lemma reach_shrink h e v a : reach (h ++ e) v a -> wf h v -> reach h v a.
Proof.
  induction 1 as [k a|k a c v x Hn Hin _ IH|b f fs x Hin _ IH|d x _ IH]; intros Hwf.
  - apply reach_here.
  - assert (Ha : a < length h) by (apply Hwf; apply reach_here).
    rewrite nth_error_app1 in Hn by exact Ha.
    eapply reach_cell; eauto. apply IH. intros y Hy. apply Hwf. eapply reach_cell; eauto.
  - eapply reach_field; eauto. apply IH. intros y Hy. apply Hwf. eapply reach_field; eauto.
  - apply reach_iface. apply IH. intros y Hy. apply Hwf. apply reach_iface; auto.
Qed.

(* reads of v only depend on the cells v reaches *)
Lemma read_frame h h2 : forall p v,
  (forall a, reach h v a -> nth_error h2 a = nth_error h a) -> read h2 v p = read h v p.
Proof.
  induction p as [|s r IH]; intros v Hag; simpl; auto.
  destruct s as [i|i|]; destruct v as [z|k [a|]|fs|[d|]]; auto.
  - destruct (nth_error fs i) as [[b f]|] eqn:Hf; auto.
    apply IH. intros a Ha. apply Hag. eapply reach_field; eauto. eapply nth_error_In; eauto.
  - rewrite (Hag a (reach_here h k a)).
    destruct (nth_error h a) as [c|] eqn:Hc; auto.
    destruct (nth_error c i) as [x|] eqn:Hx; auto.
    apply IH. intros b Hb. apply Hag. eapply reach_cell; eauto. eapply nth_error_In; eauto.
  - apply IH. intros a Ha. apply Hag. apply reach_iface; auto.
Qed.

Lemma reach_list_sound fuel : forall h v a, In a (reach_list fuel h v) -> reach h v a.
Proof.
  induction fuel as [|k IH]; intros h v a Hin; simpl in Hin; [contradiction|].
  destruct v as [z|kd [b|]|fs|[d|]]; simpl in Hin; try contradiction.
  - destruct Hin as [->|Hin]; [apply reach_here|].
    destruct (nth_error h b) as [c|] eqn:Hc; [|contradiction].
    apply in_flat_map in Hin as (x & Hx & Hin). eapply reach_cell; eauto.
  - apply in_flat_map in Hin as ([bb f] & Hx & Hin). eapply reach_field; eauto.
  - apply reach_iface; auto.
Qed.

(* ---- a decidable sufficient condition for [wf]: every reference in the heap and in v is in range ---- *)
Fixpoint refs_below (n : nat) (v : value) : bool :=
  match v with
  | VScalar _ => true
  | VRef _ None => true
  | VRef _ (Some a) => a <? n
  | VStruct fs => forallb (fun bf => refs_below n (snd bf)) fs
  | VIface None => true
  | VIface (Some d) => refs_below n d
  end.

Definition heap_closed_b (h : heap) : bool := forallb (forallb (refs_below (length h))) h.

Lemma closed_wf h v : heap_closed_b h = true -> refs_below (length h) v = true -> wf h v.
Proof.
  intros Hh Hv a Hr.
  induction Hr as [k a|k a c x y Hn Hin _ IH|b f fs y Hin _ IH|d y _ IH]; simpl in Hv.
  - apply Nat.ltb_lt; exact Hv.
  - apply IH. unfold heap_closed_b in Hh. rewrite forallb_forall in Hh.
    specialize (Hh c (nth_error_In _ _ Hn)). rewrite forallb_forall in Hh. apply Hh; exact Hin.
  - apply IH. rewrite forallb_forall in Hv. apply (Hv (b, f) Hin).
  - apply IH; exact Hv.
Qed.
