(* Standard base64 (RFC 4648 alphabet, '=' padding) on byte strings (list Z, values 0..255).
   Model of Go's encoding/base64 StdEncoding (non-strict): EncodeToString and DecodeString.
   DecodeString ignores '\r' and '\n' anywhere, requires full padding, ignores the unused trailing bits
   of the last quantum, and rejects anything after the padding.  Used by C34 (HTTP/RTSP Basic). *)
From Coq Require Import List ZArith Bool Lia ZifyBool.
Import ListNotations.
Local Open Scope Z_scope.

Definition b64_char (i : Z) : Z :=
  if i <? 26 then 65 + i
  else if i <? 52 then 71 + i          (* 'a' + (i-26) *)
  else if i <? 62 then i - 4           (* '0' + (i-52) *)
  else if i =? 62 then 43 else 47.     (* '+' , '/' *)

Definition b64_val (c : Z) : option Z :=
  if (65 <=? c) && (c <=? 90) then Some (c - 65)
  else if (97 <=? c) && (c <=? 122) then Some (c - 71)
  else if (48 <=? c) && (c <=? 57) then Some (c + 4)
  else if c =? 43 then Some 62
  else if c =? 47 then Some 63
  else None.

Fixpoint b64_encode (s : list Z) : list Z :=
  match s with
  | [] => []
  | [a] => [b64_char (a / 4); b64_char ((a mod 4) * 16); 61; 61]
  | [a; b] => [b64_char (a / 4); b64_char ((a mod 4) * 16 + b / 16); b64_char ((b mod 16) * 4); 61]
  | a :: b :: c :: r =>
      b64_char (a / 4) :: b64_char ((a mod 4) * 16 + b / 16) :: b64_char ((b mod 16) * 4 + c / 64)
        :: b64_char (c mod 64) :: b64_encode r
  end.

Definition is_nil {A} (l : list A) : bool := match l with [] => true | _ => false end.

(* whole quanta; the input has already been stripped of CR/LF *)
Fixpoint b64_decode_quanta (s : list Z) : option (list Z) :=
  match s with
  | [] => Some []
  | a :: b :: c :: d :: r =>
      match b64_val a, b64_val b with
      | Some va, Some vb =>
          if c =? 61 then
            if (d =? 61) && is_nil r then Some [va * 4 + vb / 16] else None
          else
            match b64_val c with
            | None => None
            | Some vc =>
                if d =? 61 then
                  if is_nil r then Some [va * 4 + vb / 16; (vb mod 16) * 16 + vc / 4] else None
                else
                  match b64_val d with
                  | None => None
                  | Some vd =>
                      match b64_decode_quanta r with
                      | Some t => Some ((va * 4 + vb / 16) :: ((vb mod 16) * 16 + vc / 4) :: ((vc mod 4) * 64 + vd) :: t)
                      | None => None
                      end
                  end
            end
      | _, _ => None
      end
  | _ => None
  end.

Definition not_crlf (c : Z) : bool := negb ((c =? 10) || (c =? 13)).

Definition b64_decode (s : list Z) : option (list Z) := b64_decode_quanta (filter not_crlf s).

Definition is_byte (c : Z) : Prop := 0 <= c < 256.

(* ---- lemmas ---- *)

Lemma b64_val_char : forall i, 0 <= i < 64 -> b64_val (b64_char i) = Some i.
Proof.
  intros i Hi. unfold b64_char, b64_val.
  destruct (i <? 26) eqn:E1; [|destruct (i <? 52) eqn:E2; [|destruct (i <? 62) eqn:E3; [|destruct (i =? 62) eqn:E4]]].
  - replace ((65 <=? 65 + i) && (65 + i <=? 90)) with true by lia. f_equal; lia.
  - replace ((65 <=? 71 + i) && (71 + i <=? 90)) with false by lia.
    replace ((97 <=? 71 + i) && (71 + i <=? 122)) with true by lia. f_equal; lia.
  - replace ((65 <=? i - 4) && (i - 4 <=? 90)) with false by lia.
    replace ((97 <=? i - 4) && (i - 4 <=? 122)) with false by lia.
    replace ((48 <=? i - 4) && (i - 4 <=? 57)) with true by lia. f_equal; lia.
  - simpl. f_equal; lia.
  - simpl. assert (i = 63) by lia. subst. reflexivity.
Qed.

Lemma b64_char_cases : forall i, 0 <= i < 64 ->
  let c := b64_char i in c = 43 \/ 47 <= c <= 57 \/ 65 <= c <= 90 \/ 97 <= c <= 122.
Proof.
  intros i Hi. unfold b64_char.
  destruct (i <? 26) eqn:E1; [|destruct (i <? 52) eqn:E2; [|destruct (i <? 62) eqn:E3; [|destruct (i =? 62) eqn:E4]]]; lia.
Qed.

Lemma b64_char_not_pad : forall i, 0 <= i < 64 -> (b64_char i =? 61) = false.
Proof. intros i Hi. pose proof (b64_char_cases i Hi) as H. cbv zeta in H. lia. Qed.

Lemma b64_char_not_crlf : forall i, 0 <= i < 64 -> not_crlf (b64_char i) = true.
Proof. intros i Hi. pose proof (b64_char_cases i Hi) as H. cbv zeta in H. unfold not_crlf. lia. Qed.

(* induction three bytes at a time *)
Lemma list_ind3 {A} (P : list A -> Prop) :
  P [] -> (forall a, P [a]) -> (forall a b, P [a; b]) ->
  (forall a b c r, P r -> P (a :: b :: c :: r)) -> forall s, P s.
Proof.
  intros H0 H1 H2 H3.
  fix IH 1. intros [|a [|b [|c r]]]; [exact H0|apply H1|apply H2|apply H3, IH].
Qed.

Lemma b64_encode_no_crlf : forall s, Forall is_byte s -> filter not_crlf (b64_encode s) = b64_encode s.
Proof.
  induction s as [|a|a b|a b c r IH] using list_ind3; intros HF.
  - reflexivity.
  - inversion_clear HF as [|? ? Ha _]. unfold is_byte in Ha.
    cbn [b64_encode filter].
    rewrite !b64_char_not_crlf by (Z.div_mod_to_equations; lia). reflexivity.
  - inversion_clear HF as [|? ? Ha HF']. inversion_clear HF' as [|? ? Hb _]. unfold is_byte in Ha, Hb.
    cbn [b64_encode filter].
    rewrite !b64_char_not_crlf by (Z.div_mod_to_equations; lia). reflexivity.
  - inversion_clear HF as [|? ? Ha HF']. inversion_clear HF' as [|? ? Hb HF]. inversion_clear HF as [|? ? Hc HF'].
    unfold is_byte in Ha, Hb, Hc.
    cbn [b64_encode filter].
    rewrite !b64_char_not_crlf by (Z.div_mod_to_equations; lia). rewrite IH by assumption. reflexivity.
Qed.

Lemma b64_quanta_encode : forall s, Forall is_byte s -> b64_decode_quanta (b64_encode s) = Some s.
Proof.
  induction s as [|a|a b|a b c r IH] using list_ind3; intros HF.
  - reflexivity.
  - inversion_clear HF as [|? ? Ha _]. unfold is_byte in Ha.
    cbn [b64_encode b64_decode_quanta].
    rewrite !b64_val_char by (Z.div_mod_to_equations; lia).
    cbn. f_equal. f_equal. Z.div_mod_to_equations; lia.
  - inversion_clear HF as [|? ? Ha HF']. inversion_clear HF' as [|? ? Hb _]. unfold is_byte in Ha, Hb.
    cbn [b64_encode b64_decode_quanta].
    rewrite !b64_val_char by (Z.div_mod_to_equations; lia).
    rewrite b64_char_not_pad by (Z.div_mod_to_equations; lia).
    cbn. f_equal. f_equal; [|f_equal]; Z.div_mod_to_equations; lia.
  - inversion_clear HF as [|? ? Ha HF']. inversion_clear HF' as [|? ? Hb HF]. inversion_clear HF as [|? ? Hc HF'].
    unfold is_byte in Ha, Hb, Hc.
    cbn [b64_encode b64_decode_quanta].
    rewrite !b64_val_char by (Z.div_mod_to_equations; lia).
    rewrite !b64_char_not_pad by (Z.div_mod_to_equations; lia).
    rewrite IH by assumption.
    f_equal. f_equal; [|f_equal; [|f_equal]]; Z.div_mod_to_equations; lia.
Qed.

(* round trip: decoding the encoding of any byte string gives the string back *)
Theorem b64_decode_encode : forall s, Forall is_byte s -> b64_decode (b64_encode s) = Some s.
Proof.
  intros s HF. unfold b64_decode. rewrite b64_encode_no_crlf by assumption. apply b64_quanta_encode; assumption.
Qed.
