(* Evaluation of correspondence cases inside Coq (DESIGN.md section 1, "Running the model"). *)
From Coq Require Import List ZArith Bool.
Import ListNotations.

Definition bad_ids {A : Type} (f : A -> bool) (cs : list (Z * A)) : list Z :=
  map fst (filter (fun c => f (snd c)) cs).

Lemma bad_ids_nil_iff {A} (f : A -> bool) cs :
  bad_ids f cs = [] <-> forall i c, In (i, c) cs -> f c = false.
Proof.
  unfold bad_ids. induction cs as [|[i c] cs IH]; simpl.
  - split; [intros _ ? ? []|reflexivity].
  - destruct (f c) eqn:E; simpl.
    + split; [discriminate|]. intros H. specialize (H i c (or_introl eq_refl)). congruence.
    + rewrite IH. split.
      * intros H j d [Hjd|Hjd]; [inversion Hjd; subst; exact E|eauto].
      * intros H j d Hjd. apply (H j d). right; exact Hjd.
Qed.
