(* Event traces of step machines: running a list of operations, lifting per-step facts to all
   histories (fold_left style induction), and trace predicates expressed as monitors
   (`alternates`, `at_most_once`).  Used by C16-C20 (path event loop). *)
From Coq Require Import List Bool.
Import ListNotations.

Section Machine.
  Variables (S O E : Type).
  Variable step : S -> O -> S * list E.

  (* state and trace after a history *)
  Fixpoint run_from (s : S) (ops : list O) : S * list E :=
    match ops with
    | [] => (s, [])
    | o :: r => let (s1, e1) := step s o in
                let (s2, e2) := run_from s1 r in (s2, e1 ++ e2)
    end.

  Definition final (s : S) (ops : list O) : S := fst (run_from s ops).
  Definition trace (s : S) (ops : list O) : list E := snd (run_from s ops).

  Lemma run_from_cons s o r :
    run_from s (o :: r) =
    (final (fst (step s o)) r, snd (step s o) ++ trace (fst (step s o)) r).
  Proof.
    unfold final, trace. simpl. destruct (step s o) as [s1 e1]. simpl.
    destruct (run_from s1 r) as [s2 e2]. reflexivity.
  Qed.

  Lemma final_cons s o r : final s (o :: r) = final (fst (step s o)) r.
  Proof. unfold final at 1. rewrite run_from_cons. reflexivity. Qed.

  Lemma trace_cons s o r : trace s (o :: r) = snd (step s o) ++ trace (fst (step s o)) r.
  Proof. unfold trace at 1. rewrite run_from_cons. reflexivity. Qed.

  Lemma final_app s a b : final s (a ++ b) = final (final s a) b.
  Proof.
    revert s. induction a as [|o a IH]; intros s; [reflexivity|].
    rewrite <- app_comm_cons, !final_cons. apply IH.
  Qed.

  Lemma trace_app s a b : trace s (a ++ b) = trace s a ++ trace (final s a) b.
  Proof.
    revert s. induction a as [|o a IH]; intros s; [reflexivity|].
    rewrite <- app_comm_cons, !trace_cons, final_cons, IH, app_assoc. reflexivity.
  Qed.

  (* the generic lifting lemma: a state invariant preserved by every step holds after every history *)
  Lemma invariant_lift (Inv : S -> Prop) :
    (forall s o, Inv s -> Inv (fst (step s o))) ->
    forall ops s, Inv s -> Inv (final s ops).
  Proof.
    intros Hstep ops. induction ops as [|o r IH]; intros s Hs; [exact Hs|].
    rewrite final_cons. apply IH, Hstep, Hs.
  Qed.

  (* the same with a side condition on the operations of the history *)
  Lemma invariant_lift_ok (Inv : S -> Prop) (ok : O -> Prop) :
    (forall s o, ok o -> Inv s -> Inv (fst (step s o))) ->
    forall ops s, Forall ok ops -> Inv s -> Inv (final s ops).
  Proof.
    intros Hstep ops. induction ops as [|o r IH]; intros s Hok Hs; [exact Hs|].
    rewrite final_cons. inversion Hok; subst. apply IH; [assumption|]. apply Hstep; assumption.
  Qed.

  (* every state reached along a history satisfies the invariant: per-step facts hold at each step *)
  Lemma step_fact_lift (Inv : S -> Prop) (P : S -> O -> Prop) :
    (forall s o, Inv s -> Inv (fst (step s o))) ->
    (forall s o, Inv s -> P s o) ->
    forall pre o s, Inv s -> P (final s pre) o.
  Proof.
    intros Hstep HP pre o s Hs. apply HP. apply invariant_lift; assumption.
  Qed.

  (* ---- monitors: a trace predicate given by a partial automaton over events ---------------- *)
  Section Monitor.
    Variable A : Type.
    Variable mon : A -> E -> option A.

    Fixpoint mon_run (a : A) (l : list E) : option A :=
      match l with
      | [] => Some a
      | e :: r => match mon a e with Some a' => mon_run a' r | None => None end
      end.

    Lemma mon_run_app a l1 l2 :
      mon_run a (l1 ++ l2) = match mon_run a l1 with Some a' => mon_run a' l2 | None => None end.
    Proof.
      revert a. induction l1 as [|e l1 IH]; intros a; simpl; [reflexivity|].
      destruct (mon a e); [apply IH|reflexivity].
    Qed.

    (* lifting: a relation between machine state and monitor state that every step re-establishes
       while the monitor accepts the step's events, holds (and the monitor accepts) for all histories *)
    Lemma monitor_lift (R : S -> A -> Prop) :
      (forall s a o, R s a -> exists a', mon_run a (snd (step s o)) = Some a' /\ R (fst (step s o)) a') ->
      forall ops s a, R s a -> exists a', mon_run a (trace s ops) = Some a' /\ R (final s ops) a'.
    Proof.
      intros Hstep ops. induction ops as [|o r IH]; intros s a HR.
      - exists a. split; [reflexivity|exact HR].
      - rewrite trace_cons, final_cons, mon_run_app.
        destruct (Hstep s a o HR) as [a1 [H1 HR1]]. rewrite H1. apply IH, HR1.
    Qed.

    Lemma monitor_lift_ok (R : S -> A -> Prop) (ok : O -> Prop) :
      (forall s a o, ok o -> R s a -> exists a', mon_run a (snd (step s o)) = Some a' /\ R (fst (step s o)) a') ->
      forall ops s a, Forall ok ops -> R s a ->
        exists a', mon_run a (trace s ops) = Some a' /\ R (final s ops) a'.
    Proof.
      intros Hstep ops. induction ops as [|o r IH]; intros s a Hok HR.
      - exists a. split; [reflexivity|exact HR].
      - inversion Hok; subst. rewrite trace_cons, final_cons, mon_run_app.
        destruct (Hstep s a o H1 HR) as [a1 [Ha1 HR1]]. rewrite Ha1. apply IH; assumption.
    Qed.
  End Monitor.
End Machine.

Arguments run_from {S O E} step s ops.
Arguments final {S O E} step s ops.
Arguments trace {S O E} step s ops.
Arguments mon_run {E A} mon a l.

(* ---- alternation of two event classes ------------------------------------------------------ *)
Section Alternates.
  Variable E : Type.
  (* Some true = opening event, Some false = closing event, None = irrelevant *)
  Variable cls : E -> option bool.

  Definition alt_mon (opened : bool) (e : E) : option bool :=
    match cls e with
    | None => Some opened
    | Some true => if opened then None else Some true
    | Some false => if opened then Some false else None
    end.

  (* readable specification: the classified events read open, close, open, close, ... *)
  Inductive alt_from : bool -> list E -> Prop :=
  | alt_nil b : alt_from b []
  | alt_skip b e l : cls e = None -> alt_from b l -> alt_from b (e :: l)
  | alt_open e l : cls e = Some true -> alt_from true l -> alt_from false (e :: l)
  | alt_close e l : cls e = Some false -> alt_from false l -> alt_from true (e :: l).

  (* strict alternation starting with an opening event *)
  Definition alternates (l : list E) : Prop := alt_from false l.

  Lemma alt_from_iff b l : alt_from b l <-> exists b', mon_run alt_mon b l = Some b'.
  Proof.
    split.
    - induction 1 as [b|b e l Hc _ IH|e l Hc _ IH|e l Hc _ IH].
      + eexists; reflexivity.
      + cbn [mon_run]. unfold alt_mon. rewrite Hc. exact IH.
      + cbn [mon_run]. unfold alt_mon. rewrite Hc. exact IH.
      + cbn [mon_run]. unfold alt_mon. rewrite Hc. exact IH.
    - revert b. induction l as [|e l IH]; intros b [b' H]; [constructor|].
      cbn [mon_run] in H. destruct (alt_mon b e) as [b1|] eqn:Hm; [|discriminate].
      unfold alt_mon in Hm. destruct (cls e) as [[|]|] eqn:Hc.
      + destruct b; [discriminate|]. inversion Hm; subst. apply alt_open; [exact Hc|]. apply IH. eexists; exact H.
      + destruct b; [|discriminate]. inversion Hm; subst. apply alt_close; [exact Hc|]. apply IH. eexists; exact H.
      + inversion Hm; subst. apply alt_skip; [exact Hc|]. apply IH. eexists; exact H.
  Qed.

  (* the pair is closed at the end of the trace *)
  Definition alternates_closed (l : list E) : Prop := mon_run alt_mon false l = Some false.

  Lemma alternates_closed_alternates l : alternates_closed l -> alternates l.
  Proof. intros H. apply alt_from_iff. eexists; exact H. Qed.
End Alternates.

Arguments alt_mon {E} cls opened e.
Arguments alt_from {E} cls b l.
Arguments alternates {E} cls l.
Arguments alternates_closed {E} cls l.

(* ---- at most once ---------------------------------------------------------------------------- *)
Section Once.
  Variables (E K : Type).
  Variable key : E -> option K.   (* the events of interest carry a key *)

  Fixpoint keys (l : list E) : list K :=
    match l with
    | [] => []
    | e :: r => match key e with Some k => k :: keys r | None => keys r end
    end.

  Lemma keys_app a b : keys (a ++ b) = keys a ++ keys b.
  Proof.
    induction a as [|e a IH]; simpl; [reflexivity|].
    destruct (key e); simpl; rewrite IH; reflexivity.
  Qed.

  (* no key occurs twice among the events of interest *)
  Definition at_most_once (l : list E) : Prop := NoDup (keys l).
End Once.

Arguments keys {E K} key l.
Arguments at_most_once {E K} key l.
