(* Go fixed-width integer arithmetic over Z: wrap-around made explicit. *)
From Coq Require Import ZArith Lia.
Local Open Scope Z_scope.

Definition two63 : Z := 9223372036854775808.
Definition two64 : Z := 18446744073709551616.
Definition two32 : Z := 4294967296.
Definition two31 : Z := 2147483648.

(* value of a Go int64 after an operation whose exact result is z *)
Definition wrap64 (z : Z) : Z := (z + two63) mod two64 - two63.
Definition wrapu64 (z : Z) : Z := z mod two64.
Definition wrapu32 (z : Z) : Z := z mod two32.
Definition wrapu16 (z : Z) : Z := z mod 65536.
Definition in_int64 (z : Z) : Prop := - two63 <= z < two63.
Definition in_int64b (z : Z) : bool := (- two63 <=? z) && (z <? two63).

Lemma wrap64_id z : in_int64 z -> wrap64 z = z.
Proof.
  unfold in_int64, wrap64, two63, two64. intros H.
  rewrite Z.mod_small by lia. lia.
Qed.

Lemma wrap64_range z : in_int64 (wrap64 z).
Proof.
  unfold in_int64, wrap64, two63, two64.
  pose proof (Z.mod_pos_bound (z + 9223372036854775808) 18446744073709551616 ltac:(lia)). lia.
Qed.

Lemma wrapu64_id z : 0 <= z < two64 -> wrapu64 z = z.
Proof. intros H. unfold wrapu64. apply Z.mod_small; exact H. Qed.

Lemma wrapu32_id z : 0 <= z < two32 -> wrapu32 z = z.
Proof. intros H. unfold wrapu32. apply Z.mod_small; exact H. Qed.

(* Go's / and % on signed integers truncate toward zero *)
Definition goquot (a b : Z) : Z := Z.quot a b.
Definition gorem (a b : Z) : Z := Z.rem a b.
