(* UTF-8 on byte strings (list Z, values 0..255), following Go's unicode/utf8:
   DecodeRune consumes one well-formed sequence (accept ranges of the second byte as in
   utf8.acceptRanges: no overlong forms, no surrogates, nothing above U+10FFFF) or ONE byte of an
   ill-formed one (RuneError, size 1).  A string is thereby cut into "runes"; sanitising replaces
   every bad byte by U+FFFD (EF BF BD) - what `for _, r := range s`, string([]rune(s)),
   strings.ToValidUTF8-per-byte and encoding/json do.
   Owner: builder of C37 (used by Lib/Json.v, C37, C05). *)
From Coq Require Import List ZArith Bool Lia.
Import ListNotations.
Local Open Scope Z_scope.

Definition is_byte (b : Z) : Prop := 0 <= b < 256.
Definition bytes (s : list Z) : Prop := Forall is_byte s.

Definition in_rng (lo hi b : Z) : bool := (lo <=? b) && (b <=? hi).
Definition cont (b : Z) : bool := in_rng 128 191 b.

(* accept range of the second byte, given the first *)
Definition second_ok (b0 b1 : Z) : bool :=
  if b0 =? 224 then in_rng 160 191 b1
  else if b0 =? 237 then in_rng 128 159 b1
  else if b0 =? 240 then in_rng 144 191 b1
  else if b0 =? 244 then in_rng 128 143 b1
  else cont b1.

Inductive rune :=
| RAscii (b : Z)          (* one byte < 0x80 *)
| RBad (b : Z)            (* one byte that does not start a well-formed sequence here *)
| RMulti (bs : list Z).   (* a well-formed 2, 3 or 4 byte sequence *)

(* utf8.DecodeRune on a non-empty string: the rune at the head and the rest *)
Definition decode1 (s : list Z) : option (rune * list Z) :=
  match s with
  | [] => None
  | b0 :: r0 =>
    if b0 <? 128 then Some (RAscii b0, r0) else
    if in_rng 194 223 b0 then
      match r0 with
      | b1 :: r1 => if cont b1 then Some (RMulti [b0; b1], r1) else Some (RBad b0, r0)
      | _ => Some (RBad b0, r0)
      end
    else if in_rng 224 239 b0 then
      match r0 with
      | b1 :: b2 :: r2 => if second_ok b0 b1 && cont b2 then Some (RMulti [b0; b1; b2], r2) else Some (RBad b0, r0)
      | _ => Some (RBad b0, r0)
      end
    else if in_rng 240 244 b0 then
      match r0 with
      | b1 :: b2 :: b3 :: r3 =>
          if second_ok b0 b1 && cont b2 && cont b3 then Some (RMulti [b0; b1; b2; b3], r3) else Some (RBad b0, r0)
      | _ => Some (RBad b0, r0)
      end
    else Some (RBad b0, r0)
  end.

Fixpoint runes_fuel (fuel : nat) (s : list Z) : list rune :=
  match fuel with
  | O => []
  | S f => match decode1 s with
           | None => []
           | Some (r, rest) => r :: runes_fuel f rest
           end
  end.

(* the string cut into runes (every step consumes at least one byte, so length s steps suffice) *)
Definition runes (s : list Z) : list rune := runes_fuel (length s) s.

Definition fffd : list Z := [239; 191; 189].

(* the bytes a rune was read from / the bytes it is written as after sanitising *)
Definition rune_src (r : rune) : list Z :=
  match r with RAscii b => [b] | RBad b => [b] | RMulti bs => bs end.
Definition rune_out (r : rune) : list Z :=
  match r with RAscii b => [b] | RBad _ => fffd | RMulti bs => bs end.

Definition sanitize (s : list Z) : list Z := flat_map rune_out (runes s).

Definition rune_good (r : rune) : bool := match r with RBad _ => false | _ => true end.
Definition valid_utf8 (s : list Z) : bool := forallb rune_good (runes s).

(* code point of a rune (RBad: U+FFFD) *)
Definition codepoint (r : rune) : Z :=
  match r with
  | RAscii b => b
  | RBad _ => 65533
  | RMulti [b0; b1] => (b0 - 192) * 64 + (b1 - 128)
  | RMulti [b0; b1; b2] => ((b0 - 224) * 64 + (b1 - 128)) * 64 + (b2 - 128)
  | RMulti [b0; b1; b2; b3] => (((b0 - 240) * 64 + (b1 - 128)) * 64 + (b2 - 128)) * 64 + (b3 - 128)
  | RMulti _ => 65533
  end.

(* utf8.EncodeRune / AppendRune: surrogates and out-of-range values become U+FFFD *)
Definition encode_rune (c : Z) : list Z :=
  if c <? 0 then fffd
  else if c <? 128 then [c]
  else if c <? 2048 then [192 + c / 64; 128 + c mod 64]
  else if in_rng 55296 57343 c then fffd
  else if c <? 65536 then [224 + c / 4096; 128 + (c / 64) mod 64; 128 + c mod 64]
  else if c <? 1114112 then [240 + c / 262144; 128 + (c / 4096) mod 64; 128 + (c / 64) mod 64; 128 + c mod 64]
  else fffd.

(* shape of a well-formed multi-byte sequence *)
Definition valid_seq (bs : list Z) : bool :=
  match bs with
  | [b0; b1] => in_rng 194 223 b0 && cont b1
  | [b0; b1; b2] => in_rng 224 239 b0 && second_ok b0 b1 && cont b2
  | [b0; b1; b2; b3] => in_rng 240 244 b0 && second_ok b0 b1 && cont b2 && cont b3
  | _ => false
  end.

Definition wf_rune (r : rune) : Prop :=
  match r with
  | RAscii b => 0 <= b < 128
  | RBad b => 128 <= b < 256
  | RMulti bs => valid_seq bs = true
  end.

Fixpoint list_eqb (a b : list Z) : bool :=
  match a, b with
  | [], [] => true
  | x :: a', y :: b' => (x =? y) && list_eqb a' b'
  | _, _ => false
  end.

(* ------------------------------------------------------------------------------------- *)
(* lemmas *)

Lemma list_eqb_eq a b : list_eqb a b = true <-> a = b.
Proof.
  revert b. induction a as [|x a IH]; destruct b as [|y b]; simpl; try (split; (discriminate || reflexivity)).
  rewrite andb_true_iff, Z.eqb_eq, IH. split; [intros [-> ->]; reflexivity|intros H; inversion H; auto].
Qed.

Lemma list_eqb_refl a : list_eqb a a = true.
Proof. apply list_eqb_eq. reflexivity. Qed.

Lemma in_rng_spec lo hi b : in_rng lo hi b = true <-> lo <= b <= hi.
Proof. unfold in_rng. rewrite andb_true_iff, !Z.leb_le. tauto. Qed.

(* a well-formed sequence at the head of a string is what DecodeRune reads *)
Lemma decode1_multi_app bs tail :
  valid_seq bs = true -> decode1 (bs ++ tail) = Some (RMulti bs, tail).
Proof.
  intros H.
  destruct bs as [|b0 [|b1 [|b2 [|b3 [|b4 bs]]]]]; simpl in H; try discriminate.
  - apply andb_true_iff in H as [H0 H1].
    pose proof (proj1 (in_rng_spec _ _ _) H0) as R0.
    simpl. replace (b0 <? 128) with false by (symmetry; apply Z.ltb_ge; lia).
    rewrite H0, H1. reflexivity.
  - apply andb_true_iff in H as [H H2]. apply andb_true_iff in H as [H0 H1].
    pose proof (proj1 (in_rng_spec _ _ _) H0) as R0.
    simpl. replace (b0 <? 128) with false by (symmetry; apply Z.ltb_ge; lia).
    replace (in_rng 194 223 b0) with false
      by (symmetry; apply not_true_is_false; rewrite in_rng_spec; lia).
    rewrite H0, H1, H2. reflexivity.
  - apply andb_true_iff in H as [H H3]. apply andb_true_iff in H as [H H2]. apply andb_true_iff in H as [H0 H1].
    pose proof (proj1 (in_rng_spec _ _ _) H0) as R0.
    simpl. replace (b0 <? 128) with false by (symmetry; apply Z.ltb_ge; lia).
    replace (in_rng 194 223 b0) with false
      by (symmetry; apply not_true_is_false; rewrite in_rng_spec; lia).
    replace (in_rng 224 239 b0) with false
      by (symmetry; apply not_true_is_false; rewrite in_rng_spec; lia).
    rewrite H0, H1, H2, H3. reflexivity.
Qed.

(* one decoding step: the rune is well formed, the source is rune_src ++ rest *)
Lemma decode1_spec s r rest :
  bytes s -> decode1 s = Some (r, rest) ->
  wf_rune r /\ s = rune_src r ++ rest /\ bytes rest.
Proof.
  intros Hb H. destruct s as [|b0 r0]; [discriminate|].
  inversion Hb as [|? ? Hb0 Hr0]; subst. unfold is_byte in Hb0.
  assert (Bad : wf_rune (RBad b0) \/ b0 < 128) by (simpl; lia).
  unfold decode1 in H.
  destruct (b0 <? 128) eqn:E0.
  { inversion H; subst. apply Z.ltb_lt in E0. simpl. repeat split; try lia; auto. }
  apply Z.ltb_ge in E0.
  assert (WB : wf_rune (RBad b0)) by (simpl; lia).
  assert (BadCase : Some (RBad b0, r0) = Some (r, rest) -> wf_rune r /\ b0 :: r0 = rune_src r ++ rest /\ bytes rest).
  { intros HH. inversion HH; subst. simpl. repeat split; try lia; auto. }
  destruct (in_rng 194 223 b0) eqn:E2.
  { destruct r0 as [|b1 r1]; [auto|].
    destruct (cont b1) eqn:C1; [|auto].
    inversion H; subst. simpl. rewrite E2, C1. repeat split; auto.
    inversion Hr0; auto. }
  destruct (in_rng 224 239 b0) eqn:E3.
  { destruct r0 as [|b1 [|b2 r2]]; [auto|auto|].
    destruct (second_ok b0 b1 && cont b2) eqn:C; [|auto].
    apply andb_true_iff in C as [C1 C2].
    inversion H; subst. simpl. rewrite E3, C1, C2. repeat split; auto.
    inversion Hr0 as [|? ? ? Hr1]; inversion Hr1; auto. }
  destruct (in_rng 240 244 b0) eqn:E4.
  { destruct r0 as [|b1 [|b2 [|b3 r3]]]; [auto|auto|auto|].
    destruct (second_ok b0 b1 && cont b2 && cont b3) eqn:C; [|auto].
    apply andb_true_iff in C as [C C3]. apply andb_true_iff in C as [C1 C2].
    inversion H; subst. simpl. rewrite E4, C1, C2, C3. repeat split; auto.
    inversion Hr0 as [|? ? ? Hr1]; inversion Hr1 as [|? ? ? Hr2]; inversion Hr2; auto. }
  auto.
Qed.

Lemma rune_src_nonempty r : wf_rune r -> (1 <= length (rune_src r))%nat.
Proof.
  destruct r as [b|b|bs]; simpl; try lia.
  destruct bs as [|b0 [|b1 bs]]; simpl; intros H; try discriminate; lia.
Qed.

Lemma runes_fuel_spec fuel : forall s, bytes s -> (length s <= fuel)%nat ->
  Forall wf_rune (runes_fuel fuel s) /\ flat_map rune_src (runes_fuel fuel s) = s.
Proof.
  induction fuel as [|f IH]; intros s Hb Hl.
  - destruct s; [simpl; auto|simpl in Hl; lia].
  - simpl. destruct (decode1 s) as [[r rest]|] eqn:D.
    + destruct (decode1_spec _ _ _ Hb D) as (W & Es & Hbr).
      assert (length rest <= f)%nat.
      { pose proof (rune_src_nonempty _ W). subst s. rewrite app_length in Hl. lia. }
      destruct (IH rest Hbr H) as [F E]. split; [constructor; auto|].
      simpl. rewrite E. symmetry; exact Es.
    + destruct s; [simpl; auto|].
      simpl in D. repeat match type of D with
        | (if ?c then _ else _) = None => destruct c
        | match ?l with _ => _ end = None => destruct l
        end; discriminate.
Qed.

(* every rune of a byte string is well formed, and the runes partition the string *)
Lemma runes_wf s : bytes s -> Forall wf_rune (runes s).
Proof. intros H. apply (runes_fuel_spec (length s) s H). lia. Qed.

Lemma runes_src s : bytes s -> flat_map rune_src (runes s) = s.
Proof. intros H. apply (runes_fuel_spec (length s) s H). lia. Qed.

(* sanitising leaves valid UTF-8 unchanged *)
Lemma sanitize_valid s : bytes s -> valid_utf8 s = true -> sanitize s = s.
Proof.
  intros Hb Hv. unfold sanitize, valid_utf8 in *.
  rewrite <- (runes_src s Hb) at 2.
  induction (runes s) as [|r rs IH]; [reflexivity|].
  simpl in *. apply andb_true_iff in Hv as [Hr Hv]. rewrite (IH Hv).
  destruct r; [reflexivity|discriminate|reflexivity].
Qed.
