(* Proleptic Gregorian calendar arithmetic over Z: days since 1970-01-01 <-> (year, month, day),
   Go's time.Date normalisation, and the fields Go's time.Time accessors return for an instant
   shifted by a zone offset. Both round trips are proved for ALL days / all valid dates; the
   400-year cycle is swept exhaustively by vm_compute and lifted with forallb_forall. *)
From Coq Require Import ZArith Lia List Bool ZifyBool.
Import ListNotations.
Local Open Scope Z_scope.

(* ---------------- days <- civil ---------------- *)

(* valid for 1 <= m <= 12 and any integer d (the day enters linearly, as in Go's time.Date) *)
Definition days_from_civil (y m d : Z) : Z :=
  let y' := if m <=? 2 then y - 1 else y in
  let era := y' / 400 in
  let yoe := y' - era * 400 in
  let mp := if m >? 2 then m - 3 else m + 9 in
  let doy := (153 * mp + 2) / 5 + d - 1 in
  let doe := yoe * 365 + yoe / 4 - yoe / 100 + doy in
  era * 146097 + doe - 719468.

(* time.Date: the month is normalised into the year first (norm(year, month-1, 12)) *)
Definition norm_month (y m : Z) : Z * Z := (y + (m - 1) / 12, (m - 1) mod 12 + 1).

(* Unix seconds of time.Date(y, m, d, H, Mi, S, _, zone with offset off); any integer fields *)
Definition date_unix (y m d H Mi S off : Z) : Z :=
  let '(y', m') := norm_month y m in
  days_from_civil y' m' d * 86400 + H * 3600 + Mi * 60 + S - off.

(* ---------------- civil <- days ---------------- *)

Definition yoe_of_doe (doe : Z) : Z := (doe - doe / 1460 + doe / 36524 - doe / 146096) / 365.
Definition doy_of (doe yoe : Z) : Z := doe - (365 * yoe + yoe / 4 - yoe / 100).
Definition mp_of (doy : Z) : Z := (5 * doy + 2) / 153.
Definition dom_of (doy mp : Z) : Z := doy - (153 * mp + 2) / 5 + 1.
Definition month_of_mp (mp : Z) : Z := if mp <? 10 then mp + 3 else mp - 9.

Definition civil_from_days (z : Z) : Z * Z * Z :=
  let z' := z + 719468 in
  let era := z' / 146097 in
  let doe := z' - era * 146097 in
  let yoe := yoe_of_doe doe in
  let doy := doy_of doe yoe in
  let mp := mp_of doy in
  let m := month_of_mp mp in
  let y := yoe + era * 400 in
  ((if m <=? 2 then y + 1 else y), m, dom_of doy mp).

Definition is_leap (y : Z) : bool := (y mod 4 =? 0) && (negb (y mod 100 =? 0) || (y mod 400 =? 0)).
Definition days_in_month (y m : Z) : Z :=
  if m =? 2 then (if is_leap y then 29 else 28)
  else if (m =? 4) || (m =? 6) || (m =? 9) || (m =? 11) then 30 else 31.
Definition valid_date (y m d : Z) : bool :=
  (1 <=? m) && (m <=? 12) && (1 <=? d) && (d <=? days_in_month y m).

(* ---------------- fields of an instant in a zone (Go: t.Year() ... t.Second()) ---------------- *)

Record civil := mkCivil { c_year : Z; c_month : Z; c_day : Z; c_hour : Z; c_min : Z; c_sec : Z }.

Definition civil_of_unix (unix off : Z) : civil :=
  let a := unix + off in
  let days := a / 86400 in
  let sod := a mod 86400 in
  let '(y, m, d) := civil_from_days days in
  mkCivil y m d (sod / 3600) ((sod / 60) mod 60) (sod mod 60).

(* ---------------- sweep of one 400-year era ---------------- *)

Definition doe_ok (doe : Z) : bool :=
  let yoe := yoe_of_doe doe in
  let doy := doy_of doe yoe in
  let mp := mp_of doy in
  let m := month_of_mp mp in
  let d := dom_of doy mp in
  (0 <=? yoe) && (yoe <=? 399) && (1 <=? m) && (m <=? 12) && (1 <=? d) && (d <=? 31)
  && ((if m >? 2 then m - 3 else m + 9) =? mp)
  && (yoe * 365 + yoe / 4 - yoe / 100 + ((153 * mp + 2) / 5 + d - 1) =? doe)
  && (d <=? days_in_month (if m <=? 2 then yoe + 1 else yoe) m).

Fixpoint zrange_from (start : Z) (n : nat) : list Z :=
  match n with O => [] | S k => start :: zrange_from (start + 1) k end.
Definition zrange (n : Z) : list Z := zrange_from 0 (Z.to_nat n).

Lemma zrange_from_in n : forall s k, s <= k < s + Z.of_nat n -> In k (zrange_from s n).
Proof.
  induction n as [|n IH]; intros s k H; [lia|]. cbn [zrange_from].
  destruct (Z.eq_dec s k) as [->|Hne]; [left; reflexivity|right]. apply IH. lia.
Qed.

Lemma zrange_in n k : 0 <= k < n -> In k (zrange n).
Proof. intros H. unfold zrange. apply zrange_from_in. lia. Qed.

Lemma doe_sweep : forallb doe_ok (zrange 146097) = true.
Proof. vm_cast_no_check (eq_refl true). Qed.

Lemma doe_ok_all doe : 0 <= doe < 146097 -> doe_ok doe = true.
Proof. intros H. exact (proj1 (forallb_forall _ _) doe_sweep doe (zrange_in _ _ H)). Qed.

Lemma era_split z : let era := z / 146097 in 0 <= z - era * 146097 < 146097.
Proof. cbv zeta. pose proof (Z.div_mod z 146097 ltac:(lia)). pose proof (Z.mod_pos_bound z 146097 ltac:(lia)). lia. Qed.

Lemma div400 yoe era : 0 <= yoe <= 399 -> (yoe + era * 400) / 400 = era.
Proof. intros H. rewrite Z.div_add by lia. rewrite Z.div_small by lia. lia. Qed.

(* every day number is hit by exactly the date civil_from_days returns *)
Theorem days_civil_days z :
  let '(y, m, d) := civil_from_days z in days_from_civil y m d = z /\ 1 <= m <= 12 /\ 1 <= d <= 31.
Proof.
  unfold civil_from_days.
  set (z' := z + 719468). set (era := z' / 146097). set (doe := z' - era * 146097).
  pose proof (era_split z') as Hdoe. cbv zeta in Hdoe. fold era in Hdoe. fold doe in Hdoe.
  pose proof (doe_ok_all doe Hdoe) as Hok. unfold doe_ok in Hok.
  set (yoe := yoe_of_doe doe) in *. set (doy := doy_of doe yoe) in *.
  set (mp := mp_of doy) in *. set (m := month_of_mp mp) in *. set (d := dom_of doy mp) in *.
  repeat rewrite andb_true_iff in Hok.
  destruct Hok as ((((((((H0 & H1) & H2) & H3) & H4) & H5) & H6) & H7) & _).
  split; [|lia].
  unfold days_from_civil.
  assert (Hy : (if m <=? 2 then (if m <=? 2 then yoe + era * 400 + 1 else yoe + era * 400) - 1
                else (if m <=? 2 then yoe + era * 400 + 1 else yoe + era * 400)) = yoe + era * 400)
    by (destruct (m <=? 2); lia).
  rewrite Hy. rewrite (div400 yoe era) by lia.
  replace (yoe + era * 400 - era * 400) with yoe by lia.
  apply Z.eqb_eq in H6. rewrite H6. apply Z.eqb_eq in H7. lia.
Qed.

Lemma civil_from_days_valid z :
  let '(y, m, d) := civil_from_days z in valid_date y m d = true.
Proof.
  unfold civil_from_days.
  set (z' := z + 719468). set (era := z' / 146097). set (doe := z' - era * 146097).
  pose proof (era_split z') as Hdoe. cbv zeta in Hdoe. fold era in Hdoe. fold doe in Hdoe.
  pose proof (doe_ok_all doe Hdoe) as Hok. unfold doe_ok in Hok.
  set (yoe := yoe_of_doe doe) in *. set (doy := doy_of doe yoe) in *.
  set (mp := mp_of doy) in *. set (m := month_of_mp mp) in *. set (d := dom_of doy mp) in *.
  repeat rewrite andb_true_iff in Hok.
  destruct Hok as ((((((((H0 & H1) & H2) & H3) & H4) & H5) & H6) & H7) & H8).
  unfold valid_date. repeat rewrite andb_true_iff. repeat split; try assumption.
  (* days_in_month only depends on the year modulo 400 *)
  assert (Hdim : forall a, days_in_month (a + era * 400) m = days_in_month a m).
  { intros a. unfold days_in_month, is_leap.
    replace ((a + era * 400) mod 4) with (a mod 4)
      by (replace (a + era * 400) with (a + (era * 100) * 4) by lia; now rewrite Z.mod_add by lia).
    replace ((a + era * 400) mod 100) with (a mod 100)
      by (replace (a + era * 400) with (a + (era * 4) * 100) by lia; now rewrite Z.mod_add by lia).
    replace ((a + era * 400) mod 400) with (a mod 400) by (now rewrite Z.mod_add by lia).
    reflexivity. }
  destruct (m <=? 2).
  - replace (yoe + era * 400 + 1) with ((yoe + 1) + era * 400) by lia. rewrite Hdim. exact H8.
  - rewrite Hdim. exact H8.
Qed.

(* ---------------- the other direction: every valid date is recovered ---------------- *)

Definition ymd_ok (yoe m d : Z) : bool :=
  (* yoe = (y - [m<=2]) mod 400 ; the date is valid for the year yoe + [m<=2] *)
  let y := if m <=? 2 then yoe + 1 else yoe in
  negb (valid_date y m d) ||
  (let mp := if m >? 2 then m - 3 else m + 9 in
   let doe := yoe * 365 + yoe / 4 - yoe / 100 + ((153 * mp + 2) / 5 + d - 1) in
   (0 <=? doe) && (doe <? 146097) && (yoe_of_doe doe =? yoe)
   && (month_of_mp (mp_of (doy_of doe yoe)) =? m) && (dom_of (doy_of doe yoe) (mp_of (doy_of doe yoe)) =? d)).

Definition ymd_sweep_list : list (Z * Z * Z) :=
  flat_map (fun yoe => flat_map (fun m => map (fun d => (yoe, m, d)) (map (Z.add 1) (zrange 31)))
                                (map (Z.add 1) (zrange 12))) (zrange 400).

Lemma ymd_sweep : forallb (fun '(yoe, m, d) => ymd_ok yoe m d) ymd_sweep_list = true.
Proof. vm_cast_no_check (eq_refl true). Qed.

Lemma ymd_ok_all yoe m d : 0 <= yoe < 400 -> 1 <= m <= 12 -> 1 <= d <= 31 -> ymd_ok yoe m d = true.
Proof.
  intros Hy Hm Hd.
  apply (proj1 (forallb_forall _ _) ymd_sweep (yoe, m, d)).
  unfold ymd_sweep_list. apply in_flat_map. exists yoe. split; [apply zrange_in; lia|].
  apply in_flat_map. exists m. split.
  - apply in_map_iff. exists (m - 1). split; [lia|apply zrange_in; lia].
  - apply in_map_iff. exists d. split; [reflexivity|].
    apply in_map_iff. exists (d - 1). split; [lia|apply zrange_in; lia].
Qed.

Lemma days_in_month_le31 y m : days_in_month y m <= 31.
Proof. unfold days_in_month. repeat match goal with |- context [if ?b then _ else _] => destruct b end; lia. Qed.

Lemma days_in_month_shift a k m : days_in_month (a + k * 400) m = days_in_month a m.
Proof.
  unfold days_in_month, is_leap.
  replace ((a + k * 400) mod 4) with (a mod 4)
    by (replace (a + k * 400) with (a + (k * 100) * 4) by lia; now rewrite Z.mod_add by lia).
  replace ((a + k * 400) mod 100) with (a mod 100)
    by (replace (a + k * 400) with (a + (k * 4) * 100) by lia; now rewrite Z.mod_add by lia).
  replace ((a + k * 400) mod 400) with (a mod 400) by (now rewrite Z.mod_add by lia).
  reflexivity.
Qed.

Theorem civil_days_civil y m d :
  valid_date y m d = true -> civil_from_days (days_from_civil y m d) = (y, m, d).
Proof.
  intros Hv. pose proof Hv as Hv0. unfold valid_date in Hv. repeat rewrite andb_true_iff in Hv.
  destruct Hv as (((Hm1 & Hm2) & Hd1) & Hd2).
  pose proof (days_in_month_le31 y m) as H31.
  unfold days_from_civil. cbv zeta.
  set (y' := if m <=? 2 then y - 1 else y). set (era := y' / 400). set (yoe := y' - era * 400).
  assert (Hyoe : 0 <= yoe < 400).
  { subst yoe era. pose proof (Z.div_mod y' 400 ltac:(lia)). pose proof (Z.mod_pos_bound y' 400 ltac:(lia)). lia. }
  pose proof (ymd_ok_all yoe m d Hyoe ltac:(lia) ltac:(lia)) as Hok. unfold ymd_ok in Hok.
  assert (Hvy : valid_date (if m <=? 2 then yoe + 1 else yoe) m d = true).
  { unfold valid_date. repeat rewrite andb_true_iff. repeat split; try assumption.
    replace (if m <=? 2 then yoe + 1 else yoe) with (y + (- era) * 400)
      by (subst yoe y'; destruct (m <=? 2); lia).
    rewrite days_in_month_shift. exact Hd2. }
  rewrite Hvy in Hok. cbn [negb orb] in Hok.
  set (mp := if m >? 2 then m - 3 else m + 9) in *.
  set (doe := yoe * 365 + yoe / 4 - yoe / 100 + ((153 * mp + 2) / 5 + d - 1)) in *.
  repeat rewrite andb_true_iff in Hok. destruct Hok as ((((Ha & Hb) & Hc) & He) & Hf).
  apply Z.eqb_eq in Hc, He, Hf.
  unfold civil_from_days. cbv zeta.
  replace (era * 146097 + doe - 719468 + 719468) with (doe + era * 146097) by lia.
  rewrite Z.div_add by lia. rewrite (Z.div_small doe) by lia.
  replace (doe + era * 146097 - (0 + era) * 146097) with doe by lia.
  rewrite Hc, He, Hf.
  f_equal. f_equal. subst yoe y'. destruct (m <=? 2); lia.
Qed.

(* consequences used by the file-name codecs *)
Lemma civil_of_unix_date unix off :
  let c := civil_of_unix unix off in
  date_unix (c_year c) (c_month c) (c_day c) (c_hour c) (c_min c) (c_sec c) off = unix.
Proof.
  unfold civil_of_unix.
  set (a := unix + off).
  pose proof (days_civil_days (a / 86400)) as H.
  destruct (civil_from_days (a / 86400)) as [[y m] d]. destruct H as (H & Hm & _).
  cbn [c_year c_month c_day c_hour c_min c_sec]. unfold date_unix, norm_month.
  replace ((m - 1) / 12) with 0 by (symmetry; apply Z.div_small; lia).
  replace ((m - 1) mod 12 + 1) with m by (rewrite Z.mod_small; lia).
  rewrite Z.add_0_r, H.
  pose proof (Z.div_mod a 86400 ltac:(lia)) as Ha. pose proof (Z.mod_pos_bound a 86400 ltac:(lia)) as Hb.
  set (sod := a mod 86400) in *.
  pose proof (Z.div_mod sod 3600 ltac:(lia)). pose proof (Z.mod_pos_bound sod 3600 ltac:(lia)).
  pose proof (Z.div_mod sod 60 ltac:(lia)). pose proof (Z.mod_pos_bound sod 60 ltac:(lia)).
  pose proof (Z.div_mod (sod / 60) 60 ltac:(lia)). pose proof (Z.mod_pos_bound (sod / 60) 60 ltac:(lia)).
  assert (sod / 60 / 60 = sod / 3600) by (rewrite Z.div_div by lia; reflexivity).
  subst a. lia.
Qed.

Lemma civil_of_unix_ranges unix off :
  let c := civil_of_unix unix off in
  1 <= c_month c <= 12 /\ 1 <= c_day c <= 31 /\ 0 <= c_hour c <= 23 /\ 0 <= c_min c <= 59 /\ 0 <= c_sec c <= 59.
Proof.
  unfold civil_of_unix. set (a := unix + off).
  pose proof (days_civil_days (a / 86400)) as H.
  destruct (civil_from_days (a / 86400)) as [[y m] d]. destruct H as (_ & Hm & Hd).
  cbn [c_year c_month c_day c_hour c_min c_sec].
  pose proof (Z.mod_pos_bound a 86400 ltac:(lia)) as Hb. set (sod := a mod 86400) in *.
  pose proof (Z.mod_pos_bound (sod / 60) 60 ltac:(lia)). pose proof (Z.mod_pos_bound sod 60 ltac:(lia)).
  assert (0 <= sod / 3600 < 24) by (split; [apply Z.div_pos; lia | apply Z.div_lt_upper_bound; lia]).
  lia.
Qed.
