#!/usr/bin/env python3
"""Runs the quick check of every claimed property sequentially; prints one line per property (for the coordinator)."""
import json
import subprocess
import sys
import time

man = json.load(open("/verif/MANIFEST.json"))
only = sys.argv[1:]
for c in man["checks"]:
    pid = c["property_id"]
    if only and pid not in only:
        continue
    t0 = time.time()
    p = subprocess.run(c["quick_cmd"], shell=True, cwd="/verif", stdout=subprocess.PIPE, stderr=subprocess.STDOUT)
    out = p.stdout.decode("utf-8", "replace")
    viol = [l for l in out.split("\n") if l.startswith("VIOLATION")]
    known = [l[:90] for l in out.split("\n") if l.startswith("KNOWN-FINDING")]
    print("%s rc=%d %.0fs %s %s" % (pid, p.returncode, time.time() - t0, viol[:1], known[:2]), flush=True)
