#!/usr/bin/env python3
"""Runs the quick (default) or thorough (--thorough) check of every claimed property sequentially, from the directory this
file lives in; prints one line per property (for the coordinator)."""
import json
import os
import subprocess
import sys
import time

ROOT = os.path.dirname(os.path.dirname(os.path.abspath(__file__)))
man = json.load(open(os.path.join(ROOT, "MANIFEST.json")))
thorough = "--thorough" in sys.argv
only = [a for a in sys.argv[1:] if not a.startswith("--")]
for c in man["checks"]:
    pid = c["property_id"]
    if only and pid not in only:
        continue
    t0 = time.time()
    cmd = c["thorough_cmd"] if thorough else c["quick_cmd"]
    p = subprocess.run(cmd, shell=True, cwd=ROOT, stdout=subprocess.PIPE, stderr=subprocess.STDOUT)
    out = p.stdout.decode("utf-8", "replace")
    viol = [l for l in out.split("\n") if l.startswith("VIOLATION")]
    known = [l[:90] for l in out.split("\n") if l.startswith("KNOWN-FINDING")]
    print("%s rc=%d %.0fs %s %s" % (pid, p.returncode, time.time() - t0, viol[:1], known[:2]), flush=True)
