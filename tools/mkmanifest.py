#!/usr/bin/env python3
"""Regenerates /verif/MANIFEST.json from the plugins in tools/props (run after adding a plugin)."""
import glob
import json
import os
import sys

HERE = os.path.dirname(os.path.abspath(__file__))
sys.path.insert(0, HERE)
import check  # noqa: E402
import vlib  # noqa: E402

props = [json.loads(l) for l in open(os.path.join(vlib.VERIF, "properties.jsonl"))]
ids = [p["id"] for p in props]
plugins = sorted(os.path.basename(f)[:-3].upper() for f in glob.glob(os.path.join(HERE, "props", "c*.py")))

NOT_YET = "check not built yet in this session (planned: see DESIGN.md section 4); not claimed until its proof and correspondence run exist"
na_extra = {}
naf = os.path.join(vlib.VERIF, "tools", "not_applicable.json")
if os.path.exists(naf):
    na_extra = json.load(open(naf))

checks, na = [], []
for pid in ids:
    p = check.load_plugin(pid) if pid in plugins else None
    if p is not None and getattr(p, "ready", False) and pid not in na_extra:
        m = getattr(p, "manifest", {})
        checks.append({
            "property_id": pid,
            "quick_cmd": "python3 tools/check.py %s --tier quick" % pid,
            "thorough_cmd": "python3 tools/check.py %s --tier thorough" % pid,
            "evidence_file": "/verif/evidence/%s.json" % pid,
            "replay_cmd_template": "python3 tools/check.py %s --replay {path}" % pid,
            "engine": "coq-correspondence",
            "level_claimed": {
                "category": getattr(p, "level", "proof"),
                "text": m.get("text", "Coq theorems over an executable Gallina model; model tied to /repo by a correspondence run evaluated with vm_compute"),
                "design_ref": m.get("design_ref", "DESIGN.md section 4, " + pid),
            },
            "level_note": m.get("note", "; ".join(getattr(p, "trusted_base", []) + getattr(p, "assumptions", []))),
            "technique": m.get("technique", "machine-checked proof in Coq 8.16.1 + model/implementation correspondence (vm_compute)"),
        })
    else:
        na.append({"property_id": pid, "reason": na_extra.get(pid, NOT_YET)})

man = {
    "version": 1,
    "setup_cmd": "python3 tools/check.py --setup",
    "hooks": {
        "guard": "verif",
        "enable": "go test -tags verif -overlay <overlay.json written at run time> : in-package drivers /verif/harness/inpkg/**/zz_verif_*_test.go (all `//go:build verif`) and the two missing go:embed stubs are injected by the overlay; nothing is committed to /repo for instrumentation",
        "baseline_off_cmd": "cd /repo && go test -mod=mod -json -vet=off -count=1 -timeout 25m ./...",
        "source_commits": [],
        "add_only": True,
    },
    "engines": [{
        "name": "coq-correspondence", "path": "/verif/tools/check.py",
        "serves_properties": [c["property_id"] for c in checks],
        "kind_free_text": "Coq 8.16.1 development under /verif/coq (Model/Proofs/Props/Check) + Go in-package drivers; translators under tools/gen regenerate coq/gen/*.v from /repo on every run",
    }],
    "checks": checks,
    "not_applicable": na,
    "notes": "See DESIGN.md. KNOWN_FINDINGS.jsonl lists genuine defects recorded or fixed. Set VERIF_REPO to check another checkout (used for seeded-change experiments only; registered commands use /repo).",
}
with open(os.path.join(vlib.VERIF, "MANIFEST.json"), "w") as fh:
    json.dump(man, fh, indent=1)
print("claimed:", [c["property_id"] for c in checks])
print("not_applicable:", len(na))
