from check import Prop


class C25(Prop):
    pid = "C25"
    check_mod = "C25"
    drivers = [dict(pkg="internal/ntpestimator", test="TestVerifC25"),
               dict(pkg="internal/stream", test="TestVerifC25Stream", extra_pkgs=["internal/ntpestimator"], timeout=600)]
    n_quick = 500
    n_thorough = 30000
    shard = 250
    ready = True
    rule = ("histories of 2-26 Estimate calls on the real Estimator with timeNow set by the driver: steady clocks, forward/"
            "backward wall-clock jumps, PTS jumps/regressions/repeats, jitter, PTS near the int64 edge; clock rates 1..2^32-1. "
            "Non-trivial = at least one call that did not resynchronise; distinct = distinct histories. Caller side: 8+ real "
            "Streams per run (ReplaceNTP; four in five always-available: offline filler -> publisher(s) -> filler, raw "
            "timestamps restarting near zero, occasional jumps; one in five ordinary) observed by a real Reader: (delivered "
            "PTS, clock reading of the stream's own estimator, NTP carried by the unit) per delivered unit, judged by the same "
            "model and the same observational clauses from the estimator state read when the observation starts")
    trusted_base = ["Coq 8.16.1 kernel + VM", "in-package driver zz_verif_c25_test.go (sets the package's timeNow variable)",
                    "stream driver zz_verif_c25s_test.go (package stream) + overlay hook zz_verif_c25_hook.go (package ntpestimator: "
                    "clock observer and read access to the reference point); one clock reading per delivered unit is assumed and "
                    "checked (scenarios where the counts differ are not judged, at most half of them)",
                    "model Model/C25_Ntp.v hand-written; instants are Unix nanoseconds in Z (time.Time.Add is exact for "
                    "realistic dates)", "the scaling helper is C24's muldiv_w (tied to the source by C24's translator)"]
    assumptions = ["ClockRate >= 1 (0 would divide by zero)", "wall clock within the range where UnixNano is defined"]
    manifest = dict(
        text="Coq theorems over ALL histories of (frame timestamp, wall clock) pairs on a Gallina model of Estimate with int64 "
             "wrap-around explicit: every output lies in [now-5s, now] unconditionally; calls that do not resynchronise keep "
             "the reference and differ by the exactly scaled timestamp difference (exact when it scales without remainder, "
             "< 1 ns off otherwise). The model is compared with the real Estimator on generated histories.",
        note="Trusted: Coq kernel+VM, driver; time.Time arithmetic modelled as exact integer nanoseconds.",
        technique="Coq proof (case analysis of the window test, induction over histories, C24 exactness lemma) + correspondence")


PROP = C25()
