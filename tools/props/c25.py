from check import Prop


class C25(Prop):
    pid = "C25"
    check_mod = "C25"
    drivers = [dict(pkg="internal/ntpestimator", test="TestVerifC25")]
    n_quick = 500
    n_thorough = 30000
    shard = 250
    ready = True
    rule = ("histories of 2-26 Estimate calls on the real Estimator with timeNow set by the driver: steady clocks, forward/"
            "backward wall-clock jumps, PTS jumps/regressions/repeats, jitter, PTS near the int64 edge; clock rates 1..2^32-1. "
            "Non-trivial = at least one call that did not resynchronise; distinct = distinct histories")
    trusted_base = ["Coq 8.16.1 kernel + VM", "in-package driver zz_verif_c25_test.go (sets the package's timeNow variable)",
                    "model Model/C25_Ntp.v hand-written; instants are Unix nanoseconds in Z (time.Time.Add is exact for "
                    "realistic dates)", "the scaling helper is C24's muldiv_w (tied to the source by C24's translator)"]
    assumptions = ["ClockRate >= 1 (0 would divide by zero)", "wall clock within the range where UnixNano is defined"]
    manifest = dict(
        text="Coq theorems over ALL histories of (frame timestamp, wall clock) pairs on a Gallina model of Estimate with int64 "
             "wrap-around explicit: every output lies in [now-5s, now] unconditionally; calls that do not resynchronise keep "
             "the reference and differ by the exactly scaled timestamp difference (exact when it scales without remainder, "
             "< 1 ns off otherwise). The model is compared with the real Estimator on generated histories.",
        note="Trusted: Coq kernel+VM, driver; time.Time arithmetic modelled as exact integer nanoseconds.",
        technique="Coq proof (case analysis of the window test, induction over histories, C24 exactness lemma) + correspondence")


PROP = C25()
