from check import Prop


class C43(Prop):
    pid = "C43"
    check_mod = "C43"
    drivers = [dict(pkg="internal/servers/hls", test="TestVerifC43", timeout=2400)]
    n_quick = 64
    n_thorough = 3000
    search_factor = 3
    shard = 8
    ready = True
    manifest = dict(
        text="Coq theorems over ALL histories of multivariant/media requests, kicks, expiries, muxer closes, path "
             "ready/not-ready and instance crashes of a Gallina model of the HLS session gate (onRequest, findSession, "
             "addSession, apiSessionsKick, cleanup, getMuxer): a media request is handed to the muxer only if a live "
             "session of THAT path, created by an admitted multivariant request from the same client IP, has the "
             "presented secret (cookie before query, compared after google/uuid Parse), or the request carries the "
             "non-empty CDN secret and a live CDN session of that path exists. The model is tied to the code by running "
             "generated histories through the real gin handler with real muxers and comparing inside Coq.",
        note="Trusted: Coq kernel+VM; the in-package driver and its stub path manager; net/http cookie/query/header "
             "accessors and gin ClientIP (their results are shipped per request); google/uuid Parse is modelled and "
             "compared with the library on every raw secret. Session identities (uuid.New) are assumed pairwise distinct.",
        technique="Coq proof (invariant by induction over request/operation histories) + correspondence via vm_compute")
    rule = ("one case = one history (20-45 operations) on a fresh hls.Server with 3 paths (one without stream), 3 client "
            "IPs (direct, via trusted proxy X-Forwarded-For, or with a forged X-Forwarded-For), 3 credential identities "
            "and a random permission table; secrets presented: right / other path's / other IP's / killed session's / "
            "unknown, in 16 spellings (upper case, urn:uuid:, braces, junk-wrapped 38 bytes, no dashes, truncated, ...), "
            "in cookie, query, both, conflicting, empty or unparsable cookie, quoted first-of-two cookies; CDN header "
            "right/wrong/with empty configured secret; kick, expire (cleanup ticker), muxer close, path not ready, "
            "instance crash/recreate (3 scripted histories per run make sure the slow ones occur). Non-trivial = a "
            "history in which media was served; distinct = distinct histories")
    trusted_base = ["Coq 8.16.1 kernel + VM (vm_compute for cases)",
                    "in-package Go driver zz_verif_c43_test.go (stub path manager, request construction, session identity numbering)",
                    "oracle: net/http Request.Cookie / URL.Query / Header.Get and gin ClientIP on each request",
                    "oracle: path manager admission = permission table of the case",
                    "model Model/C43_Hls.v hand-written, tied by correspondence (uuid.Parse model compared with google/uuid on every secret)"]
    assumptions = ["session identities drawn by uuid.New are pairwise distinct (Kick addresses one session)",
                   "requests are serialised (the model has no concurrent requests; the muxer map is mutex-protected in the code)",
                   "SourceOnDemand=false on all paths (always-remux servers do not create on-demand muxers)"]


PROP = C43()
