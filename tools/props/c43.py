from check import Prop


class C43(Prop):
    pid = "C43"
    check_mod = "C43"
    drivers = [dict(pkg="internal/servers/hls", test="TestVerifC43", timeout=2400)]
    n_quick = 64
    n_thorough = 3000
    search_factor = 3
    shard = 8
    ready = True
    manifest = dict(
        text="Coq theorems over ALL histories of multivariant/media requests, kicks, expiries, muxer closes, path "
             "ready/not-ready and instance crashes of a Gallina model of the HLS session gate (onRequest, findSession, "
             "addSession, apiSessionsKick, cleanup, getMuxer): a media request is handed to the muxer only if a live "
             "session of THAT path, created by an admitted multivariant request from the same client IP, has the "
             "presented secret (cookie before query, compared after google/uuid Parse), or the request carries the "
             "non-empty CDN secret and a live CDN session of that path exists. 'Client IP' is modelled from the wire: "
             "the model contains gin's ClientIP / validateHeader / isTrustedProxy under the engine httpServer.initialize "
             "builds (SetTrustedProxies(hlsTrustedProxies) always, also for the default empty list) and the theorems say "
             "that with no trusted proxies the IP is the TCP peer's whatever headers the request carries, that a peer "
             "outside the trusted networks cannot change any outcome through X-Forwarded-For / X-Real-Ip / "
             "CF-Connecting-IP / any other header, and that behind honest trusted proxies (each appends its peer) the "
             "client's own IP is recovered whatever X-Forwarded-For the client forged. The model is tied to the code by "
             "running generated histories through the real gin handler with real muxers and comparing inside Coq; the "
             "property itself is re-checked on the observations against the driver's ground truth of who sent each request.",
        note="Trusted: Coq kernel+VM; the in-package driver, its stub path manager and its ground truth of request "
             "origins; net/http cookie/query/header accessors, net.SplitHostPort / net.ParseIP / IP.String (their "
             "results are shipped per request; gin's ClientIP itself is MODELLED, session.ip is compared with the "
             "model's value on every created session); google/uuid Parse is modelled and compared with the library on "
             "every raw secret. Session identities (uuid.New) are assumed pairwise distinct. strings.TrimSpace is "
             "modelled on ASCII white space only; listening on a unix socket (gin then trusts every peer) is not modelled.",
        technique="Coq proof (invariant by induction over request/operation histories) + correspondence via vm_compute")
    rule = ("one case = one history (20-45 operations) on a fresh hls.Server with 3 paths (one without stream), 3 "
            "credential identities, a random permission table and one of 6 network topologies (every one occurs in every "
            "run): hlsTrustedProxies empty (the default; as empty list and as nil), one proxy given as bare IP, two "
            "networks (/32 + /24), a /16 with clients on the adjacent addresses, IPv6 (::1/128 + fd00::/8); 3 clients "
            "outside the trusted networks, proxies inside, other forwarding hosts outside. Requests arrive directly, "
            "through 1-3 hops of trusted proxies (X-Forwarded-For appended with ', ' / ',' / as a second header line, "
            "with or without X-Real-Ip; or odd proxies: X-Real-Ip only, X-Forwarded-For: unknown + X-Real-Ip, headers "
            "stripped), through untrusted forwarders, with RemoteAddr that is not an IP; the originator may forge 1-3 of "
            "X-Forwarded-For, X-Real-Ip, CF-Connecting-IP, X-Appengine-Remote-Addr, Fly-Client-IP, True-Client-IP, "
            "X-Client-IP, Forwarded naming the session owner / an admitted client (plain, padded, in a list, "
            "IPv4-mapped, upper-case IPv6, malformed); another client presenting the right secret with forged headers "
            "and a non-admitted client naming an admitted one are generated on purpose; secrets presented: right / other path's / other IP's / killed session's / "
            "unknown, in 16 spellings (upper case, urn:uuid:, braces, junk-wrapped 38 bytes, no dashes, truncated, ...), "
            "in cookie, query, both, conflicting, empty or unparsable cookie, quoted first-of-two cookies; CDN header "
            "right/wrong/with empty configured secret; kick, expire (cleanup ticker), muxer close, path not ready, "
            "instance crash/recreate (3 scripted histories per run make sure the slow ones occur). Non-trivial = a "
            "history in which media was served; distinct = distinct histories")
    trusted_base = ["Coq 8.16.1 kernel + VM (vm_compute for cases)",
                    "in-package Go driver zz_verif_c43_test.go (stub path manager, request construction, session identity numbering)",
                    "oracle: net/http Request.Cookie / URL.Query / Header.Get / Header.Values, net.SplitHostPort + net.ParseIP + IP.String on RemoteAddr, net.ParseIP on every item of every forwarding header",
                    "ground truth of the driver: which host originated each request (who), used by the property restated on observations",
                    "oracle: path manager admission = permission table of the case",
                    "model Model/C43_Hls.v hand-written, tied by correspondence (uuid.Parse model compared with google/uuid on every secret)"]
    assumptions = ["session identities drawn by uuid.New are pairwise distinct (Kick addresses one session)",
                   "requests are serialised (the model has no concurrent requests; the muxer map is mutex-protected in the code)",
                   "SourceOnDemand=false on all paths (always-remux servers do not create on-demand muxers)",
                   "hosts configured in hlsTrustedProxies append the IP of their peer to X-Forwarded-For (C43_client_ip_honest_chain); clients are not inside trusted networks",
                   "the server does not listen on a unix socket (gin would trust every peer)"]


PROP = C43()
