from check import Prop


class C14(Prop):
    pid = "C14"
    check_mod = "C14"
    drivers = [dict(pkg="internal/conf", test="TestVerifC14")]
    n_quick = 1500
    n_thorough = 60000
    shard = 500
    ready = True
    manifest = dict(
        text="Coq theorems for ALL configuration sets (association lists in any order = Go map iteration orders), all names, "
             "all regexp oracles and all payload types over a Gallina transliteration of conf.FindPathConf / IsValidPathName: "
             "an exact key wins with no groups; otherwise a valid name gets exactly the least matching regexp configuration in "
             "byte-wise name order with all/all_others last, with that match's groups; otherwise it is rejected; the answer is "
             "invariant under permutation of the set and under the choice of sorting algorithm (any permutation satisfying "
             "sort.Slice's postcondition is the same list), given unique keys and at most one catch-all (what Conf.Validate "
             "enforces; shown necessary). Tied to the code by running the real FindPathConf on maps of configurations produced "
             "by the real Conf.Validate, filled in different orders and queried repeatedly, and comparing inside Coq.",
        note="Trusted: Coq kernel+VM, the in-package driver, the regexp engine (oracle: FindStringSubmatch results are shipped "
             "per configuration and name), that sort.Slice returns a permutation sorted for a strict weak order. A request name "
             "equal to a regexp key is accepted by the exact lookup (modelled faithfully; C06's subject).",
        technique="Coq proof (uniqueness of the sorted permutation under a total order; characterisation of first-match as least "
                  "matching element) + correspondence via vm_compute")
    rule = ("random sets of 0-3 static and 0-9 regexp/catch-all keys (pool of directed keys + generated ones) validated by the "
            "real Conf.Validate (sets it refuses are skipped and counted), copied into two Go maps in different insertion "
            "orders; names: keys themselves, near-misses of keys, matches and near-misses of the regexps, invalid names, names "
            "equal to regexp keys, random strings; FindPathConf called 3x on each map. Non-trivial = static hit, regexp key "
            "used as name, or more than one regexp matching; distinct = distinct (keys, name, answer)")
    trusted_base = ["Coq 8.16.1 kernel + VM (vm_compute for cases)", "in-package Go driver zz_verif_c14_test.go",
                    "oracle: regexp.Regexp.FindStringSubmatch (per configuration key and name, shipped by the driver)",
                    "oracle bit: IsValidPathName verdict is also shipped and used by the independent spec; the model's "
                    "valid_name is compared with it on every case",
                    "model Model/C14_PathConf.v hand-written, tied by correspondence; sort.Slice assumed to return a sorted permutation"]
    assumptions = ["configuration sets are those Conf.Validate produces: Name = map key, Regexp set iff key is all/all_others/~..., "
                   "at most one of the catch-all aliases (each checked on every case)",
                   "regexp matching is a deterministic function of (pattern, name)"]


PROP = C14()
