from check import Prop
import vlib


class C36(Prop):
    pid = "C36"
    check_mod = "C36"
    drivers = [dict(pkg="internal/metrics", test="TestVerifC36")]
    n_quick = 120
    n_thorough = 3000
    shard = 30
    ready = True
    rule = ("the real onMetrics handler in front of stub servers for EVERY entity kind (paths with readers, forward "
            "destinations per path, HLS sessions and muxers, RTSP/RTSPS conns and sessions, RTMP/RTMPS conns, SRT conns, "
            "WebRTC sessions, MoQ sessions): profiles: all servers 20% / random subset 40% / paths only 20% / one server 20%, 0-3 "
            "entities per list (25% empty), list errors (1/12), exact duplicates, every string field a client-style "
            "string (quotes, backslashes, newlines, braces, commas, NUL, invalid UTF-8, URL metacharacters, the "
            "injection witness), counters incl. 0 and 2^63-1, floats incl. 0, fractions, 1e21, 5e-324, MaxFloat64, "
            "+-Inf, NaN, random bit patterns; queries: none (30%), type= (existing kind, mostly one that has "
            "entities; unknown values), one filter (mostly the key of an existing entity), type+filter of the same / "
            "another kind, 2-3 filters, the own filter of every kind at once (10%), forward_dests with path= / forward_dest=, unrelated parameters. "
            "Every 4th case is an OVERLAP GROUP: 2-3 scrapes (different queries, or the same one twice) of ONE Metrics "
            "instance run in goroutines under a cooperative scheduler whose switch points are the list calls of the stub "
            "servers (deterministic, no real race needed): schedules alternate / random / bursts / nested (request 0 "
            "suspended at its k-th list call while the others run) / sequential (the instance reused without overlap); "
            "classes overlap:<shape> (two requests really in flight at once) / reuse:<shape>; EACH response is judged by "
            "the same exposition checker, and the model of concurrent scrapes is replayed under the shipped schedule. Shipped: "
            "every scalar field of every entity (by reflection), the query, the body, the expected samples. "
            "Non-trivial = an entity with a quote, backslash or newline in a string field is shown")
    trusted_base = ["Coq 8.16.1 kernel + VM (primitive 63-bit integers only to ship byte strings compactly)",
                    "in-package driver zz_verif_c36_test.go: stub servers, reflection over the defs structs; expected "
                    "samples = the property's reading written independently of metrics.go (every uint64/float64 field F "
                    "of an entity is exported as <kind>_<snake_case(F)> (one listed exception: ByteMSS -> bytes_mss), "
                    "<kind> counts the entity, paths_readers counts readers per type, labels per kind from a 13-line "
                    "table, kind selected by type= and its own filter, entity passes if the filter equals its key)",
                    "the Prometheus text-format parser in Model/C36_Metrics.v is the reference consumer",
                    "Model/C36_Sections.v (section logic + table of 13 kinds) hand-written, tied to the handler by "
                    "comparing the FULL body byte for byte on every case",
                    "oracle: strconv.FormatFloat(v,'f',-1,64) tokens are shipped by the driver (non-empty, no newline "
                    "is checked on every case: wf_stateb)",
                    "stdlib DecimalZ round trip (Z.to_int / Z.of_int) for FormatInt",
                    "gin's ctx.Query = first value of the key in the decoded query (driver ships decoded pairs)",
                    "Model/C36_Concurrent.v: the handler as instructions over shared (Metrics fields, RWMutex) and per-request "
                    "state, one instruction per step of a schedule (sequentially consistent interleaving; the theorems hold for "
                    "every cut of the body into pieces); the driver's scheduler switches requests only at list calls on the "
                    "stub servers (a shared-state edit that is only observable through a preemption elsewhere or a real data "
                    "race is not exercised)"]
    assumptions = ["float-valued samples (jitter, rates) are opaque value tokens: the line must parse and the token must equal "
                   "strconv.FormatFloat(v,'f',-1,64); the number itself is not interpreted",
                   "counters >= 2^63 are printed negative by int64(uint64) (modelled: wrap64) and are out of the generated range; "
                   "C36_counter_reads_back is stated for counters below 2^63",
                   "the path manager is always set (core does so); a nil path manager would panic and is not modelled",
                   "presence of a server is modelled per kind (the two HLS kinds / the two RTSP kinds share one server in reality)"]
    manifest = dict(
        text="Coq theorems for ALL entity sets (any strings in any field, any counters), ALL queries: the body onMetrics writes "
             "(model of the section logic for all 13 entity kinds, every metric name, label key and the entity field feeding "
             "it, type= and the 13 filter parameters, the zero-valued lines) parses back, with a Prometheus text-format parser "
             "written in Coq, to exactly the declarative list 'one sample per entity passing the filter and per metric of its "
             "kind, labels = the entity's fields, value = the entity's counter' (C36_faithful, C36_expected_iff); every "
             "labelled sample belongs to an existing entity passing every active filter and carries the filter value under the "
             "filtered label (C36_filter_sound, C36_filter_label); unlabelled samples are zero lines of kinds without entities "
             "(C36_zero_sound); rendering layer: C36_parse_render, C36_value_faithful, C36_label_value_roundtrip; the pre-fix "
             "code (raw label values) is refuted with the injection witness. CONCURRENT scrapes: for any number of requests "
             "on one instance, any schedule of their instructions and any cut of the bodies into pieces, a response that has "
             "been written is that request's sequential body and parses to exactly its expected samples, and no request is "
             "held up by another (C36_overlap_safe, C36_overlap_done, C36_overlap_sequential); the variant with the buffer in "
             "the Metrics struct under RLock is refuted (C36_shared_buffer_rlock_refuted). On every run overlapping scrapes "
             "are forced on the real handler (gates in the stub servers) and each response is judged. On every run the real handler's full body is "
             "compared byte for byte with the model and, independently, parsed and compared with expected samples for every "
             "metric name of every kind present.",
        note="Genuine defect fixed in /repo (5f31f76: label values were not escaped). Float samples are opaque tokens "
             "(FormatFloat oracle). The model is hand-written: a new metric or section in metrics.go shows up as a model "
             "mismatch until the table is extended.",
        technique="Coq proof (parser/printer inverse by induction on label lists and lines; section logic by case analysis over "
                  "a table checked by computation) + correspondence by vm_compute")

    def evaluate(self, ctx, cases):
        # the driver's first record defines, once per cases file, the field names and metric names of every entity
        # kind (the cases only carry values)
        pre = "".join((c.get("desc") or {}).get("preamble", "") for c in cases if not c.get("coq"))
        old = vlib.CASES_HEADER
        vlib.CASES_HEADER = old + pre.replace("%", "%%")
        try:
            return Prop.evaluate(self, ctx, cases)
        finally:
            vlib.CASES_HEADER = old


PROP = C36()
