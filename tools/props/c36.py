from check import Prop
import vlib


class C36(Prop):
    pid = "C36"
    check_mod = "C36"
    drivers = [dict(pkg="internal/metrics", test="TestVerifC36")]
    n_quick = 150
    n_thorough = 8000
    shard = 40
    ready = True
    rule = ("the real onMetrics handler with stub path manager / WebRTC server returning generated entities (0-3 paths with "
            "readers, 0-2 sessions) whose names, paths and remote addresses are client-style strings: quotes, backslashes, "
            "newlines, braces, commas, NUL, invalid UTF-8, the injection witness; counters incl. 0 and 2^63-1. The body is "
            "parsed by the Coq parser and compared with the samples the entities call for. Non-trivial = at least one label "
            "value containing a quote, backslash or newline")
    trusted_base = ["Coq 8.16.1 kernel + VM", "in-package driver zz_verif_c36_test.go (expected samples = the property's reading of "
                    "'each entity's values and counters', written independently of metrics.go)",
                    "the Prometheus text-format parser in Model/C36_Metrics.v is the reference consumer",
                    "stdlib DecimalZ round trip (Z.to_int / Z.of_int) for FormatInt"]
    assumptions = ["float-valued samples (jitter, rates) are opaque value tokens: validity of the line is checked, not the number",
                   "counters >= 2^63 are printed negative by int64(uint64): out of the generated range",
                   "entity kinds other than paths and WebRTC sessions use the same tags/metric functions (not separately driven)"]
    manifest = dict(
        text="Coq theorem for ALL label values, names and value tokens: the exposition text the code writes parses back (with a "
             "Prometheus text-format parser written in Coq) to exactly the rendered samples; FormatInt values read back as the "
             "counter; the pre-fix code (raw label values) is refuted with the injection witness. The real handler's body is "
             "parsed in Coq and compared with the entities on every run.",
        note="Genuine defect fixed in /repo (5f31f76: label values were not escaped). Float samples are opaque tokens.",
        technique="Coq proof (parser/printer inverse by induction on label lists and lines) + correspondence by vm_compute")


    def evaluate(self, ctx, cases):
        # the driver's first record defines, once per cases file, the field names and metric names of every entity
        # kind (the cases only carry values)
        pre = "".join((c.get("desc") or {}).get("preamble", "") for c in cases if not c.get("coq"))
        old = vlib.CASES_HEADER
        vlib.CASES_HEADER = old + pre.replace("%", "%%")
        try:
            return Prop.evaluate(self, ctx, cases)
        finally:
            vlib.CASES_HEADER = old


PROP = C36()
