from check import Prop


class C07(Prop):
    pid = "C07"
    check_mod = "C07"
    drivers = [
        dict(pkg="internal/api", test="TestVerifC07"),
        dict(pkg="internal/protocols/httpp", test="TestVerifC07Dump"),
    ]
    n_quick = 400
    n_thorough = 20000
    shard = 100
    ready = True
    manifest = dict(
        text="Coq theorems: (1) api.redactCredentials modelled on the heap universe of C11 as the repaired deepClone "
             "followed by `if x != \"\" { x = \"<redacted>\" }` on every password slot (users' Pass, pathDefaults' and "
             "every path's PublishPass/ReadPass pointee): for every heap and configuration value, with any sharing "
             "between credential pointers, every password slot of the returned view holds \"\" or the placeholder, "
             "every read of the live configuration is unchanged (the slots written lie in cells allocated by the "
             "clone), and the view's password cells are disjoint from everything the live configuration reaches; "
             "(2) httpp.dumpRequest modelled byte-exactly, the request carrying its body READER (the bytes it delivers "
             "and how the stream ends: EOF, a non-EOF error alone, or an error together with the last bytes): for "
             "every request and every body reader the dump - and the '[conn a] [c->s] ...' line handlerLogger writes - "
             "is invariant under any change of the values of a header of the redaction set (noninterference; only the "
             "number of values shows); a request whose body cannot be read (error before 10 KiB+1 bytes went through "
             "the LimitReader, or with byte 10 KiB+1: exactly characterised) is not dumped at all; an error past the "
             "peek limit never shows; any header outside the set is written verbatim, and net/http's canonicalisation "
             "maps every letter-case variant of a name of the set to the spelling the set contains. Tied to the code by running the real redactCredentials and the four "
             "real configuration GET handlers on configurations loaded by conf.Load (internal users with plain / "
             "sha256 / argon2 passwords, deprecated per-path and default credentials), scanning every answer for "
             "every generated secret and comparing the live configuration before/after; and the real dumpRequest, and the real "
             "handlerLogger.ServeHTTP with a capturing logger (every message of every level scanned), on requests parsed "
             "by http.ReadRequest whose bodies end cleanly or fail (short Content-Length, broken chunked encoding, "
             "scripted readers failing before / at / after the peek limit).",
        note="Secrets = what the property statement names (internal users' passwords, deprecated publish/read "
             "passwords; Authorization, Cookie, Proxy-Authorization, Set-Cookie, X-Api-Key, X-Auth-Token header "
             "values). NOT redacted by the code and outside the statement (observed on the real handlers, see "
             "design_notes/C07.md): webrtcICEServers2[].password, hlsCDNSecret, credentials inside authHTTPAddress / "
             "source URLs, srtPublishPassphrase, srtReadPassphrase, whepBearerToken, whipBearerToken, runOn* commands; "
             "query-string credentials (?jwt=, ?user=&pass=) appear in the request line of the dump; other "
             "credential-like headers (X-Amz-Security-Token, Api-Key, ...) are dumped verbatim. The configuration is "
             "projected on users/pathDefaults/paths; strings are opaque tokens; HTTP/2 requests are assumed to reach "
             "the handler with canonical header names as HTTP/1 ones do.",
        technique="Coq proof: invariant over the fold of slot assignments (read-modify-write of one scalar), shape "
                  "preservation (shallow simulation of heaps), C11's clone freshness for the frame; relational "
                  "(Forall2) insertion sort lemma for the dump; correspondence by vm_compute")
    rule = ("configurations: YAML generated (1-4 internal users with plain/sha256/argon2/empty passwords, or deprecated "
            "pathDefaults/path publishPass/readPass, 0-4 paths incl. regexp and all/all_others), loaded by the real "
            "conf.Load; live configuration shipped with pointer identities (shared credential pointers between "
            "pathDefaults and paths as conf.Validate leaves them). Requests: raw HTTP/1.x text with credential header "
            "names in random letter case, repeated credential headers, near-miss names, realistic Content-Type values "
            "(application/sdp, trickle-ice-sdpfrag, json), WHIP/WHEP/API URIs; 2/3 dumped by dumpRequest, 1/3 served through "
            "handlerLogger.ServeHTTP with a capturing logger. Body readers: none; exact Content-Length (lengths around "
            "the 10 KiB cap); Content-Length larger than what is sent (net/http: unexpected EOF); well-formed chunked; "
            "chunked broken after 0..20480 good bytes (bad size line, stream cut, chunk cut, missing CRLF); scripted "
            "readers delivering 0 / 1 / 100 / 10239..10242 / 20000 bytes in chunks of 7..1M bytes and ending with EOF, "
            "EOF with the last bytes, a non-EOF error alone, or an error with the last bytes (classes *-body-read-error, "
            "*-body-error-past-cap, *-truncated-body). "
            "Header keys: random over the token alphabet and invalid bytes. Non-trivial = a non-empty password in the "
            "view / a credential header present / a key changed by canonicalisation")
    trusted_base = ["Coq 8.16.1 kernel + VM (vm_compute for cases)",
                    "in-package Go drivers internal/api/zz_verif_c07_test.go, internal/protocols/httpp/zz_verif_c07_test.go",
                    "models Model/C07_Redact.v (over Lib/Heap.v, Model/C11_Clone.v) and Model/C07_Dump.v hand-written, tied by correspondence",
                    "oracle: net/http request parsing (http.ReadRequest) produces the header map the dump model receives; "
                    "oracle: what net/http's body readers (Content-Length / chunked) deliver and whether they end with an "
                    "error is observed with io.ReadAll on a second parse of the same text; "
                    "textproto.CanonicalMIMEHeaderKey is modelled and compared",
                    "encoding/json + gin for the handler answers (scanned for the secrets, not modelled)"]
    assumptions = ["the projection users/pathDefaults/paths contains every field redactCredentials reads or writes",
                   "conf.Conf.Clone is C11's repaired deepClone (fix 937e5bc)",
                   "header names reach dumpRequest canonicalised by net/http (HTTP/1 parser; HTTP/2 server does the same)"]


PROP = C07()
