from check import Prop


class C41(Prop):
    pid = "C41"
    check_mod = "C41"
    drivers = [dict(pkg="internal/protocols/tls", test="TestVerifC41"),
               dict(pkg="internal/staticsources", test="TestVerifC41Sites", timeout=900)]
    n_quick = 800
    n_thorough = 40000
    shard = 500
    ready = True
    rule = ("(1) the real VerifyConnection callback of MakeConfig(fp) on random byte strings as leaf certificates, with "
            "fingerprint spellings derived from the true digest: exact, upper, mixed case, one nibble off, truncated, "
            "extended, padded, colon-separated, another certificate's, look-alike Unicode letters, empty; (2) real TLS "
            "handshakes against local servers presenting self-signed, expired, wrong-host and CA-signed leaves, incl. the "
            "CA's fingerprint instead of the leaf's. Non-trivial = accepted; distinct = distinct (fingerprint, digest)")
    trusted_base = ["Coq 8.16.1 kernel + VM", "oracle: SHA-256 of the leaf (crypto/sha256), shipped per case",
                    "crypto/tls calls VerifyConnection on every handshake and aborts on error (exercised by the handshakes)",
                    "strings.ToLower modelled on ASCII; no non-ASCII code point lowers to a hex digit (exercised)"]
    assumptions = ["fingerprint non-empty: with an empty fingerprint MakeConfig installs nothing (normal verification applies)"]
    manifest = dict(
        text="Coq theorems for ALL fingerprint strings and ALL 32-byte digests on a Gallina model of the VerifyConnection "
             "callback: accepted iff the fingerprint equals the lower-case hex SHA-256 of the leaf up to ASCII case; hex "
             "encoding is injective so exactly one digest is accepted; the decision has no other input (chain, validity). "
             "Compared with the real callback and real handshakes.",
        note="SHA-256 and the TLS stack are trusted (oracle / exercised).",
        technique="Coq proof (list induction, lia on hex digits) + correspondence by vm_compute")


PROP = C41()
