from check import Prop


class C23(Prop):
    pid = "C23"
    check_mod = "C23"
    drivers = [dict(pkg="internal/stream", test="TestVerifC23")]
    n_quick = 600
    n_thorough = 40000
    shard = 100
    ready = False
    level = "partial"
    manifest = dict(
        text="TODO",
        note="TODO",
        technique="Coq proof + correspondence via vm_compute; differential for the formats not modelled")
    rule = "TODO"
    trusted_base = ["Coq 8.16.1 kernel + VM (vm_compute for cases)"]
    assumptions = []


PROP = C23()
