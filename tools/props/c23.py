from check import Prop


class C23(Prop):
    pid = "C23"
    check_mod = "C23"
    drivers = [dict(pkg="internal/stream", test="TestVerifC23")]
    n_quick = 340
    n_thorough = 40000
    shard = 40
    ready = True
    manifest = dict(
        text="PARTIAL. Proved in Coq for all inputs: (a) the RTP glue of subStreamFormat.writeUnitInner/initialize, generic in "
             "the packetizer: a unit is re-encoded iff an encoder existed or some incoming payload exceeds the maximum; the "
             "encoder created on the first oversized packet takes that packet's SSRC and sequence number and offset = its "
             "timestamp - uint32(PTS); forwarded packets are never oversized; an oversized packet of a format without encoder is "
             "dropped with an error; and, for ANY encoder honouring a four-part contract (sequence numbers/SSRC, size under its "
             "own precondition, a law for the timestamps it sets, round trip through its decoder), the generated packets fit the "
             "maximum, are numbered consecutively mod 2^16 from the effective encoder's number with one SSRC, carry "
             "offset + uint32(PTS) + the encoder's own per-packet offset mod 2^32, and give the unit back to a reader's decoder, "
             "which is clean afterwards; (b) that contract for five packetizers of gortsplib transliterated with their decoders: "
             "H.264 (single / STAP-A / FU-A, max >= 3), H.265 (single / aggregation packet / fragmentation unit with the "
             "two-byte header, max >= 4, at most 21 NAL units per unit), Opus (rtpEncoderOpus over rtpsimpleaudio: one packet per "
             "Opus packet, timestamps = running sum of opus.PacketDuration2; the size bound holds iff every Opus packet fits), "
             "G.711 and LPCM (rtplpcm: sample-aligned splitting, packet i starts i*(max/sampleSize) samples later, precondition "
             "0 < sampleSize <= max, otherwise division by zero); (c) the per-format state over the WHOLE LIFE of a Stream, i.e. over "
             "any sequence of sub streams (one for an ordinary stream; offline sub stream / publishers replacing each other / "
             "offline again for an always-available stream) and units, generic in the packetizer and for any values of the random "
             "source: subStreamFormat.initialize creates the shared encoder and rtpTimeOffset exactly once - when there is none and "
             "the publisher is not an RTP publisher or the stream is always-available or the remux is forced (H.264 "
             "packetization-mode 0) - and otherwise touches neither the encoder (SSRC, sequence number) nor the offset; hence, "
             "once an encoder exists, every later state has the SAME offset, every re-encoded unit of every later sub stream is "
             "stamped with that one offset + uint32(PTS + ptsOffset), the packets of the whole history form one consecutive "
             "run mod 2^16 with one SSRC (packetizers that never return an error: H.264, Opus, G.711, LPCM; per-unit chaining for "
             "the others) and every packet ever sent for the format - generated or forwarded untouched - fits the maximum. "
             "For the other 12 formats (AV1, VP8, VP9, MPEG-4 Video, MPEG-1 "
             "Video, M-JPEG, MPEG-4 Audio, LATM, MPEG-1 Audio, AC-3, KLV, FLAC) and for a format without encoder there is NO "
             "theorem: the check evaluates the boolean form of the property (size bound, consecutive sequence numbers, one SSRC, "
             "offset + PTS (+ per-packet audio increments), decode(encode) = delivered payload with the format's real rtpDecoder, "
             "oversize trigger, passthrough untouched) inside Coq on the packets the real code produced - differential only.",
        note="Trusted: Coq kernel+VM, the in-package driver and fixture, the hand-written models (tied by correspondence: each of "
             "the five models must reproduce every observed packet - sequence number, timestamp, marker, SSRC, payload - every "
             "observed error/panic, every observed decoder answer and, after every sub stream initialisation, the observed "
             "encoder SSRC / current sequence number / rtpTimeOffset / ptsOffset). The random SSRC / first sequence number / "
             "offset and the wall-clock dependent ptsOffset of an always-available stream are inputs of the model (observed). "
             "The boolean property keeps the per-format state of the EARLIER sub streams when a new sub stream is initialised "
             "(it is not re-read from the implementation), so a state that does not persist fails on the next unit's packets. The gortsplib packetizers of the 12 other formats are "
             "library code outside the proof. Round-trip preconditions: H.264 NAL units non-empty, forbidden_zero_bit clear, type "
             "not 24..29, no start code inside, <= 50 NAL units / 8 MiB; H.265 NAL units with their two-byte header, type not "
             "48..50, no start code inside, <= 21 NAL units / 8 MiB (the forbidden_zero_bit survives); Opus packets and sample "
             "buffers non-empty. Known findings reported on every run: an Opus packet longer than the maximum goes out oversized "
             "(RTP/Opus cannot fragment); conf.Validate has no lower bound for udpMaxPayloadSize (tiny values make the packetizers "
             "divide by zero); the gortsplib AV1 encoder joins OBUs at a packet boundary. Expected audio timestamp increments of "
             "the non-modelled audio formats are computed by the driver from format constants.",
        technique="Coq proof (induction over the access unit / fragment loop / aggregation entries / sample loop / unit sequence, "
                  "finite sweeps for the bit-level header facts, one generic glue development instantiated per packetizer, history "
                  "theorems by induction over the event list of a Stream's life with the invariant 'encoder present, offset "
                  "unchanged') + "
                  "correspondence via vm_compute for 5 formats; differential testing for 12 formats")
    rule = ("scenarios = one real streamFormat + the sequence of real subStreamFormats the Stream goes through (each with the real "
            "initialize + initialize2) + maximum 16..1460 (65% 16..64 so that every boundary is hit with "
            "short payloads; 255..262; 1200..1460) + 1-4 units pushed through the real writeUnitInner, 60% as payloads (encoder "
            "created by initialize, random SSRC/sequence number/offset read back), 40% as RTP packets of a source encoder with "
            "a larger maximum (passthrough first, then the encoder is created on the first oversized packet; sequence numbers "
            "near 65535); PTS over 0, 2^31, 2^32 neighbours, negative, 63-bit. Sizes: max-3..max+3, k*(max-2)+-3, "
            "k*max+-3, (max-3)/2, 1..4, random, 64 KiB / 128 KiB units. 25% H.264, 15% H.265 (single, aggregation, fragmentation, "
            "mixed, outside the precondition: short NAL unit alone / inside an aggregation packet / after a fragmented unit, "
            "types 48..50, start code, > 21 NAL units), 10% Opus (TOC codes 0..3, packet of exactly max, packet longer than max = "
            "known finding), 10% G.711 (1-3 channels) / LPCM (8/16/24 bit x 1..8 channels, ragged ends, sample larger than the "
            "maximum), 40% round-robin over all 18 formats; directed scenarios spread over the run (witnesses of the findings, "
            "boundary ladders of H.264 / H.265 / LPCM at several maxima) and one configuration probe (real conf.Load on "
            "udpMaxPayloadSize -5..5000). Stream modes: 70% ordinary (one sub stream), 25% always-available (class "
            "always-available-Nsubs: the offline-like first sub stream then 1-3 further sub streams, each an RTP or a payload "
            "publisher with its own format object - H.264 / H.265 publishers announcing parameter sets that initialize2 writes as a "
            "unit of its own -, 1-2 units each, ptsOffset from the real initialize2, the reader's decoder kept across sub streams), "
            "5% forced remux (H.264 packetization-mode 0, RTP publisher with one NAL unit per packet or payload publisher). On "
            "every run 8 REAL always-available Streams (class real-stream/<codec>/offline+<phases>; Stream.Initialize with "
            "AlwaysAvailableTracks H264 x2 (maximum 1440 and a small one), H265, Opus, MPEG4Audio, G711, LPCM, AV1 or VP9; the real "
            "offline sub stream goroutines, real SubStream.Initialize / WriteUnit / StartOfflineSubStream; phases P = payload "
            "publisher, R = RTP publisher, O = offline again; observed by a real Reader from AddReader on, the first observed "
            "packet fixes SSRC / sequence number / offset for the rest of the history). Non-trivial = at least one unit was re-encoded")
    trusted_base = ["Coq 8.16.1 kernel + VM (vm_compute for cases; primitive 63-bit integers only to ship byte strings compactly)",
                    "in-package Go driver zz_verif_c23*_test.go (incl. zz_verif_c23stream_test.go: real Streams) + fixture "
                    "zz_verif_streamfx_test.go (package stream); encoder state read by reflection (SSRC, sequenceNumber)",
                    "models Model/C23_RtpGlue.v, C23_RtpGlueInst.v, C23_RtpLife.v, C23_RtpH264.v, C23_RtpH265.v, C23_RtpAudio.v hand-written, tied by "
                    "correspondence",
                    "oracles shipped by the driver: delivered payload (C22's territory), result of the incoming rtpDecoder, "
                    "availability of an encoder for the format and maximum (observed on the real newRTPEncoder), audio timestamp "
                    "increments of the non-modelled formats, the random SSRC / first sequence number / rtpTimeOffset of a new "
                    "encoder, newRTPDecoder's result, ptsOffset after initialize2 (wall clock)",
                    "gortsplib packetizers/depacketizers of the 12 formats not modelled (differential only)"]
    assumptions = ["PayloadMaxSize >= 3 (H.264) / >= 4 (H.265) / >= sample size (G.711, LPCM; enforced by newRTPEncoder since fix "
                   "6728a85) and < 65536 (16-bit size fields); the configuration caps udpMaxPayloadSize at 1472 but has no lower "
                   "bound (known finding conf/udpMaxPayloadSize-no-lower-bound: tiny values make the packetizers divide by zero)",
                   "every Opus packet of a unit is at most the maximum (known finding opus/packet-larger-than-max otherwise)",
                   "payloads handed to the non-modelled encoders satisfy each encoder's documented precondition (non-empty "
                   "elements, valid JPEG / MPEG audio / AC-3 headers): the generators only produce such payloads",
                   "one RTP packet per incoming unit, as the RTSP and WebRTC publishers deliver them"]


PROP = C23()
