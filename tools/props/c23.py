from check import Prop


class C23(Prop):
    pid = "C23"
    check_mod = "C23"
    drivers = [dict(pkg="internal/stream", test="TestVerifC23")]
    n_quick = 340
    n_thorough = 40000
    shard = 40
    ready = True
    manifest = dict(
        text="PARTIAL. Proved in Coq for all inputs: (a) the RTP glue of subStreamFormat.writeUnitInner/initialize (generic in "
             "the packetizer): a unit is re-encoded iff an encoder existed or some incoming payload exceeds the maximum; the "
             "encoder created on the first oversized packet takes that packet's SSRC and sequence number and offset = its "
             "timestamp - uint32(PTS); forwarded packets are never oversized; an oversized packet of a format without encoder is "
             "dropped with an error; every generated packet carries offset + uint32(PTS) mod 2^32 and the offset never changes; "
             "(b) the RTP/H.264 packetizer of gortsplib (single NAL / STAP-A / FU-A) transliterated together with its decoder: "
             "every payload <= PayloadMaxSize for every access unit (PayloadMaxSize >= 3), no failure, sequence numbers "
             "consecutive mod 2^16 within and across units, one SSRC, and decode(encode au) = au for every access unit of "
             "well-formed NAL units (per unit and for every sequence of units), composed through the glue. For the other 16 "
             "formats (H.265, AV1, VP8, VP9, MPEG-4 Video, MPEG-1 Video, M-JPEG, Opus, MPEG-4 Audio, LATM, MPEG-1 Audio, AC-3, "
             "G.711, LPCM, KLV, FLAC) and for a format without encoder there is NO theorem: the check evaluates the boolean form "
             "of the property (size bound, consecutive sequence numbers, one SSRC, offset + PTS (+ per-packet audio increments), "
             "decode(encode) = delivered payload with the format's real rtpDecoder, oversize trigger, passthrough untouched) "
             "inside Coq on the packets the real code produced - differential testing only.",
        note="Trusted: Coq kernel+VM, the in-package driver and fixture, the hand-written models (tied by correspondence: the "
             "H.264 model must reproduce every observed packet and every observed decoder answer). The gortsplib packetizers "
             "other than rtph264 are library code outside the proof. H.264 round trip needs well-formed NAL units (non-empty, "
             "forbidden_zero_bit clear, type not 24..29, no start code inside; at most 50 NAL units / 8 MiB per unit): "
             "C23_roundtrip_needs_forbidden_zero_bit shows the condition is necessary. Expected audio timestamp increments "
             "inside one unit are computed by the driver from format constants.",
        technique="Coq proof (induction over the access unit / fragment loop / STAP-A entries / unit sequence, finite sweeps for "
                  "the bit-level header facts) + correspondence via vm_compute; differential testing for 16 formats")
    rule = ("scenarios = one real streamFormat/subStreamFormat + maximum 16..1460 (65% 16..64 so that every boundary is hit with "
            "short payloads; 255..262; 1200..1460) + 1-4 units pushed through the real writeUnitInner, 60% as payloads (encoder "
            "created by initialize, random SSRC/sequence number/offset read back), 40% as RTP packets of a source encoder with "
            "a larger maximum (passthrough first, then the encoder is created on the first oversized packet; sequence numbers "
            "near 65535); PTS over 0, 2^31, 2^32 neighbours, negative, 63-bit. Sizes: max-3..max+3, k*(max-2)+-3, "
            "k*max+-3, (max-3)/2, 1..4, random, 64 KiB / 128 KiB units. 40% H.264 (single, STAP-A, FU-A, mixed, outside the "
            "round-trip precondition), 60% round-robin over the 17 other formats; 10 directed scenarios first (witnesses of the "
            "findings, H.264 boundary ladders at max 16/100/1460). Non-trivial = at least one unit was re-encoded")
    trusted_base = ["Coq 8.16.1 kernel + VM (vm_compute for cases; primitive 63-bit integers only to ship byte strings compactly)",
                    "in-package Go driver zz_verif_c23*_test.go + fixture zz_verif_streamfx_test.go (package stream)",
                    "models Model/C23_RtpGlue.v, Model/C23_RtpH264.v hand-written, tied by correspondence",
                    "oracles shipped by the driver: delivered payload (C22's territory), result of the incoming rtpDecoder, "
                    "availability of an encoder for the format, audio timestamp increments",
                    "gortsplib packetizers/depacketizers of the 16 formats not modelled (differential only)"]
    assumptions = ["PayloadMaxSize >= 3 (FU-A) and < 65536 (STAP-A size field); the configuration caps udpMaxPayloadSize at 1472 "
                   "but has no lower bound (udpMaxPayloadSize <= 14 makes rtph264 divide by zero: outside this property)",
                   "payloads handed to the encoders satisfy each encoder's documented precondition (non-empty elements, valid "
                   "JPEG / MPEG audio / AC-3 headers): the generators only produce such payloads",
                   "one RTP packet per incoming unit, as the RTSP and WebRTC publishers deliver them"]


PROP = C23()
