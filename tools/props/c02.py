from check import Prop


class C02(Prop):
    pid = "C02"
    check_mod = "C02"
    drivers = [dict(pkg="internal/auth", test="TestVerifC02")]
    n_quick = 640
    n_thorough = 10000
    shard = 75
    ready = True
    manifest = dict(
        text="Coq theorems, for ALL requests, exclude lists and oracle behaviours, over a Gallina transliteration of getToken "
             "(with a model of url.ParseQuery), authenticateHTTP, authenticateJWT and the claim decoding of "
             "jwtClaims.UnmarshalJSON: the http method grants iff the request is excluded or the auth server answers 2xx to "
             "the POST whose JSON body is proved to decode to exactly the request's ten fields and the selected token; the jwt "
             "method grants iff excluded or the JWKS is available, a token is present, it verifies and its permission claim "
             "(array, or string holding the array) grants the action on the path, as the token's subject; for ALL issuer/"
             "audience settings (the option list authenticateJWT builds and golang-jwt's verifyIssuer/verifyAudience are "
             "modelled, not oracle): the token's iss must BE a configured issuer and a configured audience must be AMONG "
             "its aud, each setting enforced whatever the other is (C02_jwt_cfg_iff, _issuer_enforced, _audience_enforced, "
             "_settings_restrict, C02_parser_opts); the token is the "
             "token field, else the password, else - RTSP/RTMP, or HTTP-based requests when enabled - the single 'token' else "
             "'jwt' query parameter. The model is tied to the code by running the real getToken and Manager.Authenticate "
             "against an in-process auth server (which records every body) and JWKS server; the boolean form of the property "
             "is evaluated on the observed result from what the driver knows by construction: the status it told the server "
             "to answer, where it put the token, and whether each token must verify (good key / tampered payload or signature "
             "/ wrong key / unknown kid / alg none / HS256 with the public key / expired (also by seconds) / not yet valid "
             "/ claim missing, under another key, as string, garbage), and from the iss and aud claims it wrote into the "
             "token compared in Coq with the configured issuer/audience (absent, null, empty, equal, other, case variant, "
             "longer, shorter, the other setting's value, ill-typed; aud as string or list with the match first/last/"
             "middle/duplicated/absent).",
        note="Oracles: golang-jwt + keyfunc WITHOUT parser options (signature, alg, exp/nbf, claim types; returns sub, iss, "
             "aud) and encoding/json on the raw claim are not modelled: their verdicts on each candidate token are shipped "
             "per case (computed by the real libraries with a RegisteredClaims-typed claims value) and cross-checked "
             "against the by-construction verdicts through the implementation's result. The issuer/audience checks are "
             "modelled and compared on every candidate token with the real library called with the options (lib_ok). "
             "regexp is an oracle as in C01. A token without exp, or with iat in the future, is accepted (library default).",
        technique="Coq proof (case analysis of the decision functions; induction over query pieces and JSON members, using "
                  "Lib/Json's encoder/parser round trip) + correspondence via vm_compute")
    rule = ("25% getToken calls (token in field / password / token= / jwt= / duplicated / decoys of higher and lower precedence "
            "/ malformed queries / %-escaped by the driver; all six protocols and actions; flag on/off); 30% http-method calls "
            "(exclude lists with hits and near misses, 20 status codes 200..503 incl. 299/300, server down, 200 KiB error "
            "bodies, fields with HTML characters, quotes, control characters, ill-formed UTF-8, nil IP and ID); 45% jwt-method "
            "calls (RS256/ES256 keys, 17 token kinds x 5 claim forms x issuer/audience settings none/issuer/audience/both with 4 "
            "values each, JWKS ok/down/garbage/empty, a second real token as decoy, JWTInHTTPQuery nil/false/true); 40% of "
            "the jwt calls are 'claims' scenarios visiting in turn EVERY cell of: both settings x 11 iss shapes (aud in order), "
            "both settings x 20 aud shapes (iss in order), both wrong/absent/crossed, issuer only x 11 iss shapes + 4 aud "
            "shapes that must not matter, audience only x 20 aud shapes + 4 iss shapes that must not matter (73 cells, each "
            ">= 1 per quick run, class jwt-claims/<settings>/<varied claim>=<shape>), with a verifying token, a plain "
            "granting claim and no exclusion so that iss/aud alone decide. Non-trivial = all but token-less getToken calls; "
            "distinct = distinct descriptions")
    trusted_base = ["Coq 8.16.1 kernel + VM (vm_compute for cases)", "in-package Go driver zz_verif_c02_test.go",
                    "oracle: golang-jwt/jwt v5 ParseWithClaims without options + MicahParks/keyfunc on a RegisteredClaims value "
                    "(Validator.verifyIssuer/verifyAudience are modelled and compared with the library per candidate token)",
                    "oracle: encoding/json / jsonwrapper on the raw permission claim", "oracle: Go regexp",
                    "oracle: net.IP.String, uuid.String", "Lib/Json.v model of encoding/json's string encoder (byte-compared "
                    "with every posted body)", "models Model/C02_AuthExt.v, Model/C01_Auth.v hand-written, tied by correspondence"]
    assumptions = ["at most 10000 query parameters (net/url's limit is not modelled)",
                   "the auth server's answer depends only on the posted body"]


PROP = C02()
