from check import Prop


class C01(Prop):
    pid = "C01"
    check_mod = "C01"
    drivers = [dict(pkg="internal/auth", test="TestVerifC01")]
    n_quick = 600
    n_thorough = 30000
    shard = 75
    ready = True
    manifest = dict(
        text="Coq theorems, for ALL user lists, requests and oracle behaviours, over a Gallina transliteration of "
             "Manager.Authenticate (internal method), authenticateWithUser, matchesPermission, Credential.Check and "
             "net.IPNet.Contains: a request is granted as user u iff u is the supplied user name and some configured entry "
             "passes the IP test (no list, or a network of the same family - ::ffff:a.b.c.d read as IPv4 - whose top prefix "
             "bits equal the client's: proved from the byte-wise mask comparison), the permission test (action; for "
             "publish/read/playback empty path, equal path or '~' regex found) and the credential test ('any', custom "
             "verifier, or plain/sha256/argon2 match with an empty configured credential accepting anything); the deciding "
             "entry is the first such one; denied requests ask for credentials iff asking is enabled and no user/password was "
             "supplied; the token is never consulted. The model is tied to the code by calling the real Authenticate on "
             "generated configurations and comparing inside Coq; the boolean form of the property is evaluated on the observed "
             "result using what the driver knows by construction (the plaintext behind every hash, the network each "
             "configured string denotes).",
        note="Oracles (values computed by the real libraries, shipped per case): base64(sha256), argon2 VerifyEncoded, regexp "
             "Compile+MatchString, the custom (RTSP digest) verifier. subtle.ConstantTimeCompare is modelled as byte-string "
             "equality. Networks are assumed to be as conf.IPNetwork.UnmarshalJSON builds them (checked on every case).",
        technique="Coq proof (induction over the mask bytes + finite sweep of one byte for the prefix reading; case analysis of "
                  "the decision functions; induction over the user list) + correspondence via vm_compute")
    rule = ("0-5 users with 0-4 permissions from overlapping pools (same action/different paths, 23 '~' regexes incl. 8 that "
            "do not compile, empty paths), 0-3 networks (v4/v6 CIDR and host syntax, host bits set, v4-mapped, /0 /31 /32 /127 "
            "/128 edges), credentials plain / sha256 / argon2 (hashes computed by the driver) / empty / 'any' / hashes that match "
            "nothing; requests derived from one user as a hit or a near miss on exactly one conjunct (last prefix bit flipped, "
            "far edge of the range, other family with the same low bits, other action, mutated path/user/password, swapped "
            "credentials) plus random ones; 4- and 16-byte address representations, odd-length addresses; custom verifier in "
            "~20% of the cases; a third of the managers are hot-swapped with ReloadInternalUsers. Non-trivial = at least one "
            "configured user; distinct = distinct descriptions")
    trusted_base = ["Coq 8.16.1 kernel + VM (vm_compute for cases)", "in-package Go driver zz_verif_c01_test.go",
                    "oracle: crypto/sha256 + encoding/base64 digest of the supplied user/password",
                    "oracle: matthewhartstonge/argon2 VerifyEncoded", "oracle: Go regexp Compile + MatchString",
                    "oracle: the request's CustomVerifyFunc evaluated on every configured (user, pass)",
                    "model Model/C01_Auth.v hand-written, tied by correspondence"]
    assumptions = ["subtle.ConstantTimeCompare(x, y) == 1 iff x and y are equal byte strings",
                   "configured networks come from conf.IPNetwork.UnmarshalJSON (CIDR masks; v4-mapped addresses normalised)",
                   "no sha256 collision between a configured plaintext and a different supplied value"]


PROP = C01()
