import json
import os

import vlib
from check import Prop

PKGS = ["internal/api", "internal/metrics", "internal/pprof", "internal/playback"]


class C04(Prop):
    pid = "C04"
    check_mod = "C04"
    drivers = [dict(pkg=p, test="TestVerifC04", timeout=900) for p in PKGS]
    n_quick = 900
    n_thorough = 12000
    search_factor = 3
    shard = 300
    ready = True
    rule = ("translator tools/gen/routes (go/ast) regenerates the four registration tables (with the fact that Initialize "
            "hands the configured trusted-proxy list to gin unconditionally); the drivers start TWO instances of the REAL api / "
            "metrics / pprof / playback servers on scratch ports (one with the trusted proxy 127.0.0.1/32, one with NO trusted "
            "proxies) with a real auth.Manager (10-row permission matrix: users x actions x client IPs, one per-path playback "
            "user, `any` users, users admitted from the real loopback peer only) and send real HTTP requests: every (method, "
            "pattern) of gin's own Routes() allowed / without credentials / with a random identity, every other method on "
            "every pattern, unknown URLs, then seeded random ones; credential placement none / Basic / Bearer user:pass / "
            "bearer token / query; client IP through X-Forwarded-For from the trusted proxy, plus client-address cases: "
            "connections from 127.0.0.1 and 127.0.0.2 to both instances with X-Forwarded-For and/or X-Real-Ip naming an "
            "admitted address, or without them (the entitled client address is the forwarded one only when the real peer is a "
            "configured trusted proxy). Non-trivial = a response that carries data or a 401; "
            "distinct = distinct request/response descriptions")
    trusted_base = ["Coq 8.16.1 kernel + VM",
                    "translator tools/gen/routes (validated by the real requests: the generated tables must predict every response)",
                    "oracle: auth.Manager.Authenticate admit decision per action (subject of C01/C02), called directly by the driver",
                    "oracle: conf.IsValidPathName (subject of C06)",
                    "gin: route matching and Context.Next/Abort (modelled: chain compiled at registration time, Abort stops later handlers)",
                    "gin: Context.ClientIP (modelled: forwarding headers are believed iff the peer is in the list given to "
                    "SetTrustedProxies, every peer if it was never called; exercised by real requests from two peer addresses)",
                    "in-package drivers zz_verif_c04_test.go + zz_verif_c04lib_test.go"]
    assumptions = ["a response 'carries data' iff its body is none of: empty, the authentication-error JSON, gin's 404 text, the "
                   "invalid-path-name JSON error; or a stub behind the handlers was reached",
                   "trailing-slash / fixed-path redirects of gin (301/307 with a Location header only) are not exercised",
                   "HTTP and JWT authentication methods reach the servers through the same Authenticate call (oracle)"]
    manifest = dict(
        text="The registration order of every administrative server (router.Use / Group / routes / third-party registration) and "
             "the steps of every middleware and handler (preflight, path validation, Authenticate with which action and path, "
             "Abort / return on failure, first access) are translated from the Go source on every run. Coq proves for EVERY such "
             "table, every admit oracle and every request: if the decidable table condition holds, a response carries data only "
             "for a client admitted for the server's action (playback: on the requested path, validated first), refused requests "
             "get exactly 401 / 400 / 404 without data, preflights get 204 without consulting the manager; the client address used "
             "is the forwarded one only for a configured trusted proxy, and the response to any other peer does not depend on its "
             "X-Forwarded-For / X-Real-Ip headers (non-interference); vm_compute shows the "
             "conditions hold for the generated tables. Real requests against the four real servers with a real auth.Manager tie "
             "the tables to the code and give concrete replays.",
        note="Trusted: Coq kernel+VM, the go/ast translator (validated by the real requests), gin's routing, the Authenticate "
             "oracle (C01/C02). Not covered: TLS, gin redirects, the content of the data returned.",
        technique="translator (Go -> Gallina route tables) + Coq proof over all tables/requests + vm_compute table check + real-server correspondence")
    warm_pkgs = PKGS

    def run_drivers(self, ctx, n, seed, replay=None):
        """the four drivers are independent (own server, own scratch port): run them side by side"""
        from concurrent.futures import ThreadPoolExecutor

        def one(kd):
            k, d = kd
            wd = vlib.ensure_dir(os.path.join(ctx.workdir, "drv%d" % k))
            outp = os.path.join(ctx.workdir, "driver_%d_%d.jsonl" % (k, n))
            if os.path.exists(outp):
                os.remove(outp)
            env = {"VERIF_SEED": seed, "VERIF_N": n, "VERIF_OUT": outp, "VERIF_TIER": ctx.tier, "VERIF_WORK": wd}
            env.update(d.get("env", {}))
            if replay:
                env["VERIF_REPLAY"] = replay
            rc, out = vlib.run_driver(wd, d["pkg"], d["test"], env, timeout=d.get("timeout", 900))
            return d, rc, out, vlib.read_jsonl(outp)

        cases, summaries, errors = [], [], []
        with ThreadPoolExecutor(max_workers=len(self.drivers)) as ex:
            for d, rc, out, rows in ex.map(one, list(enumerate(self.drivers))):
                for r in rows:
                    if "summary" in r:
                        summaries.append(r["summary"])
                    else:
                        r["driver"] = d["test"] + ":" + d["pkg"]
                        r["id"] = len(cases)
                        cases.append(r)
                if rc != 0:
                    errors.append("driver %s (%s) failed (rc=%d):\n%s" % (d["test"], d["pkg"], rc, out[-6000:]))
        return cases, summaries, errors

    def _sync_lib(self):
        """one copy of the shared driver library per driven package (package clause differs)"""
        tmpl = os.path.join(vlib.HARNESS, "c04lib", "zz_verif_c04lib_test.go.tmpl")
        body = open(tmpl).read()
        for p in PKGS:
            name = p.split("/")[-1]
            dst = os.path.join(vlib.HARNESS, "inpkg", p, "zz_verif_c04lib_test.go")
            new = body.replace("PKGNAME", name)
            old = open(dst).read() if os.path.exists(dst) else None
            if new != old:
                vlib.ensure_dir(os.path.dirname(dst))
                tmp = dst + ".%d.tmp" % os.getpid()
                open(tmp, "w").write(new)
                os.replace(tmp, dst)

    def generate(self, ctx):
        self._sync_lib()
        out = os.path.join(vlib.COQ, "gen", "C04_Routes.v")
        notes = os.path.join(ctx.workdir, "c04_notes.json")
        tmp = os.path.join(ctx.workdir, "C04_Routes.v")
        rc, o = vlib.sh(["go", "run", "./routes", vlib.REPO, tmp, notes], cwd=os.path.join(vlib.VERIF, "tools", "gen"),
                        env=vlib.go_env(), timeout=300)
        if os.path.exists(tmp):
            new = open(tmp).read()
            old = open(out).read() if os.path.exists(out) else None
            if new != old:
                with vlib.Lock("coqmake"):
                    open(out, "w").write(new)
        if rc != 0:
            raise RuntimeError("translator failed: " + o[-2000:])
        res = []
        for s in json.load(open(notes))["servers"]:
            res.append("%s: %d routes, Use %s%s%s" % (
                s["Server"], s["Routes"], ",".join(s["Uses"] or []),
                (", extern " + ",".join(s["Externs"])) if s.get("Externs") else "",
                (", NOT UNDERSTOOD: " + "; ".join(s["Unknown"])) if s.get("Unknown") else ""))
        return res


PROP = C04()
