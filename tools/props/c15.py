import json
import os

import vlib
from check import Prop


class C15(Prop):
    pid = "C15"
    check_mod = "C15"
    drivers = [dict(pkg="internal/core", test="TestVerifC15", timeout=600)]
    n_quick = 100
    n_thorough = 3000
    shard = 40
    search_factor = 5
    ready = True
    rule = ("translator tools/gen/hotfields (go/ast over pathConfCanBeUpdated, conf.Path, Path.Equal, path.doReloadConf) "
            "regenerates the field list and the hot-field list; the driver builds a real pathManager with real path objects "
            "and runs histories (corpus of past findings first, then seeded random ones of 4-9 steps) of reloads - hot / "
            "non-hot changes, renames of regexp configurations within a family matching the same names with other groups, "
            "static configurations appearing under live dynamic paths, static ones giving way to regexp ones, removals - "
            "and publishers arriving/leaving; configurations come from the real conf.Load; after each step it waits for the "
            "asynchronous path.reloadConf and records every live path. Every run also forces RACES (class raced-reloads: 8 "
            "directed + n/8 random histories): path goroutines are held busy (they sit in doDescribe, sending an answer "
            "nobody takes yet), two or three mostly hot-compatible reloads are issued back to back - half of the time on a "
            "single P, where the scheduler starts the hand-over goroutine created last first -, everything is released and "
            "the observation is taken once every hand-over has landed; and class raced-leave (6 histories): a static "
            "configuration appears under a held dynamic path whose publisher leaves before the path has received it. "
            "Plus the reflect field list and pathConfCanBeUpdated on one pair per field of conf.Path. n = number of "
            "histories. Non-trivial = a history in which a reload kept, moved, recreated or removed a live path")
    trusted_base = ["Coq 8.16.1 kernel + VM", "translator tools/gen/hotfields (validated: reflect field list and one real "
                    "pathConfCanBeUpdated call per field are compared with the generated table on every run)",
                    "in-package driver zz_verif_c15_test.go (races: holds path goroutines through the real two-phase describe, "
                    "runtime.GOMAXPROCS(1) during half of them, waits until no goroutine is inside core.(*path).reload*)", "oracle: regexp FindStringSubmatch per (regexp key, name)",
                    "C14's model of FindPathConf (its answers are compared with the real function on every live name)"]
    assumptions = ["hand-overs of one path are received in the order in which pathManager issued them (what "
                   "path.reloadConfAsync does since /repo f21f96e; the unordered discipline of the code as found is the "
                   "ordered=false instance of the model, proved to violate the property and replayed by the raced-reloads "
                   "class); when a hand-over is received relative to later reloads, creations and departures is arbitrary",
                   "a publisher leaving while the path still waits for a hand-over closes the path iff BOTH the configuration "
                   "the path runs with and the manager's record are regexp configurations (model of shouldClose + the "
                   "manager's check of /repo 34080dc); when the path runs a static configuration and the manager's record is "
                   "a regexp one the real outcome depends on which of the two the path goroutine takes first - both "
                   "outcomes satisfy the property, the driver does not generate that schedule",
                   "configurations are compared as the vector of their field values (reflect.DeepEqual field by field)",
                   "publisher/reader bookkeeping inside the path is C16-C20's subject; only creation on demand and "
                   "self-closing of idle regexp-served paths are modelled"]
    manifest = dict(
        text="Coq invariant over ALL histories of reloads / on-demand creations / publishers leaving (any regexp oracle, any "
             "hot-field mask, any configuration vectors) on a Gallina transliteration of pathManager.doReloadConf: every "
             "static configuration has a live path, every live path resolves and runs with exactly the configuration name, "
             "configuration and capture groups that FindPathConf selects, no nil configuration is dereferenced; a path "
             "survives a reload (and then receives the new capture groups) iff it still resolves with a configuration differing "
             "only on hot-reloadable fields, where hot-reloadable is the list generated from pathConfCanBeUpdated on every run "
             "(and confined to Name/Regexp/Forward/Record*/RPICamera*). The pre-fix model is proved to violate the invariant "
             "(stale groups after a move), replayed on the real path manager and fixed in /repo. Second layer "
             "(Model/C15_Delivery.v): the hand-over of a reloaded configuration to a live path is a step of its own (the "
             "manager enqueues, the path goroutine receives later); for hand-overs received in order the invariant - "
             "manager's side reconciled, and for every live path the pending hand-overs lead to exactly what the manager "
             "recorded, so a path with nothing pending runs with exactly what FindPathConf selects - is proved over ALL "
             "histories with deliveries interleaved arbitrarily with later reloads / creations / departures, and the pending "
             "hand-overs can always be drained; for unordered hand-overs (code as found) and for the unguarded idle close "
             "(code as found) _refuted theorems with two- / three-step witnesses, both replayed on the real pathManager "
             "(189/200 and 44/100 trials) and fixed in /repo (f21f96e, 34080dc). Tied to the code by real pathManager "
             "histories, forced races included, compared inside Coq.",
        note="Trusted: Coq kernel+VM, the go/ast translator (cross-checked against reflect and real calls), the driver, the "
             "regexp oracle. That hand-overs to one path are received in issue order is a property of path.reloadConfAsync "
             "(a chain of goroutines, each waiting for the previous one) that is argued from the Go memory model / channel "
             "semantics, not proved; it is exercised by the forced races of every run (reverting it, or dropping the wait, "
             "is caught with a concrete replay). Effects inside the path (recorder, forwarder, camera) of a hot reload are "
             "not modelled.",
        technique="translator (Go -> Gallina field lists) + Coq proof (invariant preserved by every step, lifted to histories; "
                  "second layer by projection onto the first + a per-path settle invariant) "
                  "+ vm_compute table checks + real-pathManager correspondence with forced schedules")

    def generate(self, ctx):
        out = os.path.join(vlib.COQ, "gen", "C15_HotFields.v")
        notes = os.path.join(ctx.workdir, "c15_notes.json")
        tmp = os.path.join(ctx.workdir, "C15_HotFields.v")
        rc, o = vlib.sh(["go", "run", "./hotfields", vlib.REPO, tmp, notes], cwd=os.path.join(vlib.VERIF, "tools", "gen"),
                        env=vlib.go_env(), timeout=300)
        if os.path.exists(tmp):
            new = open(tmp).read()
            old = open(out).read() if os.path.exists(out) else None
            if new != old:
                with vlib.Lock("coqmake"):
                    open(out, "w").write(new)
        if rc != 0:
            raise RuntimeError("translator failed: " + o[-2000:])
        nt = json.load(open(notes))
        return ["conf.Path: %d fields; pathConfCanBeUpdated (path_manager.go:%d) copies %d: %s" % (
            nt["fields"], nt["line"], len(nt["hot"]), ",".join(h["Field"] for h in nt["hot"]))]


PROP = C15()
