import json
import os

import vlib
from check import Prop


class C15(Prop):
    pid = "C15"
    check_mod = "C15"
    drivers = [dict(pkg="internal/core", test="TestVerifC15", timeout=600)]
    n_quick = 100
    n_thorough = 3000
    shard = 40
    search_factor = 5
    ready = True
    rule = ("translator tools/gen/hotfields (go/ast over pathConfCanBeUpdated, conf.Path, Path.Equal, path.doReloadConf) "
            "regenerates the field list and the hot-field list; the driver builds a real pathManager with real path objects "
            "and runs histories (corpus of past findings first, then seeded random ones of 4-9 steps) of reloads - hot / "
            "non-hot changes, renames of regexp configurations within a family matching the same names with other groups, "
            "static configurations appearing under live dynamic paths, static ones giving way to regexp ones, removals - "
            "and publishers arriving/leaving; configurations come from the real conf.Load; after each step it waits for the "
            "asynchronous path.reloadConf and records every live path. Plus the reflect field list and pathConfCanBeUpdated "
            "on one pair per field of conf.Path. n = number of histories. Non-trivial = a history in which a reload kept, "
            "moved, recreated or removed a live path")
    trusted_base = ["Coq 8.16.1 kernel + VM", "translator tools/gen/hotfields (validated: reflect field list and one real "
                    "pathConfCanBeUpdated call per field are compared with the generated table on every run)",
                    "in-package driver zz_verif_c15_test.go", "oracle: regexp FindStringSubmatch per (regexp key, name)",
                    "C14's model of FindPathConf (its answers are compared with the real function on every live name)"]
    assumptions = ["each reload's asynchronous path.reloadConf deliveries land before the next reload is issued "
                   "(two `go pa.reloadConf` of consecutive reloads are not ordered by the code)",
                   "configurations are compared as the vector of their field values (reflect.DeepEqual field by field)",
                   "publisher/reader bookkeeping inside the path is C16-C20's subject; only creation on demand and "
                   "self-closing of idle regexp-served paths are modelled"]
    manifest = dict(
        text="Coq invariant over ALL histories of reloads / on-demand creations / publishers leaving (any regexp oracle, any "
             "hot-field mask, any configuration vectors) on a Gallina transliteration of pathManager.doReloadConf: every "
             "static configuration has a live path, every live path resolves and runs with exactly the configuration name, "
             "configuration and capture groups that FindPathConf selects, no nil configuration is dereferenced; a path "
             "survives a reload (and then receives the new capture groups) iff it still resolves with a configuration differing "
             "only on hot-reloadable fields, where hot-reloadable is the list generated from pathConfCanBeUpdated on every run "
             "(and confined to Name/Regexp/Forward/Record*/RPICamera*). The pre-fix model is proved to violate the invariant "
             "(stale groups after a move), replayed on the real path manager and fixed in /repo. Tied to the code by real "
             "pathManager histories compared inside Coq.",
        note="Trusted: Coq kernel+VM, the go/ast translator (cross-checked against reflect and real calls), the driver, the "
             "regexp oracle. Reload deliveries are assumed to land before the next reload; effects inside the path "
             "(recorder, forwarder, camera) of a hot reload are not modelled.",
        technique="translator (Go -> Gallina field lists) + Coq proof (invariant preserved by every step, lifted to histories) "
                  "+ vm_compute table checks + real-pathManager correspondence")

    def generate(self, ctx):
        out = os.path.join(vlib.COQ, "gen", "C15_HotFields.v")
        notes = os.path.join(ctx.workdir, "c15_notes.json")
        tmp = os.path.join(ctx.workdir, "C15_HotFields.v")
        rc, o = vlib.sh(["go", "run", "./hotfields", vlib.REPO, tmp, notes], cwd=os.path.join(vlib.VERIF, "tools", "gen"),
                        env=vlib.go_env(), timeout=300)
        if os.path.exists(tmp):
            new = open(tmp).read()
            old = open(out).read() if os.path.exists(out) else None
            if new != old:
                with vlib.Lock("coqmake"):
                    open(out, "w").write(new)
        if rc != 0:
            raise RuntimeError("translator failed: " + o[-2000:])
        nt = json.load(open(notes))
        return ["conf.Path: %d fields; pathConfCanBeUpdated (path_manager.go:%d) copies %d: %s" % (
            nt["fields"], nt["line"], len(nt["hot"]), ",".join(h["Field"] for h in nt["hot"]))]


PROP = C15()
