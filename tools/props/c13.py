import json
import os

import vlib
from check import Prop


class C13(Prop):
    pid = "C13"
    check_mod = "C13"
    drivers = [dict(pkg="internal/core", test="TestVerifC13", timeout=600)]
    n_quick = 14
    n_thorough = 60
    search_factor = 5
    ready = True
    rule = ("translator tools/gen/coredeps (go/ast over core.go, conf.go) regenerates the component table; the driver starts "
            "a real Core with every server on scratch ports and performs real reloads, each changing one group of global "
            "parameters (corpus of past findings first, then a seeded selection; thorough: all groups), recording for every "
            "running component whether it was recreated (pointer identity). Non-trivial = a reload that changed something")
    trusted_base = ["Coq 8.16.1 kernel + VM", "translator tools/gen/coredeps (validated by the real reloads: the generated "
                    "predicates must predict which components a real Core recreates)", "in-package driver zz_verif_c13_test.go"]
    assumptions = ["two loads of a configuration never share a pointee unless its value is equal (ptr_wf)",
                   "in-place reloads (ReloadPathConfs, ReloadInternalUsers) apply the new value: covered by C15 / not observed here"]
    manifest = dict(
        text="The close*/create tables are translated from core.go on every run; Coq proves for EVERY table and EVERY pair of "
             "configurations that three decidable table conditions (evaluated by vm_compute on the generated table) imply: a "
             "changed parameter closes or reloads every component built from it, dependents of a closed component are closed, "
             "and nothing is closed without a changed parameter underneath; plus that Go's straight-line evaluation computes "
             "those predicates. Real reloads of a real Core validate the translator and give concrete replays.",
        note="Trusted: Coq kernel+VM, the go/ast translator (validated by real reloads), pointer identity as 'recreated'. "
             "Per-path parameters are pushed in place (ReloadPathConfs) and are C15's subject.",
        technique="translator (Go -> Gallina table) + Coq proof over all tables/configuration pairs + vm_compute table check + real-Core reload correspondence")

    def generate(self, ctx):
        out = os.path.join(vlib.COQ, "gen", "C13_CoreDeps.v")
        notes = os.path.join(ctx.workdir, "c13_notes.json")
        tmp = os.path.join(ctx.workdir, "C13_CoreDeps.v")
        rc, o = vlib.sh(["go", "run", "./coredeps", vlib.REPO, tmp, notes], cwd=os.path.join(vlib.VERIF, "tools", "gen"),
                        env=vlib.go_env(), timeout=300)
        if os.path.exists(tmp):
            new = open(tmp).read()
            old = open(out).read() if os.path.exists(out) else None
            if new != old:
                with vlib.Lock("coqmake"):
                    open(out, "w").write(new)
        if rc != 0:
            raise RuntimeError("translator failed: " + o[-2000:])
        tab = json.load(open(notes))["table"]
        return ["%s (core.go:%d): %d params, %d comparisons, holds %s" % (r["Comp"], r["Line"], len(r["Uses"] or []) + len(r["Guard"] or []),
                                                                          len(r["Cmp"] or []), ",".join(r["Refs"] or [])) for r in tab]


PROP = C13()
