import json
import os

import vlib
from check import Prop


class C13(Prop):
    pid = "C13"
    check_mod = "C13"
    drivers = [dict(pkg="internal/core", test="TestVerifC13", timeout=600)]
    n_quick = 14
    n_thorough = 60
    search_factor = 5
    ready = True
    rule = ("translator tools/gen/coredeps (go/ast over core.go, conf.go) regenerates the component table (guards as boolean "
            "expressions, constructor bindings, in-place reload statements with the pushed argument checked); the driver starts "
            "a real Core with every server on scratch ports and performs real reloadConf calls: single groups of global parameters "
            "(corpus of past findings and the in-place reloads - internal users, path confs, record cleaner off/on - first, "
            "then a seeded selection), PAIRS (for every component of the table one reload that changes a parameter of its "
            "close predicate together with the path configurations - one added, one edited, one removed - and the internal "
            "users; every optional server switched off / absent / on again together with those pushes; record cleaner "
            "going and coming while a server is recreated), histories changing several groups at once with servers switched off and on again, and "
            "(thorough, and in the search run after a broken tie) every global parameter the table mentions, one at a time. "
            "After New and after every reload it records, in-package, which instance stands in Core for every component, whether "
            "each running component holds the new configuration's value for every bound constructor key (about 200 per "
            "observation, read from the component's own fields; for the internal users also by calling Authenticate; for the "
            "path manager also its path table: every static configuration has a live path, every live path resolves to a "
            "configuration and runs with the new *conf.Path), and "
            "whether each held reference is the current instance. Non-trivial = a history that changed something")
    trusted_base = ["Coq 8.16.1 kernel + VM", "translator tools/gen/coredeps (validated by the real reloads: the generated "
                    "predicates, guards and bindings must predict what a real Core does)",
                    "in-package driver zz_verif_c13_test.go (reads the components' fields by reflection; its own table of "
                    "which flags enable which component)",
                    "oracle: truth of the guard atoms (EncryptionNo..., atLeastOneRecordDeleteAfter) on a configuration, "
                    "evaluated by the driver; in the theorems a function of the field's value (atomv)"]
    assumptions = ["two loads of a configuration never share a pointee unless its value is equal (ptr_wf)",
                   "a failed reload (createResources error) ends the Core: only successful reloads are modelled",
                   "per-path parameters inside Paths are C15's subject: here the path map as a whole must reach the "
                   "path manager, the playback server and the record cleaner"]
    manifest = dict(
        text="The close*/create tables are translated from core.go on every run; Coq proves for EVERY table and EVERY pair of "
             "configurations that decidable table conditions (evaluated by vm_compute on the generated table) imply: a "
             "changed parameter closes or reloads every component built from it, dependents of a closed component are closed, "
             "nothing is closed without a changed parameter underneath, Go's straight-line evaluation computes those "
             "predicates; and, on a model of reloadConf itself (closeResources with its in-place pushes, conf.Store, "
             "createResources), that after ANY history of successful reloads every running component holds the current "
             "value of every parameter it is built from, stands in Core exactly when its guard holds, and holds the current "
             "instance of every component handed to it; unchanged components keep their instance. The in-place reload statements "
             "are translated one by one with THEIR OWN guard (core_pushes); Coq proves for every table / statement list / pair of "
             "configurations / state that statements guarded by the close variable of the component they push into behave as the "
             "rows say and deliver the new value whatever else changes in the same reload, checks that on the generated list, and "
             "refutes a guard taken from another component by a witness (invisible to one-change reloads). Real reloads of a real "
             "Core (single groups, every component's parameter x path configurations x internal users in ONE reload, multi-group histories, servers off and on, every parameter in the thorough tier) validate "
             "the translator and observe the applied values inside the running components.",
        note="Trusted: Coq kernel+VM, the go/ast translator (validated by real reloads), pointer identity as 'recreated', "
             "reflection reads of component fields. Per-path parameters are pushed in place (ReloadPathConfs) and are C15's subject.",
        technique="translator (Go -> Gallina table) + Coq proof over all tables/configuration pairs/histories + vm_compute table check + real-Core reload correspondence")

    def extra_checks(self, ctx, cases):
        # the driver must really have compared the constructor bindings (a silent loss of the observation is a broken tie)
        out = []
        path = None
        for f in sorted(os.listdir(ctx.workdir)):
            if f.startswith("driver_0_") and f.endswith(".jsonl"):
                path = os.path.join(ctx.workdir, f)
        best = 0
        if path:
            for r in vlib.read_jsonl(path):
                if "summary" in r:
                    best = max(best, int(r["summary"].get("extra", {}).get("bindings_compared_per_observation", 0)))
        if cases and best < 150:
            out.append(dict(kind="driver", what="the driver compared only %d constructor bindings per observation (>= 150 expected)" % best))
        return out

    def generate(self, ctx):
        out = os.path.join(vlib.COQ, "gen", "C13_CoreDeps.v")
        notes = os.path.join(ctx.workdir, "c13_notes.json")
        tmp = os.path.join(ctx.workdir, "C13_CoreDeps.v")
        rc, o = vlib.sh(["go", "run", "./coredeps", vlib.REPO, tmp, notes], cwd=os.path.join(vlib.VERIF, "tools", "gen"),
                        env=vlib.go_env(), timeout=300)
        if os.path.exists(tmp):
            new = open(tmp).read()
            old = open(out).read() if os.path.exists(out) else None
            if new != old:
                with vlib.Lock("coqmake"):
                    open(out, "w").write(new)
        if rc != 0:
            raise RuntimeError("translator failed: " + o[-2000:])
        tab = json.load(open(notes))["table"]
        return ["%s (core.go:%d): %d params, %d comparisons, holds %s" % (r["Comp"], r["Line"], len(r["Uses"] or []) + len(r["Guard"] or []),
                                                                          len(r["Cmp"] or []), ",".join(r["Refs"] or [])) for r in tab]


PROP = C13()
