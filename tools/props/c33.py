from check import Prop


class C33(Prop):
    pid = "C33"
    check_mod = "C33"
    drivers = [dict(pkg="internal/protocols/moq/reorderer", test="TestVerifC33")]
    n_quick = 600
    n_thorough = 40000
    shard = 300
    ready = True
    manifest = dict(
        text="Coq theorems by induction over ALL push histories (ids < 2^64, sizes >= 0, limits >= 0) on a Gallina model of "
             "Reorderer.Push/flushUpTo: an invariant (pending ids sorted, unique and above the last delivered id; byte counter = "
             "sum of held payloads; both limits respected) gives strictly increasing delivery, received-and-never-twice, "
             "immediate delivery of the next id, and the buffering bounds after every push. Tied to the code by replaying "
             "random histories through the real Reorderer and comparing outputs and held counters inside Coq.",
        note="Trusted: Coq kernel+VM, the driver; the Go map is represented as an id-sorted association list (canonical form); "
             "int overflow of the byte counter is out of scope.",
        technique="Coq proof: invariant preserved by every push, lifted to histories by induction; correspondence by vm_compute")
    rule = ("random push histories (1-30 pushes) through the real Reorderer: in-order ids, gaps, regressions, duplicates, "
            "gap fills, ids near 2^64, payload sizes 0-24 split over objects, limits incl. 0 and 'unlimited'; non-trivial = "
            "a history in which something was held back, flushed or skipped; distinct = distinct (input, output) descriptions")
    trusted_base = ["Coq 8.16.1 kernel + VM (vm_compute for cases)", "in-package Go driver zz_verif_c33_test.go",
                    "model Model/C33_Reorderer.v hand-written (Go map represented as an id-sorted association list), tied by correspondence"]
    assumptions = ["payload byte sums do not overflow a Go int (sizes are bounded by memory)",
                   "the mutex makes Push atomic, so a history is a sequence of pushes"]


PROP = C33()
