from check import Prop


class C39(Prop):
    pid = "C39"
    check_mod = "C39"
    drivers = [dict(pkg="internal/forward", test="TestVerifC39")]
    n_quick = 300
    n_thorough = 10000
    shard = 150
    ready = True
    rule = ("histories of 1-10 ReloadConf/Start/Stop operations (Start/Stop alternating, as the path issues them) on the real "
            "forward.Manager with destinations on closed local ports; reload lists are edits of the previous list (change, "
            "remove, insert, append, unchanged) or fresh; observed after every operation: handlers in order (identity, "
            "configuration, running), leaked running handlers, and the starting/stopping log events. Non-trivial = a history "
            "with a reload that changed the list")
    trusted_base = ["Coq 8.16.1 kernel + VM", "in-package driver zz_verif_c39_test.go (running = handler's done channel open; "
                    "events from the handlers' 'starting'/'stopping' log lines)", "model Model/C39_Forward.v hand-written"]
    assumptions = ["Manager methods are called from the path goroutine only (sequential histories)",
                   "a started handler's goroutine lives until stop() (its retry loop never returns by itself)"]
    manifest = dict(
        text="Coq theorems over ALL histories of ReloadConf/Start/Stop with alternating Start/Stop on a Gallina model of "
             "forward.Manager: an invariant gives 'exactly one running forwarder per configured destination, in order, while "
             "started; none otherwise; no leak', and a position-wise theorem about one reload gives untouched / replaced / "
             "removed / added. The model is compared step by step with the real Manager.",
        note="Trusted: Coq kernel+VM, driver. What a forwarder does on the network is out of scope.",
        technique="Coq proof: loop specification by induction on the new list + invariant lifted to histories; correspondence by vm_compute")


PROP = C39()
