from check import Prop


class C38(Prop):
    pid = "C38"
    check_mod = "C38"
    drivers = [dict(pkg="internal/confwatcher", test="TestVerifC38", timeout=900)]
    n_quick = 24
    n_thorough = 400
    search_factor = 3
    ready = True
    rule = ("timed scripts on a real ConfWatcher (own temp dir each, 12 in parallel): 1-3 bursts of 1-3 operations 100-300 ms "
            "apart separated by >= 2.4 s pauses; operations: single-write append, atomic replace (rename over), delete, "
            "re-create; one script in six watches a symlink to a file in the same directory that is swapped atomically (the "
            "rename names the watched file), two in six use the Kubernetes ConfigMap layout (conf.yml -> ..data/conf.yml, "
            "..data -> ..vN/, updated by renaming a new ..data over the old one: no event ever names the watched file, "
            "only its resolved path changes; classes k8s-*); one in six reaches the file's directory through a symlink (classes dirlink-*); one script in four saves again 1-4 ms after a signal; script 0 is the witness of the original "
            "defect (two writes 400 ms apart). Observed: signal times. Non-trivial = a script with more than one operation")
    trusted_base = ["Coq 8.16.1 kernel + VM", "in-package driver zz_verif_c38_test.go", "inotify/fsnotify deliver one event per "
                    "single-write append / rename (the driver only uses such operations)", "wall-clock tolerance of 250 ms; every "
                    "operation is kept >= 300 ms away from the model's deadlines"]
    assumptions = ["the deferred timer eventually fires (Go runtime timers)", "the receiver of the signal channel is ready (Core's loop)",
                   "inotify does not lose events (queue overflow is not modelled)"]
    manifest = dict(
        text="Coq theorems over ALL finite sequences and timings of file-system events and timer expiries on a Gallina model of "
             "the watcher loop with a ghost 'unnotified change' field: an unnotified change of the existing file always has the "
             "deferred timer armed, and its expiry signals the server; a change is only ever forgotten by a signal or because the "
             "file was seen missing; the pinned snapshot (events inside the 1 s interval dropped) is refuted with the two-writes "
             "witness. Timed scripts on the real watcher are compared with the model's schedule.",
        note="partial: inotify delivery/coalescing and the Go timer are assumed; wall-clock tolerances in the correspondence. "
             "Genuine defect fixed in /repo (bda1535, 61265ec).",
        technique="Coq proof (invariant over all op sequences, ghost state) + timed correspondence with tolerance")


PROP = C38()
