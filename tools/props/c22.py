from check import Prop


class C22(Prop):
    pid = "C22"
    check_mod = "C22"
    drivers = [dict(pkg="internal/stream", test="TestVerifC22")]
    n_quick = 1500
    n_thorough = 50000
    shard = 250
    ready = True
    manifest = dict(
        text="Coq theorems over a Gallina transliteration of formatUpdater{H264,H265,MPEG4Video} and "
             "unitRemuxer{H264,H265,MPEG4Video,AV1} composed as subStreamFormat.writeUnitInner composes them: for every "
             "access unit without empty NAL units and every initial parameter state the delivered unit is "
             "(current parameter sets if the unit has a key-frame NAL unit and all parameter sets are known) ++ (the unit "
             "without parameter sets and access-unit delimiters, order kept), where current = last in-band occurrence or the "
             "previous value, which is also what the out-format (published description) holds afterwards; by induction the "
             "same for every sequence of units; the count pass and the fill pass of the remuxers agree (no index panic, no "
             "nil hole); an empty NAL unit is exactly the panic condition; no delivered unit contains an empty NAL unit; "
             "MPEG-4 Video configuration stripping/prepending characterised completely; AV1 temporal delimiters removed; "
             "identity for the other formats. The model is tied to the code by pushing generated unit sequences through "
             "the real writeUnitInner and comparing payload, parameters and description updates inside Coq.",
        note="Trusted: Coq kernel+VM, the in-package driver, the fixture replacing Stream's callbacks. nil vs empty slices "
             "are modelled as None vs Some [] for parameter sets only. Slice aliasing (the delivered unit shares the "
             "backing arrays of the input) is not modelled. H.265 random access = NAL types 19,20,21 as in the code "
             "(BLA types are not treated as key frames).",
        technique="Coq proof (induction over the access unit for each loop, then over the sequence) + correspondence via vm_compute")
    rule = ("sequences of 1-6 units per case through one stream format: H.264/H.265 access units of 0-7 NAL units over all "
            "NAL types (weighted towards SPS/PPS/VPS, AUD, IDR/IRAP, slices, SEI; random header bits), parameter sets "
            "from a small pool so that repeats and changes occur, initial parameters missing / present / empty-non-nil, "
            "rare empty NAL units (panic class); MPEG-4 Video frames from start-code segments (config+GOV, GOV only, VOP "
            "only, config without GOV, 4-byte config, garbage prefix, two GOVs, start-code alphabet noise, empty); AV1 "
            "temporal units; one unit for each of 13 other formats; plus producer probes (RTP H264/H265/AV1 decoders, "
            "AVCC/Annex-B/AV1 bitstream readers on directed and random input, SDP with empty parameter sets + "
            "initialize2). Non-trivial = key frame or parameter change present; distinct = distinct descriptions")
    trusted_base = ["Coq 8.16.1 kernel + VM (vm_compute for cases)",
                    "in-package Go driver zz_verif_c22_test.go + fixture zz_verif_streamfx_test.go (package stream)",
                    "model Model/C22_Remux.v hand-written, tied by correspondence (payload, parameters, description update flag)"]
    assumptions = ["no NAL unit / OBU handed to the remuxer is empty (checked for the in-tree producers by the driver's producer probes)",
                   "byte slices are not mutated by another goroutine while a unit is processed"]


PROP = C22()
