import os

import vlib
from check import Prop


class C40(Prop):
    pid = "C40"
    check_mod = "C40"
    drivers = [dict(pkg="internal/core", test="TestVerifC40", timeout=900),
               dict(pkg="internal/stream", test="TestVerifC40Stream", timeout=600),
               dict(pkg="internal/servers/hls", test="TestVerifC40Mux", timeout=600)]
    n_quick = 32
    n_thorough = 320
    shard = 40
    search_factor = 2
    level = "proof"        # PARTIAL: see manifest note — the data-race half of C40 is not decided by proof
    ready = True
    rule = ("forced schedules: 8 scenario families with random parameters (A close a path that is about to call setPathReady; "
            "B override of a publisher: setPathNotReady+setPathReady vs close; C path manager busy in a handler while a path "
            "calls setPathNotReady: no escape, the path waits; D requests on hold answered at termination; E calls on a dead "
            "path; F shutdown with calls in flight at every kind of program point; G on-demand timer; H everyday flows incl. "
            "closePathIfIdle -> doClosePath -> removePath escape, reload that removes / re-creates a static path), each on a "
            "REAL pathManager with real paths, frozen through in-package hooks (logger, auth manager, publisher Close) that run "
            "on the goroutines of the real code; after every segment the program point of every goroutine is read from a "
            "goroutine dump and compared with the model state reached by the segment's labels, together with the model's "
            "claim that nothing else can move. Soak: 8-12 goroutines x 40 random operations (AddReader/AddPublisher/Describe/"
            "Remove*/APIPathsList/APIPathsGet/ReloadPathConfs incl. reloads that close paths, on-demand paths with a 150 ms "
            "timer, dynamic paths that close themselves when idle) and a final close(), half of them with close() while the "
            "calls are in flight; 16 s watchdog per call (8 s per forced segment). Core level (n/4 more cases, 5 families K1-K5 "
            "on a REAL Core with its real API server, no hook: clients that hold back the last byte of a configuration "
            "request park 1-3 handlers inside the handler tracker; trigger = an accepted API edit that needs a new API "
            "server (apiAddress / readTimeout / logLevel / api: no), a rewrite of the configuration file with another "
            "apiAddress, Core.Close(), a configuration file that does not load, an edit that keeps the API server; the "
            "parked requests are released one by one in random order; program points of Core.run, of the api.Close "
            "goroutine and of every handler from goroutine dumps (attributed by receiver pointer), HTTP status of every "
            "request; 10 s watchdog per segment). Stream level (2n more cases on REAL stream.Streams, plain and always-available, "
            "no hook: the driver or an observer goroutine holds Stream.mutex; sync.RWMutex's waiter counts tell when a call "
            "waits for it; s.readers, the callback owners of every sf.onDatas, hasReaders closed?, s.subStream, s.rtspStream are "
            "read under the mutex). Families: chain (half of the cases, GOMAXPROCS(1): 2-4 calls that need the write lock - "
            "AddReader of fresh readers on a stream that never had / already had a reader, RemoveReader, sub-stream switch, "
            "RTSPStream - queued behind the driver's lock, each followed by an observer; sync.Mutex is driven into starvation "
            "mode so that every Unlock hands mutex and processor to the next in the queue: each observer reads the state at "
            "the end of the previous call's critical section, before that call executes anything after its Unlock: two first "
            "joiners, joiner vs remover, joiner vs switch; goroutines in WaitForReaders); race (write lock held, 2-6 calls "
            "of every kind incl. WriteUnit of the current / a replaced sub-stream, OutboundBytes, WaitForReaders, Close: all "
            "wait, nothing changes, then they race on all processors and must all return); rhold (read lock "
            "held: read-lock calls return, a writer waits, readers after it wait behind it). 8 s watchdog. "
            "HLS level (n/10, at least 3 more cases: a REAL hls.Server with always remux attached to the REAL pathManager; "
            "hooks: the HLS server's logger holds hls.Server.run inside createMuxer, the auth manager holds "
            "pathManager.run inside a handler; schedule: a muxer takes its mutex and calls pathManager.AddReader while "
            "pathManager.run is busy, the publishers of that path and of 1-3 others leave, an API request that needs the "
            "muxers' mutexes (sessions list / muxers list / muxers get) arrives, pathManager.run is released; program "
            "points of both loops and the muxers inside pathManager.AddReader from goroutine dumps after each segment; "
            "8 s watchdog). HLS muxer level (max(8, n/2) more cases on a REAL hls.Server with a fake path manager, no hook: "
            "one muxer per case, client-requested (getMuxer with create) or always-remux (PathReady), whose start-up ends in "
            "every way runInner distinguishes (pathManager.AddReader error / no supported codec / instance running); then 1-3 "
            "events: instance failure (the publisher writes access units bigger than hlsSegmentMaxSize; forced in half of "
            "the cases, on client-requested and always-remux muxers in turn), activity-timer expiry (muxerCloseAfter 1 s), "
            "API muxers list / get (need the muxer's mutex); last: Server.Close(). Every call has a 3 s deadline; after "
            "each segment: muxer still listed?, muxer.mutex TryLock, number of calls that have not returned, compared "
            "with the muxer-level model after draining it; spec: nothing timed out, mutex free and no call pending at "
            "every rest point, muxer gone after Close). Non-trivial = every case; distinct = distinct descriptions")
    trusted_base = ["Coq 8.16.1 kernel + VM (vm_compute for cases and for the _refuted witness)",
                    "in-package driver zz_verif_c40_test.go: hooks on the real goroutines, classification of goroutine "
                    "dumps (runtime.Stack) by frame names of internal/core (pathManager.run, path.run/runInner, removePath, "
                    "setPathReady/NotReady, closePathIfIdle, the caller-side methods) and goroutine wait states",
                    "model Model/C40_Rendezvous.v hand-written from path_manager.go / path.go, tied by the forced-schedule "
                    "correspondence (program points + enabledness), theorem C40_check_settled_sound for the enabledness test",
                    "in-package driver zz_verif_c40core_test.go (slow clients; goroutine dumps classified by the frames "
                    "Core.run / closeAPI / api.(*API).Close / httpp.(*handlerTracker).close / http.(*Server).Shutdown / "
                    "httpp.dumpRequest / Core.APIConfig* and the receiver pointers of Core and of the handler tracker)",
                    "model Model/C40_CoreLoop.v hand-written from core.go (run, reloadConf, closeResources, closeAPI, "
                    "APIConfig*), api.Close, httpp.Server.Close / handlerTracker, confwatcher; tied by the Core-level "
                    "forced schedules, theorem C40_core_check_settled_sound for the enabledness test",
                    "in-package driver zz_verif_c40stream_test.go (reads sync.RWMutex's rw.w state word and readerCount through "
                    "reflect/unsafe, read-only; relies on sync.Mutex's starvation-mode hand-over (runtime semrelease with "
                    "handoff = goyield to the first waiter) to place its observers - if the runtime did not hand over, the "
                    "observers would only see later states: weaker, never a false alarm)",
                    "model Model/C40_StreamLock.v hand-written from stream.go / sub_stream.go (one program per public "
                    "operation, critical sections as the code delimits them), tied by the stream-level forced schedules, "
                    "theorems C40_stream_check_settled_sound / C40_stream_obs_consistent for the check itself",
                    "in-package driver zz_verif_c40hls_test.go (goroutine dumps classified by the frames pathManager.run / "
                    "doSetPathReady-NotReady -> hls.(*Server).PathReady-PathNotReady, hls.(*Server).run / createMuxer / "
                    "(*muxer).apiSessionsList / apiItem, (*muxer).runInner -> pathManager.AddReader)",
                    "model Model/C40_HlsLoop.v hand-written from path_manager.go (doSetPathReady/NotReady, AddReader), "
                    "hls/server.go (run, PathReady/PathNotReady, API requests), hls/muxer.go (initialize, runInner, run, "
                    "the mutex), hls/session.go (close2); theorem C40_hls_check_settled_sound for the enabledness test",
                    "in-package driver zz_verif_c40mux_test.go (sync.RWMutex.TryLock/TryRLock on the real muxer.mutex, "
                    "read of muxer.instance under TryRLock, the server's API answers, deadlines)",
                    "model Model/C40_HlsMux.v hand-written from hls/muxer.go (initialize, run, runInner: one lock/touch "
                    "instruction list per event and muxer kind) and the users of muxer.mutex; tied by the muxer-level "
                    "forced histories"]
    assumptions = ["NOT PROVED: data-race freedom (Go memory model) — outside what a Gallina model can express; the thorough "
                   "tier runs the soak under `go test -race` as supporting TESTING evidence only",
                   "Go channel semantics: unbuffered send/receive is a rendezvous; a select with a ready branch proceeds; "
                   "a cancelled context keeps its Done() channel closed; cancelling pm.ctx cancels every pa.ctx",
                   "calls out of the modelled processes return: hooks.On*, externalcmd, stream/recorder/forwarder Close, "
                   "publisher/reader Close() (hls.Server.PathReady/PathNotReady used to be in this list: now the HLS-level "
                   "model proves that they return for the code with fix 029c0b4 and refutes it for the pinned code), "
                   "staticsources.Handler Start/Stop/Close, authManager.Authenticate",
                   "a handler of the path loop performs at most 3 calls to its parent (setNotAvailable, setAvailable, "
                   "closePathIfIdle) — the bound `max_pm_calls` used by the termination measure",
                   "Core level: http.Server.Shutdown returns (it has a 2 s time-out); reading a request body returns (the "
                   "client sends it or readTimeout expires); createResources / the Close() of the other servers return; "
                   "requests reach Core.APIConfig* only through the API server (the handler tracker counts them)",
                   "Stream level: callers use a Reader for one AddReader and at most one RemoveReader after it has returned, "
                   "Close() is called once; reader callbacks return (r.stop() waits for the reader's goroutine); what the "
                   "fan-out delivers is C17's subject, not modelled here; outDescMutex / timeMutex (leaf locks taken under "
                   "Stream.mutex) are not modelled; a ServerStream created by RTSPStream() after Close() is never closed "
                   "(lifecycle, not a race): not judged",
                   "HLS level: path loops are abstracted to idle / sending a ready-state notification to pathManager.run (they "
                   "serve AddReader / RemoveReader when idle: first model); HTTP handlers of the HLS server (session."
                   "initialize, getMuxer, addSession) are clients of the loops and not modelled; the kick and muxer-exit "
                   "cycles (A2, A3) are refuted in the model only, the driver forces A1; muxer.closeMuxer's send to "
                   "hls.Server.run (no mutex held, ctx escape) is not modelled",
                   "not modelled: APIPathsList's loop over paths, the static-source handler's own goroutine, HLS muxers "
                   "calling back into the path manager; the two models are separate (the path manager's shutdown inside "
                   "Core.closeResources is the close() of the first model)"]
    manifest = dict(
        text="PARTIAL. Deadlock-freedom half: Coq theorems over a transition-system model of the rendezvous protocol between "
             "pathManager.run (incl. doClosePath = pa.close(); pa.wait()), every path loop (any handler = any well-formed "
             "script of answers and setPathReady/NotReady/closePathIfIdle calls; termination sequence removePath, answers to "
             "requests on hold, setPathNotReady), callers (AddReader/AddPublisher/Describe/APIPathsGet, ReloadPathConfs, direct "
             "path calls) and pathManager.close(), for ANY number of paths and callers and ALL interleavings: a reachable-state "
             "invariant gives progress (either everything is quiescent or a non-environment step is enabled); a measure that "
             "every internal step decreases gives that every schedule is finite, quiescence is reached, shutdown always ends in "
             "the all-terminated state and every started call returns; the variant without the <-pa.ctx.Done() escape branches "
             "is refuted with the reachable state 'path manager in pa.wait(), path blocked in setPathReady'. The model is tied "
             "to the code by forcing schedules on the real pathManager and comparing every goroutine's program point and the "
             "model's enabledness claims. Core level (second model): the select loop of Core.run (API configuration requests "
             "with their request/response rendezvous, confChanged, interrupt, ctx.Done), reloadConf / closeResources closing "
             "the API server, api.Close (Shutdown, then the handler tracker's wait without time-out), any number of API "
             "handlers and the watcher: progress, finiteness of every schedule, every request answered or refused, shutdown "
             "terminates; the code before fix 90f555e is refuted (Core.run inside api.Close() waiting for a handler that waits "
             "for Core.run: a genuine deadlock, reproduced on the real code and fixed in /repo). Stream level (third model): "
             "AddReader, RemoveReader, SubStream.WriteUnit, sub-stream switch, WaitForReaders, OutboundBytes, RTSPStream, "
             "Close and any other user of Stream.mutex as straight-line programs over the guarded state, critical sections "
             "delimited as in stream.go, sync.RWMutex with writer preference, hasReaders as a channel that panics on a second "
             "close; any number of concurrent calls, all interleavings: no panic state (double close, guarded field touched "
             "without the mutex, unlock of an unlocked mutex) is reachable, mutual exclusion, the hasReaders handshake (a "
             "registered reader visible outside a section implies hasReaders closed), every call returns whatever the "
             "scheduler does (only WaitForReaders without any AddReader stays), every schedule is finite; refuted: AddReader "
             "that unlocks before its check-then-close (two first joiners close twice; an observer sees reader + open "
             "channel), RemoveReader that unlocks before its deletes, AddReader under RLock, WriteUnit without RLock. Tied to "
             "the code by observers placed between the calls through the real mutex. HLS level (fourth model): pathManager.run, "
             "path loops, hls.Server.run, HLS muxers and their mutex: for the code with fix 029c0b4 (path events queued, "
             "PathReady/PathNotReady never block) EVERY state is quiescent or has an enabled step, every schedule is "
             "finite, quiescence is reached; the pinned code (unbuffered send) is refuted by three reachable cycles - "
             "A1 reproduced on the real code (goroutine dump: pathManager.run in PathNotReady, hls.Server.run at the muxer's "
             "mutex, muxer in pathManager.AddReader) and fixed in /repo. HLS muxer level (fifth model): the muxer's own "
             "goroutine (initialize / runInner / run: one instruction list over muxer.mutex per event - AddReader error, "
             "first instance created / not created, instance failure, instance re-creation, session clean-up, activity "
             "timer, context - and per muxer kind, client-requested or always-remux), API readers, session writers and "
             "Server.Close(): every exit path of runInner releases the mutex (lock discipline as a type system, kept by "
             "every step), so every state is quiescent or has an enabled step, every schedule is finite, every call "
             "returns and after Close() the muxer is gone; refuted: four variants in which one exit path leaves with "
             "the mutex held (instance failure of a client-requested muxer, AddReader error, creation error, session "
             "clean-up): the muxer waits for itself in run(), API requests and Close() never return.",
        note="Data-race freedom is NOT decided by proof (it is a property of the Go memory model that an executable Gallina "
             "model cannot exhibit); a `go test -race` soak of the driver runs in the thorough tier as supporting testing "
             "evidence only. External calls made from the loops are assumed to return.",
        technique="Coq proof (labelled transition system with program counters, reachable-state invariant by induction over "
                  "steps, case analysis for progress, nat-valued measure) + forced-schedule correspondence via vm_compute + "
                  "watchdog soak")

    def base_drivers(self, ctx, n, seed, replay=None):
        """Prop.run_drivers, with the drivers side by side (separate processes and overlay directories)."""
        from concurrent.futures import ThreadPoolExecutor

        def one(kd):
            k, d = kd
            outp = os.path.join(ctx.workdir, "driver_%d_%d.jsonl" % (k, n))
            if os.path.exists(outp):
                os.remove(outp)
            env = {"VERIF_SEED": seed, "VERIF_N": n, "VERIF_OUT": outp, "VERIF_TIER": ctx.tier, "VERIF_WORK": ctx.workdir}
            env.update(d.get("env", {}))
            if replay:
                env["VERIF_REPLAY"] = replay
            rc, out = vlib.run_driver(os.path.join(ctx.workdir, "drv%d" % k), d["pkg"], d["test"], env,
                                      timeout=d.get("timeout", 900))
            return d, rc, out, vlib.read_jsonl(outp)

        cases, summaries, errors = [], [], []
        with ThreadPoolExecutor(max_workers=len(self.drivers)) as ex:
            for d, rc, out, rows in ex.map(one, list(enumerate(self.drivers))):
                for r in rows:
                    if "summary" in r:
                        summaries.append(r["summary"])
                    else:
                        r["driver"] = d["test"]
                        r["id"] = len(cases)
                        cases.append(r)
                if rc != 0:
                    errors.append("driver %s failed (rc=%d):\n%s" % (d["test"], rc, out[-6000:]))
        return cases, summaries, errors

    def run_drivers(self, ctx, n, seed, replay=None):
        cases, summaries, errors = self.base_drivers(ctx, n, seed, replay)
        if ctx.tier == "thorough" and not replay:
            outp = os.path.join(ctx.workdir, "driver_race_%d.jsonl" % n)
            if os.path.exists(outp):
                os.remove(outp)
            env = {"VERIF_SEED": seed, "VERIF_N": 6, "VERIF_OUT": outp, "VERIF_TIER": ctx.tier,
                   "VERIF_WORK": ctx.workdir, "VERIF_C40_RACE": "1"}
            rc, out = vlib.run_driver(ctx.workdir, "internal/core", "TestVerifC40", env, timeout=1500, race=True)
            rows = [r for r in vlib.read_jsonl(outp) if "summary" not in r]
            calls = sum(r.get("desc", {}).get("calls", 0) for r in rows)
            races = out.count("WARNING: DATA RACE")
            summaries.append("race detector soak (TESTING, not proof): %d runs, %d calls, %d data race reports, rc=%d"
                             % (len(rows), calls, races, rc))
            for r in rows:
                r["driver"] = "TestVerifC40(-race)"
                r["id"] = len(cases)
                cases.append(r)
            if rc != 0:
                errors.append("race soak failed (rc=%d):\n%s" % (rc, out[-4000:]))
        return cases, summaries, errors


PROP = C40()
