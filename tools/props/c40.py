from check import Prop


class C40(Prop):
    pid = "C40"
    check_mod = "C40"
    drivers = [dict(pkg="internal/core", test="TestVerifC40", timeout=600)]
    n_quick = 32
    n_thorough = 480
    shard = 60
    search_factor = 2
    level = "proof"
    ready = False
    rule = "x"
    trusted_base = []
    assumptions = []
    manifest = dict(text="x", note="x", technique="x")


PROP = C40()
