from check import Prop


class C11(Prop):
    pid = "C11"
    check_mod = "C11"
    drivers = [dict(pkg="internal/conf", test="TestVerifC11")]
    n_quick = 120
    n_thorough = 1500
    shard = 8
    ready = True
    manifest = dict(
        text="Coq theorems over a Gallina transliteration of conf.deepClone on a reflect-like value universe "
             "(scalars, pointers, slices, maps, structs with settable/unsettable fields, interfaces) stored in an "
             "address-indexed heap with arbitrary sharing: cloning only allocates; every cell the copy reaches is fresh; "
             "the cells reachable from copy and original are disjoint; overwriting any cell the copy reaches (and any "
             "sequence of edits made through the copy, as a rejected API edit does) leaves every read of the original "
             "unchanged; the copy has the same shape. The model is tied to the code by running the real Conf.Clone, "
             "Path.Clone and deepClone on loaded configurations and on a zoo of types, dumping original and copy with "
             "their sharing graph into the universe, comparing with the model's clone inside Coq, and by mutating the "
             "real copy at every reflect path while re-hashing the original.",
        note="Holds for the code after the fix: commit that adds the reflect.Interface case (the pinned code shared "
             "OptionalPath.Values: theorem C11_pinned_refuted). Fields reflect cannot set (unexported, e.g. inside "
             "*regexp.Regexp) are zero in the copy: equality is proved up to those (C11_clone_same_shape), full equality "
             "only when all fields are settable (C11_clone_equal_partial / _refuted). Not represented: interior pointers, "
             "slices sharing an array at different offsets, arrays/chans holding references, cyclic values (deepClone "
             "does not terminate on them; the theorems assume termination).",
        technique="Coq proof by induction on the clone's recursion depth with a heap-extension invariant and a frame lemma "
                  "for reads; correspondence via vm_compute (isomorphism of sharing graphs)")
    rule = ("configurations generated from a YAML grammar (global options, deprecated pointer options, users, path "
            "defaults, 0-6 paths incl. regex/all_others, legacy credentials, rpiCamera pairs) loaded with conf.Load, the "
            "shipped mediamtx.yml, hand-built Conf values, Path.Clone of loaded paths, the API patch flow, and random values of "
            "a zoo type (interfaces holding pointers/slices/maps/structs, shared pointers, unexported fields) through "
            "deepClone; every case: joint heap dump + mutation at every settable reflect path of the copy. "
            "Non-trivial = the copy allocated at least one cell; distinct = distinct descriptions")
    trusted_base = ["Coq 8.16.1 kernel + VM (vm_compute for cases)",
                    "in-package Go driver zz_verif_c11_test.go (dump of reflect values into the universe: identity of "
                    "cells by (address, type); mutation walker; FNV hash of the original)",
                    "model Model/C11_Clone.v hand-written from deepClone, tied by correspondence",
                    "Go reflect semantics of Set/CanSet/MakeSlice/MakeMap/New as modelled (a Set copies the inline value)"]
    assumptions = ["values are acyclic (deepClone terminates)",
                   "no interior pointers / overlapping slices / arrays or chans holding references in configuration "
                   "types (the driver's type walk checks the kinds that occur in Conf, Path and the optional-path struct)",
                   "map keys are immutable scalars"]


PROP = C11()
