from check import Prop


class C21(Prop):
    pid = "C21"
    check_mod = "C21"
    drivers = [dict(pkg="internal/externalcmd", test="TestVerifC21", timeout=600),
               # callers of the launcher: a real core.path, hook events in sequence, commands held back
               dict(pkg="internal/core", test="TestVerifC21Env", timeout=600)]
    n_quick = 360          # (+30 hook-event rounds on a real core.path, 2-12 events each) commands with argv/environ dump; +256 exit statuses +24 with Restart +2 killed by signal
    n_thorough = 12000
    search_factor = 3
    shard = 200
    ready = True
    manifest = dict(
        text="Coq theorems over a Gallina transliteration of runOSSpecific/run (go-shellquote.Split as a byte automaton, "
             "os.Expand, exec's dedupEnv, the exit-status path): the argument vector has one entry per template word and "
             "entry i is word i rewritten alone, for all values; a whole $NAME/${NAME} reference becomes exactly the value for "
             "every byte string; the expansion is the word's pieces rendered once (values never rescanned); each Env key "
             "reaches the child once with exactly its value; every non-zero exit status is reported with that status. The "
             "model is tied to the code by starting the real Cmd on generated templates and environments (the child dumps its "
             "argv/environ) and on every exit status 0..255, and comparing inside Coq.",
        note="Trusted: Coq kernel+VM, the in-package driver (child = the test binary behind a symlink), execve/wait4 of the "
             "kernel. NUL bytes in values make Start fail (modelled, stated). The Windows variant is not covered.",
        technique="Coq proof (induction over template bytes / environment lists) + correspondence by vm_compute")
    rule = ("templates: structured (1 program word + 0-5 words of literal/variable pieces in plain, single-quoted, double-quoted, "
            "backslash-escaped and ${} forms; intended words shipped and compared), hostile (random strings over quotes, "
            "backslashes, dollars, braces, blanks, 8-bit bytes), special (NUL, odd keys, no words); values from a hostile list "
            "(spaces, quotes, $G1, $(..), newlines, 8-bit, 300 bytes) and random; exit statuses 0..255 through /bin/sh, a sample "
            "with Restart, death by SIGKILL. Non-trivial = a command that ran with at least one argument / a non-zero status; "
            "distinct = distinct (input, output) descriptions")
    trusted_base = ["Coq 8.16.1 kernel + VM (vm_compute for cases)", "in-package Go driver zz_verif_c21_test.go "
                    "(child process = the test binary reached through a symlink, dumping argv and environ)",
                    "model Model/C21_ExtCmd.v hand-written from cmd.go, cmd_os.go, go-shellquote unquote.go, os/env.go, "
                    "os/exec dedupEnvCase; tied by correspondence",
                    "Linux execve/wait4 deliver argv, environ and the exit status unchanged"]
    assumptions = ["values hold no NUL byte (execve cannot carry one; Start fails, which the model states)",
                   "Env keys are non-empty, hold no '=' (the server's keys are fixed identifiers)",
                   "unix build (cmd_os.go); cmd_os_windows.go not covered"]


PROP = C21()
