import json
import os
import re

import vlib
from check import Prop


class C21(Prop):
    pid = "C21"
    check_mod = "C21"
    drivers = [dict(pkg="internal/externalcmd", test="TestVerifC21", timeout=600),
               # callers of the launcher: a real core.path, hook events in sequence, commands held back
               dict(pkg="internal/core", test="TestVerifC21Env", timeout=600)]
    n_quick = 360          # (+30 hook-event rounds on a real core.path, 2-12 events each) commands with argv/environ dump; +256 exit statuses +24 with Restart +2 killed by signal
    n_thorough = 12000
    search_factor = 3
    shard = 200
    ready = True
    manifest = dict(
        text="Coq theorems over a Gallina transliteration of runOSSpecific/run (go-shellquote.Split as a byte automaton, "
             "os.Expand, exec's dedupEnv, the exit-status path): the argument vector has one entry per template word and "
             "entry i is word i rewritten alone, for all values; a whole $NAME/${NAME} reference becomes exactly the value for "
             "every byte string; the expansion is the word's pieces rendered once (values never rescanned); each Env key "
             "reaches the child once with exactly its value; every non-zero exit status is reported with that status. The "
             "model is tied to the code by starting the real Cmd on generated templates and environments (the child dumps its "
             "argv/environ) and on every exit status 0..255, and comparing inside Coq. The CALLERS of the launcher are covered "
             "too (Model/C21_HookEnv.v: an Environment is a map reference, the command's routine reads it at arbitrary later "
             "moments): for every call site that never writes a map once a command holds it, under every interleaving, each "
             "read returns what the map held at Start; the code's one-ExternalCmdEnv()-per-event pattern has that discipline "
             "and hands command i exactly event i's values; one shared, rewritten map is refuted (completion hook of segment "
             "5 reads segment 6). A real core.path is driven on every run: startRecording's callbacks in rotation and other "
             "orders, setOnline/setOffline with different queries, regex groups swapped in between, command routines held "
             "back (GOMAXPROCS(1)) so that they read after later events; every command dumps argv and environ.",
        note="Trusted: Coq kernel+VM, the in-package driver (child = the test binary behind a symlink), execve/wait4 of the "
             "kernel. NUL bytes in values make Start fail (modelled, stated). The Windows variant is not covered.",
        technique="Coq proof (induction over template bytes / environment lists) + correspondence by vm_compute")
    rule = ("templates: structured (1 program word + 0-5 words of literal/variable pieces in plain, single-quoted, double-quoted, "
            "backslash-escaped and ${} forms; intended words shipped and compared), hostile (random strings over quotes, "
            "backslashes, dollars, braces, blanks, 8-bit bytes), special (NUL, odd keys, no words); values from a hostile list "
            "(spaces, quotes, $G1, $(..), newlines, 8-bit, 300 bytes) and random; exit statuses 0..255 through /bin/sh, a sample "
            "with Restart, death by SIGKILL; hook-event rounds on a real core.path (30 quick / 400 thorough): 2-12 events "
            "(segment create/complete in rotation, rotation+regex-group reload, random order; offline hooks of successive "
            "online periods with different queries/sources; subsets of the three hooks configured), hostile path names, "
            "segment names, groups; command routines delayed past all later events (75%) or yielding in between (25%); "
            "classes hookenv/<order>/<delayed|yield>/<multi|single>. Non-trivial = a command that ran with at least one argument / a non-zero status; "
            "distinct = distinct (input, output) descriptions")
    trusted_base = ["Coq 8.16.1 kernel + VM (vm_compute for cases)", "in-package Go driver zz_verif_c21_test.go "
                    "(child process = the test binary reached through a symlink, dumping argv and environ)",
                    "model Model/C21_ExtCmd.v hand-written from cmd.go, cmd_os.go, go-shellquote unquote.go, os/env.go, "
                    "os/exec dedupEnvCase; tied by correspondence",
                    "Linux execve/wait4 deliver argv, environ and the exit status unchanged",
                    "in-package Go driver zz_verif_c21env_test.go (real core.path + hooks + externalcmd; commands are a "
                    "/bin/sh script dumping its argv and /proc/$$/environ; the Go scheduler with GOMAXPROCS(1) holds the "
                    "command routines back - if it does not, the round is still judged, only with earlier reads)",
                    "model Model/C21_HookEnv.v (Go maps as references, New/Set/Start/Read steps) hand-written from "
                    "path.go startRecording/setOnline/ExternalCmdEnv and internal/hooks; tied by correspondence"]
    assumptions = ["values hold no NUL byte (execve cannot carry one; Start fails, which the model states)",
                   "Env keys are non-empty, hold no '=' (the server's keys are fixed identifiers)",
                   "unix build (cmd_os.go); cmd_os_windows.go not covered",
                   "hook call sites driven on the real code: path.go segment hooks and setOnline/setOffline; the other call "
                   "sites (onInit/onDemand/onAvailable in path.go, OnRead/OnConnect in the protocol servers) follow the same "
                   "one-map-per-event pattern by inspection and are covered by the theorem only through the model"]


    def run_drivers(self, ctx, n, seed, replay=None):
        # other builders add drivers to internal/core; a half-written one must not break this check:
        # the overlay gets the common helpers and this property's driver files only
        orig = vlib.build_overlay

        def only_mine(workdir, pkgdirs):
            ov = orig(workdir, pkgdirs)
            with open(ov) as fh:
                d = json.load(fh)
            d["Replace"] = {k: v for k, v in d["Replace"].items()
                            if not re.match(r"zz_verif_c\d", os.path.basename(k))
                            or re.match(r"zz_verif_c21", os.path.basename(k))}
            with open(ov, "w") as fh:
                json.dump(d, fh, indent=1)
            return ov
        vlib.build_overlay = only_mine
        try:
            return Prop.run_drivers(self, ctx, n, seed, replay)
        finally:
            vlib.build_overlay = orig


PROP = C21()
