from check import Prop


class C29(Prop):
    pid = "C29"
    check_mod = "C29"
    drivers = [dict(pkg="internal/playback", test="TestVerifC29", timeout=900)]
    n_quick = 180
    n_thorough = 6000
    shard = 18
    ready = True
    manifest = dict(
        text="Coq theorems over a Gallina model of the playback endpoints: FindSegments' filtering, "
             "segmentFMP4CanBeConcatenated, concatenateSegments and the clipping of onList for /list; seekAndMux, "
             "segmentFMP4MuxParts and muxerFMP4 (writeSample, writeFinalDTS, innerFlush with its part flushing) for /get. "
             "For all recordings satisfying the recorder invariant and all windows: the spans of /list are ordered, "
             "disjoint and of non-negative length; their union equals the recorded media clipped to the window as sets of "
             "instants (exactly when consecutive segments are contiguous, between the segment union and the run hulls when "
             "NTP/DTS jitter leaves short intervals open); 404 only if nothing is recorded in the window; an end before the "
             "start is rejected (fix ed2cfb0); merged entries are exactly the hulls of maximal runs of files that continue "
             "each other (same stream id and consecutive numbers, or legacy: same tracks and <= 1 s apart). For /get: the "
             "sample table of every track of the returned file (independent of how the muxer cuts parts - proved by a "
             "refinement invariant over all call sequences) is the pre-roll since the last sync sample before the start "
             "(at zero duration, dropped when the first sample of the window is a sync sample) followed by exactly the "
             "samples of the parts read whose decode time relative to the requested start lies in [0, duration), in "
             "recorded order, re-based; the played segments are the first FindSegments returns and files continuing it. "
             "The full-strength window statement is refuted in the model and on the real endpoint (reading stops at the "
             "first part in which ANY track reaches the end; KNOWN_FINDINGS get:*cut-short) and proved under the guard "
             "no_cut. Tied to the code by running the real handlers on generated recordings and comparing, inside Coq, "
             "the JSON list and every PartTrack (base time, sample durations, flags, PTS offsets, payload ids) of the "
             "returned fMP4.",
        note="Oracles shipped per case: segment start instants (Path.Decode, C26), duration and init of each segment "
             "(segmentFMP4ReadHeader / segmentFMP4ReadDurationFromParts, C28), the duration parsed from the query "
             "(parseDuration: float or Go syntax), the sample tables the driver wrote with mediacommon's marshaller and "
             "read back from the answer with its parser. Not modelled: 64-bit overflow of time.Duration / time.Time "
             "saturation, format=mp4 (muxerMP4), I/O and malformed files (C28), authentication, URL fields of /list, "
             "equal segment start instants (sort.Slice is unstable), a track id missing from the first init. The muxer "
             "proofs assume per-track decode times that never go back and advance by < 2^32 units (uint32 durations); "
             "zero-length spans are allowed (a window starting exactly at a segment end yields {start, 0}).",
        technique="Coq proof: structural induction over the segment list (runs/hulls), interval reasoning with lia; "
                  "refinement between the concrete muxer state (tracks, buffered samples, flushed parts) and an abstract "
                  "per-track table, preserved by every writeSample/writeFinalDTS/innerFlush (invariant by induction over "
                  "the call sequence), reader = pure event list; correspondence via vm_compute")
    rule = ("one recording per 6 cases: 1-3 publisher sessions (new stream id each; legacy recordings without mtxi for all "
            "or for the first session) pushed through a transcription of the recorder's "
            "fMP4 segmenter (one-sample look-ahead per track, segment start = oldest pending sample, segment duration 1-3 s, "
            "part duration 0.3-1 s, per-track delivery lag 0-0.4 s, NTP drift +-3 ms, track layouts video+audio / video / "
            "audio with time scales 90000 48000 44100 8000 1000, GOP 1-6, irregular frame durations, segment numbers near "
            "2^64 or continuing the previous session's under a new stream id), header duration written (ms) or missing, gaps between sessions 0 / 1 us / 0.5 s / 1 s -+ 1 us / 2-20 s; "
            "files written with mediacommon's fmp4 marshaller; /list and /get called through gin test contexts with start, "
            "end and duration drawn from every segment start/end, part and sample instant +- {0, 1 ns, 37 ns, 999 ns, 1 us, "
            "1 ms, 0.5 s}, far before/after, missing, reversed, zero and negative durations, float and Go duration syntax. "
            "Non-trivial = status 200; distinct = distinct descriptions")
    trusted_base = ["Coq 8.16.1 kernel + VM (vm_compute for cases)",
                    "in-package Go driver zz_verif_c29_test.go (real files under VERIF_WORK, real handlers through gin test contexts)",
                    "model Model/C29_Playback.v hand-written, tied by correspondence (0 mismatches required)",
                    "oracle: recordstore.Path Encode/Decode for segment start instants (C26)",
                    "oracle: parseSegment (segmentFMP4ReadHeader, segmentFMP4ReadDurationFromParts) for segment durations (C28)",
                    "oracle: parseDuration for the duration parameter; mediacommon fmp4 Marshal/Unmarshal for sample tables",
                    "list durations recovered from the JSON float by rounding to nanoseconds (exact below 2^53 ns)"]
    assumptions = ["segment list ordered by start with distinct starts, durations >= 0 (rec_ok)",
                   "per-track decode times non-decreasing with steps < 2^32 units (tracks_sorted)",
                   "track ids of an init are distinct", "no int64 overflow of durations/instants", "no I/O errors, well-formed files"]


PROP = C29()
