from check import Prop


class C29(Prop):
    pid = "C29"
    check_mod = "C29"
    drivers = [dict(pkg="internal/playback", test="TestVerifC29", timeout=600)]
    n_quick = 300
    n_thorough = 20000
    shard = 25
    ready = False
    manifest = dict(text="wip", note="wip", technique="wip")
    rule = "wip"
    trusted_base = ["Coq 8.16.1 kernel + VM (vm_compute for cases)"]
    assumptions = []


PROP = C29()
