import json
import os

from check import Prop


class C12(Prop):
    pid = "C12"
    check_mod = "C12"
    drivers = [dict(pkg="internal/core", test="TestVerifC12", timeout=600)]
    n_quick = 64          # histories of 12 steps each (1/8 of them over HTTP, every second one with file reloads)
    n_thorough = 2000
    shard = 16
    search_factor = 4
    ready = True
    manifest = dict(
        text="Coq theorems over a Gallina model of the Control-API configuration edits (Core.doAPIConfig*, the conf.Conf "
             "methods, copyStructFields, Clone with an explicit memory of per-path cells, the request loop of Core.run that "
             "answers before it reloads): patches change exactly the fields present, add fails on an existing name, replace "
             "leaves exactly the given fields so absent ones go back to the defaults, delete fails on a missing name, a "
             "rejected edit leaves everything the API reads unchanged (and this is refuted for a clone that shares the "
             "path cells), every read returns the result of all edits answered before it whatever the interleaving of "
             "answers, reloads and reads, and for every edit history the readable configuration and all answers are those "
             "of a specification on plain finite maps (induction over histories). Reloads of the configuration file "
             "(the watcher's signal: conf.Load, reloadConf) are part of the histories: after a successful file reload the "
             "live configuration is the file's whatever the API did before (API edits are not persisted), an edit after it "
             "starts from the file's configuration, and the history refinement and read-your-write hold with file reloads "
             "interleaved; a file that does not load, or an accepted edit whose resources cannot be created, makes Core.run "
             "leave its loop (terminal state; stated as observations). Validate is an arbitrary oracle. "
             "READS are steps of the histories: a GET handler (global/get, "
             "pathdefaults/get, paths/list, paths/get/name) works on a copy of the snapshot and writes into it (credential "
             "redaction); for every endpoint and whatever it writes, a handler working on Conf.Clone() leaves the running "
             "configuration unchanged and answers the running configuration with those writes, the history refinement holds "
             "with GETs interleaved, and both memories that a cheaper copy would share are modelled with a refuted variant "
             "each (path cells shared; a struct copy sharing the backing array of authInternalUsers: redacting it in place "
             "overwrites the running passwords). The model "
             "is tied to the code by running random histories against a real Core (direct calls and real HTTP; the file is "
             "rewritten on disk and the real watcher delivers the signal) and comparing the configuration read back after "
             "every step inside Coq; the configuration compared is the RUNNING one, "
             "read in-package with its credentials, after every edit, file reload and GET.",
        note="Trusted: Coq kernel+VM, the in-package driver and its canonicalisation (field = JSON key, value = canonical "
             "JSON text), Conf.Validate as an oracle (its verdict per step is what the real Validate answered; its "
             "normalisations of deprecated alias parameters are excluded from the generators), gin routing and net/http.",
        technique="Coq proof (refinement to a map specification by induction over edit histories, invariant over a heap of "
                  "cells, labelled transition system for answer/reload/read) + correspondence via vm_compute")
    rule = ("each case is a history of 12 random edits (global/pathdefaults/add/patch/replace/delete; names from a pool with "
            "existing, missing, regex, alias and invalid names; bodies with 0-4 fields, valid values, values Validate rejects, "
            "undecodable bodies, unknown fields) against a fresh real Core, 1/8 of the histories over the HTTP API; after "
            "every edit the global fields, path defaults, optional paths and effective paths of the RUNNING configuration are "
            "read in-package (credentials included). Initial configurations: 4 of 8 with authInternalUsers carrying plain, "
            "sha256 and argon2 passwords, 2 of 8 with deprecated per-path / pathDefaults credentials (readPass, publishPass), "
            "2 of 8 without credentials; global edits also replace the authInternalUsers list. GETs through the real "
            "handlers are steps of every history (before the first edit, and after an edit or file reload: always over "
            "HTTP histories - global/get, pathdefaults/get, paths/list and half of the time paths/get/name - and 0-3 random "
            "endpoints otherwise; names existing and missing): each answer must equal the running configuration in every "
            "field but the credential fields, and the running configuration read in-package after each GET must be what it "
            "was before it. Every second "
            "history also rewrites the configuration file (rename into place; random global parameters, path defaults and "
            "paths; the file's configuration is computed by an independent conf.Load) at one random position, 1/8 of those "
            "at two (the second signal is deferred by the watcher for 1 s), waits for the real watcher's signal to be "
            "handled and reads back; 1/6 of them end with a file that does not load (syntax error, unknown parameter, "
            "rejected by Validate), 1/8 with an accepted edit whose resources cannot be created (metrics server on a port in "
            "use). Non-trivial = a history with at least one accepted and one rejected edit; distinct = distinct history "
            "descriptions")
    trusted_base = ["Coq 8.16.1 kernel + VM (vm_compute for cases)", "in-package Go driver zz_verif_c12_test.go",
                    "oracle: Conf.Validate (verdict shipped per step by the driver)",
                    "oracle: conf.Load of the file (the driver loads every generated file itself and ships the result)",
                    "models Model/C12_ApiEdit.v, Model/C12_FileReload.v, Model/C12_Reads.v hand-written, tied by correspondence",
                    "what a GET redacts inside the credential fields (authInternalUsers, publishPass, readPass) is C07's "
                    "subject: C12 compares the answers outside those fields and the running configuration in full"]
    assumptions = ["Conf.Validate does not modify non-deprecated parameters of the candidate (checked on every generated "
                   "edit by the correspondence run; deprecated alias parameters are not generated)",
                   "Core.run handles one configuration request at a time (single goroutine)",
                   "Clone gives each optional path a fresh cell (C11)",
                   "the watcher delivers a signal after the file was replaced (C38); the driver waits for it (20 s watchdog)"]


    def run_drivers(self, ctx, n, seed, replay=None):
        # the driver keeps the request being handled in c12_inflight.json; if the process dies (a configuration that
        # must not have been accepted can crash the server) that request becomes a case of its own
        infl = os.path.join(ctx.workdir, "c12_inflight.json")
        if os.path.exists(infl):
            os.remove(infl)
        # the thorough tier runs ~1900 histories: minutes on an idle machine, far more under load
        self.drivers[0]["timeout"] = 3600 if ctx.tier == "thorough" else 900
        cases, summaries, errors = super().run_drivers(ctx, n, seed, replay)
        timed_out = any("test timed out" in e or "TIMEOUT after" in e for e in errors)
        if os.path.exists(infl) and timed_out:
            # killed by the test time limit, not by the server: a driver failure (reported as such), not a crash
            os.remove(infl)
        if os.path.exists(infl):
            try:
                d = json.load(open(infl))
            except Exception:
                d = {"note": "in-flight file unreadable"}
            os.remove(infl)
            cases.append({"coq": "(Unanswered %s)" % ("Http" if d.get("mode") == "http" else "Direct"), "desc": d,
                          "class": "crashed", "nontrivial": True, "driver": "TestVerifC12", "id": len(cases)})
        return cases, summaries, errors


PROP = C12()
