import json
import os

from check import Prop


class C12(Prop):
    pid = "C12"
    check_mod = "C12"
    drivers = [dict(pkg="internal/core", test="TestVerifC12", timeout=600)]
    n_quick = 64          # histories of 12 steps each (1/8 of them over HTTP, every second one with file reloads)
    n_thorough = 2000
    shard = 16
    search_factor = 4
    ready = True
    manifest = dict(
        text="Coq theorems over a Gallina model of the Control-API configuration edits (Core.doAPIConfig*, the conf.Conf "
             "methods, copyStructFields, Clone with an explicit memory of per-path cells, the request loop of Core.run that "
             "answers before it reloads): patches change exactly the fields present, add fails on an existing name, replace "
             "leaves exactly the given fields so absent ones go back to the defaults, delete fails on a missing name, a "
             "rejected edit leaves everything the API reads unchanged (and this is refuted for a clone that shares the "
             "path cells), every read returns the result of all edits answered before it whatever the interleaving of "
             "answers, reloads and reads, and for every edit history the readable configuration and all answers are those "
             "of a specification on plain finite maps (induction over histories). Reloads of the configuration file "
             "(the watcher's signal: conf.Load, reloadConf) are part of the histories: after a successful file reload the "
             "live configuration is the file's whatever the API did before (API edits are not persisted), an edit after it "
             "starts from the file's configuration, and the history refinement and read-your-write hold with file reloads "
             "interleaved; a file that does not load, or an accepted edit whose resources cannot be created, makes Core.run "
             "leave its loop (terminal state; stated as observations). Validate is an arbitrary oracle. The model "
             "is tied to the code by running random histories against a real Core (direct calls and real HTTP; the file is "
             "rewritten on disk and the real watcher delivers the signal) and comparing the configuration read back after "
             "every step inside Coq.",
        note="Trusted: Coq kernel+VM, the in-package driver and its canonicalisation (field = JSON key, value = canonical "
             "JSON text), Conf.Validate as an oracle (its verdict per step is what the real Validate answered; its "
             "normalisations of deprecated alias parameters are excluded from the generators), gin routing and net/http.",
        technique="Coq proof (refinement to a map specification by induction over edit histories, invariant over a heap of "
                  "cells, labelled transition system for answer/reload/read) + correspondence via vm_compute")
    rule = ("each case is a history of 12 random edits (global/pathdefaults/add/patch/replace/delete; names from a pool with "
            "existing, missing, regex, alias and invalid names; bodies with 0-4 fields, valid values, values Validate rejects, "
            "undecodable bodies, unknown fields) against a fresh real Core, 1/8 of the histories over the HTTP API; after "
            "every edit the global fields, path defaults, optional paths and effective paths are read back. Every second "
            "history also rewrites the configuration file (rename into place; random global parameters, path defaults and "
            "paths; the file's configuration is computed by an independent conf.Load) at one random position, 1/8 of those "
            "at two (the second signal is deferred by the watcher for 1 s), waits for the real watcher's signal to be "
            "handled and reads back; 1/6 of them end with a file that does not load (syntax error, unknown parameter, "
            "rejected by Validate), 1/8 with an accepted edit whose resources cannot be created (metrics server on a port in "
            "use). Non-trivial = a history with at least one accepted and one rejected edit; distinct = distinct history "
            "descriptions")
    trusted_base = ["Coq 8.16.1 kernel + VM (vm_compute for cases)", "in-package Go driver zz_verif_c12_test.go",
                    "oracle: Conf.Validate (verdict shipped per step by the driver)",
                    "oracle: conf.Load of the file (the driver loads every generated file itself and ships the result)",
                    "models Model/C12_ApiEdit.v, Model/C12_FileReload.v hand-written, tied by correspondence"]
    assumptions = ["Conf.Validate does not modify non-deprecated parameters of the candidate (checked on every generated "
                   "edit by the correspondence run; deprecated alias parameters are not generated)",
                   "Core.run handles one configuration request at a time (single goroutine)",
                   "Clone gives each optional path a fresh cell (C11)",
                   "the watcher delivers a signal after the file was replaced (C38); the driver waits for it (20 s watchdog)"]


    def run_drivers(self, ctx, n, seed, replay=None):
        # the driver keeps the request being handled in c12_inflight.json; if the process dies (a configuration that
        # must not have been accepted can crash the server) that request becomes a case of its own
        infl = os.path.join(ctx.workdir, "c12_inflight.json")
        if os.path.exists(infl):
            os.remove(infl)
        cases, summaries, errors = super().run_drivers(ctx, n, seed, replay)
        if os.path.exists(infl):
            try:
                d = json.load(open(infl))
            except Exception:
                d = {"note": "in-flight file unreadable"}
            os.remove(infl)
            cases.append({"coq": "(Unanswered %s)" % ("Http" if d.get("mode") == "http" else "Direct"), "desc": d,
                          "class": "crashed", "nontrivial": True, "driver": "TestVerifC12", "id": len(cases)})
        return cases, summaries, errors


PROP = C12()
