from check import Prop


class C44(Prop):
    pid = "C44"
    check_mod = "C44"
    drivers = [dict(pkg="internal/api", test="TestVerifC44")]
    n_quick = 2000
    n_thorough = 100000
    shard = 1000
    ready = True
    manifest = dict(
        text="Coq theorems (all lists of any element type and length < 2^62, all parameter strings) over a Gallina model of "
             "paginate/paginate2 with Go's 64-bit wrap-around explicit: pages concatenate to the list, page size bound, "
             "past-the-end pages empty, exact accept/reject syntax of the parameters, no overflow, no slice panic. The model "
             "is tied to the code by running the real paginate on generated inputs and comparing inside Coq.",
        note="Trusted: Coq kernel+VM, the in-package driver, that Go int is 64 bit. The reflect-based slicing is modelled as "
             "items[lo:hi] with a panic when bounds are out of order.",
        technique="Coq proof by induction over the page index (list chunking) + nia for the 64-bit bounds; correspondence by vm_compute")
    rule = ("generated (len, itemsPerPage, page) triples: boundary strings (signs, underscores, non-ASCII digits, "
            "2^31, 2^63, 2^64 neighbours) and random ones run through the real api.paginate on the list [0..len); "
            "sweeps run every page 0..pageCount of one list. Non-trivial = a non-empty page / a sweep with >1 page; "
            "distinct = distinct (input, output) descriptions")
    trusted_base = ["Coq 8.16.1 kernel + VM (vm_compute for cases)", "in-package Go driver zz_verif_c44_test.go",
                    "model Model/C44_Paginate.v hand-written, tied by correspondence"]
    assumptions = ["Go int is 64 bit (wrap64 in the model)", "reflect.Value.Slice panics iff bounds are out of order"]


PROP = C44()
