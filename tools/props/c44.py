from check import Prop


class C44(Prop):
    pid = "C44"
    check_mod = "C44"
    drivers = [dict(pkg="internal/api", test="TestVerifC44")]
    n_quick = 2000
    n_thorough = 100000
    shard = 1000
    ready = True
    manifest = dict(
        text="Coq theorems (all lists of any element type and length < 2^62, all parameter strings) over a Gallina model of "
             "paginate/paginate2 with Go's 64-bit wrap-around explicit: pages concatenate to the list, page size bound, "
             "past-the-end pages empty, exact accept/reject syntax of the parameters, no overflow, no slice panic. The model "
             "is tied to the code by running the real paginate on generated inputs and comparing inside Coq. "
             "The callers are covered too: a list endpoint is modelled as 'items := source(); paginate; answer {itemCount, "
             "pageCount, page}' (two shapes: paginate the items / paginate the keys, allocate, fill by index) and proved, "
             "for every source list and all parameter strings, to answer the consecutive slice [page*ipp, page*ipp+ipp) of "
             "its source with the whole length as itemCount (pages concatenate to the source, size bound, past-the-end "
             "empty, 400 exactly for invalid parameters, no panic); every list endpoint of internal/api (15 routes) is "
             "driven through the real gin router with N-item fake managers / configuration / recordings directory on "
             "every run and each JSON answer is compared with the model; a go/ast inventory of the functions calling "
             "paginate (route, handler, shape) must equal the model's endpoint table.",
        note="Trusted: Coq kernel+VM, the in-package driver, that Go int is 64 bit. The reflect-based slicing is modelled as "
             "items[lo:hi] with a panic when bounds are out of order. Endpoint sources are fakes (the managers' own list "
             "functions, recordstore.FindAllPathsWithSegments ordering and conf loading belong to other properties); items "
             "are identified by an index encoded in id / name / path.",
        technique="Coq proof by induction over the page index (list chunking) + nia for the 64-bit bounds; correspondence by vm_compute")
    rule = ("generated (len, itemsPerPage, page) triples: boundary strings (signs, underscores, non-ASCII digits, "
            "2^31, 2^63, 2^64 neighbours) and random ones run through the real api.paginate on the list [0..len); "
            "sweeps run every page 0..pageCount of one list. Non-trivial = a non-empty page / a sweep with >1 page; "
            "distinct = distinct (input, output) descriptions. Callers: each of the 15 list endpoints (config paths, paths, "
            "forward destinations, hls muxers/sessions, rtsp/rtsps conns+sessions, rtmp/rtmps conns, webrtc, srt, moq, "
            "recordings) is requested through the real router for source sizes N in {0,1,2,3,5,7,12,100,101, 3 random up to "
            "221}: the default request, itemsPerPage in {1,2,3,N-1,N,N+1,100,2^31-1,random} x page in {0,1,last,last-1,"
            "pageCount,pageCount+1,2^31-1,random} (also empty / omitted / zero-padded parameters), one rejected parameter "
            "string (0, signs, underscore, non-ASCII digit, 2^31, NUL, ...), and a sweep over pages 0..pageCount; classes "
            "endpoint:page / endpoint:empty-page / endpoint:status-400 / endpoint:sweep / inventory; per-route request "
            "counts are in the driver summary")
    trusted_base = ["Coq 8.16.1 kernel + VM (vm_compute for cases)", "in-package Go drivers zz_verif_c44_test.go, zz_verif_c44ep_test.go (fake managers, go/ast inventory)",
                    "model Model/C44_Callers.v hand-written, tied by correspondence on all 15 endpoints + inventory",
                    "model Model/C44_Paginate.v hand-written, tied by correspondence"]
    assumptions = ["Go int is 64 bit (wrap64 in the model)", "reflect.Value.Slice panics iff bounds are out of order",
                   "a list handler's source (manager call / configuration / recordings scan) returns the same list for every page request of a sweep"]


PROP = C44()
