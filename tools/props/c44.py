from check import Prop


class C44(Prop):
    pid = "C44"
    check_mod = "C44"
    drivers = [dict(pkg="internal/api", test="TestVerifC44")]
    n_quick = 2000
    n_thorough = 100000
    shard = 1000
    rule = ("generated (len, itemsPerPage, page) triples: boundary strings (signs, underscores, non-ASCII digits, "
            "2^31, 2^63, 2^64 neighbours) and random ones run through the real api.paginate on the list [0..len); "
            "sweeps run every page 0..pageCount of one list. Non-trivial = a non-empty page / a sweep with >1 page; "
            "distinct = distinct (input, output) descriptions")
    trusted_base = ["Coq 8.16.1 kernel + VM (vm_compute for cases)", "in-package Go driver zz_verif_c44_test.go",
                    "model Model/C44_Paginate.v hand-written, tied by correspondence"]
    assumptions = ["Go int is 64 bit (wrap64 in the model)", "reflect.Value.Slice panics iff bounds are out of order"]


PROP = C44()
