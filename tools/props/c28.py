import json
import os
import re

from check import Prop
import vlib


class C28(Prop):
    pid = "C28"
    check_mod = "C28"
    drivers = [dict(pkg="internal/playback", test="TestVerifC28", timeout=900)]
    n_quick = 2400
    n_thorough = 30000
    shard = 250
    search_factor = 3
    level = "proof"
    ready = True
    manifest = dict(
        text="Coq theorems over a panic-explicit Gallina transliteration of the in-tree fMP4 segment parsing code of "
             "internal/playback (segmentFMP4ReadHeader, segmentFMP4ReadDurationFromParts, the box handler of "
             "segmentFMP4MuxParts, parseSegment of /list, the segment loop of seekAndMux of /get): for every file (list "
             "of bytes) and every behaviour of the third-party decoders the outcome is Ok or Err - no index/slice panic, "
             "no division by zero, no nil dereference, no loop that does not terminate (fuel |file|+1 is never "
             "exhausted) - and every size passed to make([]byte, n) is at most max(8, file length). The tree as found "
             "is refuted with witnesses (divide by zero on mvhd timescale 0, nil dereference on a lone tfdt/trun box, "
             "4 GiB allocations from box sizes < 8 or huge, from ftyp+moov sizes, from a sample size); five fix: commits "
             "repaired it. The model is tied to the code by running the real functions under recover() on recorded "
             "files mutated field by field, truncated, zero-filled, spliced, and on foreign files, comparing outcome, "
             "value, muxer calls and a lower bound of the heap bytes inside Coq; the real parseSegment/seekAndMux with "
             "the real muxers are exercised on the same files (outcome class and heap bytes only). Directory level "
             "(Model/C28_Dir.v): parseSegments with its goroutines (errors collected from the channel in completion "
             "order, a slot left nil for a file that failed), concatenateSegments (dereferences every slot), the tail of "
             "onList (entries[0], entries[1:], entries[len-1]) and seekAndMux over the selected files (segments[0], "
             "errors of the first / of later files, mtxi.DTS): for every list of files of which any - one, several, "
             "all; first, middle, last - may be unparsable, every completion order (any permutation) and every window, "
             "/list and /get end in a status, never in a nil dereference or an index out of range; /list answers 500 "
             "exactly when a selected file cannot be parsed and its answer does not depend on the completion order; the "
             "loop `err = <-ch` (keep only the last result) is refuted with a two-file witness. Tied to the code by "
             "running the real /list and /get handlers on generated recordings in which files were zero-filled, "
             "truncated, zero-padded, replaced by foreign content, symlinks or empty files, or foreign files were dropped "
             "under segment-like names, with the selection of FindSegments and the per-file parse outcomes as oracles.",
        note="PARTIAL: panic-freedom and termination INSIDE abema/go-mp4 and mediacommon are exercised, not proved; they "
             "enter the theorems as arbitrary oracle functions / event lists. One third-party defect is open "
             "(KNOWN_FINDINGS class known:trun-zero-entry-amplification): go-mp4 loops SampleCount times over a trun "
             "whose entries have no fields. Assumption on mediacommon (checked on every case, shown necessary by "
             "C28_parts_needs_timescale): fmp4.Init.Unmarshal returns tracks with a non-zero timescale. The real "
             "muxers (muxer_fmp4.go, muxer_mp4.go) and the HTTP layer are exercised, not modelled. Directory level: "
             "recordstore.FindSegments is an oracle (its selection is shipped per case), the per-file outcome of muxing "
             "in /get is not observed (the /get cases pin the status only as far as the first header: 404 nothing "
             "selected, 400 first header unreadable, else 200/400/404), time.Time/time.Duration saturation is not "
             "modelled (entry counts are compared only when all durations are below 2^55 ns); a panic inside a "
             "parseSegments goroutine cannot be recovered by the driver (each file is pre-screened with the real "
             "parseSegment under recover()).",
        technique="Coq proof (case analysis over the straight-line code, induction over fuel with the measure "
                  "|file| - position for the two loops, invariant tfdt<>nil -> timeScale<>0 over event lists) + "
                  "permutation invariance of the error collection, structural induction over the parsed list / "
                  "the selected files with the invariant first has mtxi -> prev has mtxi) + "
                  "correspondence by vm_compute")
    rule = ("two recorded files (1 and 2 tracks, 2 parts each, Mtxi box) written with the encoders the recorder uses; the "
            "witnesses of the findings; every box size field, every mvhd/mdhd timescale and duration and every 32-bit "
            "word of the mfhd/tfhd/tfdt/trun/trex/mtxi boxes set to 0, 1, 7, 0xFFFFFFFF; box sizes also 8, 9, 2^31-1, 2^31; "
            "truncations and truncations followed by 64 zero bytes (every 3rd offset of the fragment region in the "
            "quick tier, all in thorough); foreign files (empty, JPEG, text, MPEG-TS, non-fragmented MP4 in both box "
            "orders, zeros); then random byte flips, splices of the fragment region and random tails. Directories "
            "(n/3 requests, 8 per layout, 4 layouts per recording): recordings of 1-9 segments from C29's generator "
            "(recorder-like segmenter; mtxi / legacy / mixed) in which the first / last / a middle / one / first and "
            "last / all / all but one / a random subset of the files are damaged - zero-filled (same length, 64 "
            "bytes), empty, truncated (inside ftyp, moov, at / around the first moof, mid fragment, last byte), truncated "
            "and zero-padded, foreign (JPEG, text, MPEG-TS, non-fragmented MP4, moov without tracks, garbage), 1-3 bytes "
            "overwritten, garbage tail, init only with duration 0, dangling symlink, symlink to a directory, a zeroed "
            "stretch - and/or foreign or zero files are dropped under segment-like names before / between / after the "
            "segments and under unrelated names; /list (whole directory twice, start at / near a damaged file or its "
            "predecessor, random windows, end only) and /get (start at / near a damaged file or its predecessor, at the "
            "first segment, random; durations 0.1-300 s; fmp4 / mp4) through the real handlers; the distribution "
            "(endpoint:status:selection with mixed:bad-first/middle/last, none-parses, all-parse; damage kinds; "
            "positions) is in the driver summary. Non-trivial = "
            "the call succeeded, or failed on a file derived from a recording, or the selection mixes parsable and "
            "unparsable files; distinct = distinct descriptions")
    trusted_base = ["Coq 8.16.1 kernel + VM (vm_compute for cases and for the _refuted witnesses)",
                    "in-package Go driver zz_verif_c28_test.go (package playback) and its Gallina printers",
                    "model Model/C28_SegRead.v hand-written, tied by correspondence (outcome, value, muxer calls)",
                    "in-package Go driver zz_verif_c29_dirs_test.go (TestVerifC29Dirs; uses the recording generator of "
                    "zz_verif_c29_test.go) and its Gallina printers; model Model/C28_Dir.v hand-written, tied by "
                    "correspondence (status, number of entries)",
                    "oracle: recordstore.FindSegments (selected files shipped per directory case); the real parseSegment / "
                    "segmentFMP4ReadHeader per selected file (outcome shipped per case)",
                    "Go scheduler: each parseSegments goroutine sends exactly once and the loop receives len(segments) "
                    "times (completion order = an arbitrary permutation)",
                    "oracle: abema/go-mp4 v1.7.1 Unmarshal of Mvhd/Tfhd/Tfdt/Trun and ReadBoxStructure (answers shipped per case)",
                    "oracle: mediacommon v2.9.3 fmp4.Init.Unmarshal (tracks or error shipped per case)",
                    "runtime.MemStats.TotalAlloc as the measure of heap bytes requested by a call",
                    "Model/C24_MulDiv.v muldiv_w as the meaning of durationMp4ToGo/durationGoToMp4 (tied to the source by C24)"]
    assumptions = ["a file is shorter than 2^62 bytes (reader positions do not wrap int64)",
                   "io.ReadFull/Seek/ReadAt on *os.File and bytes.Reader behave as reads of a list of bytes at a position; "
                   "Seek past the end succeeds, to a negative position fails",
                   "fmp4.Init.Unmarshal never returns a track whose TimeScale is 0",
                   "make([]byte, n) is the only allocation of the in-tree code whose size is taken from the file",
                   "recordstore.FindSegments returns a non-empty list or an error",
                   "instants and durations of the directory model are unbounded integers (no time.Time/Duration saturation)"]

    def run_drivers(self, ctx, n, seed, replay=None):
        # other builders add drivers to the same Go package; a half-written one must not break this check:
        # the overlay gets the common helpers and this property's driver files only
        orig = vlib.build_overlay

        def only_mine(workdir, pkgdirs):
            ov = orig(workdir, pkgdirs)
            with open(ov) as fh:
                d = json.load(fh)
            d["Replace"] = {k: v for k, v in d["Replace"].items()
                            if not re.match(r"zz_verif_c\d", os.path.basename(k))
                            or re.match(r"zz_verif_c2[78]_", os.path.basename(k))}
            with open(ov, "w") as fh:
                json.dump(d, fh, indent=1)
            return ov
        vlib.build_overlay = only_mine
        try:
            cases, summaries, errors = Prop.run_drivers(self, ctx, n, seed, replay)
        finally:
            vlib.build_overlay = orig
        # directory-level content, served by the real /list and /get handlers (drivers next to C29's, whose
        # recording generator they use; one go test invocation for both):
        #  - TestVerifC29: whole valid recordings (several segments; with / without the stream-id box in any order);
        #    only "did the handler panic" is judged here (extra_checks);
        #  - TestVerifC29Dirs: recordings in which files were damaged / foreign files were dropped; its cases are
        #    terms of Check.C28.case (CListDir / CGetDir) and are evaluated with the others.
        outp = os.path.join(ctx.workdir, "c28_dirs_%d.jsonl" % n)
        outd = os.path.join(ctx.workdir, "c28_damaged_dirs_%d.jsonl" % n)
        for pth in (outp, outd):
            if os.path.exists(pth):
                os.remove(pth)
        env = {"VERIF_SEED": seed, "VERIF_N": max(60, n // 20), "VERIF_OUT": outp, "VERIF_TIER": ctx.tier, "VERIF_WORK": ctx.workdir,
               "VERIF_OUT_DIRS": outd, "VERIF_N_DIRS": max(240, n // 3)}
        rc, out = vlib.run_driver(ctx.workdir, "internal/playback", "TestVerifC29(Dirs)?", env, timeout=900)
        self.dir_cases = [r for r in vlib.read_jsonl(outp) if "summary" not in r]
        if rc != 0:
            errors.append("directory drivers (TestVerifC29, TestVerifC29Dirs) failed rc=%d:\n%s" % (rc, out[-3000:]))
        summaries.append({"directory_requests": len(self.dir_cases)})
        for r in vlib.read_jsonl(outd):
            if "summary" in r:
                summaries.append(r["summary"])
            else:
                r["driver"] = "TestVerifC29Dirs"
                r["id"] = len(cases)
                cases.append(r)
        return cases, summaries, errors

    def evaluate(self, ctx, cases):
        # the driver's first record carries the definitions of the two base files (every other file is written as
        # an edit of one of them); they go into the header of every cases file
        pre = "".join((c.get("desc") or {}).get("preamble", "") for c in cases if not c.get("coq"))
        old = vlib.CASES_HEADER
        vlib.CASES_HEADER = old + pre.replace("%", "%%")
        try:
            return Prop.evaluate(self, ctx, cases)
        finally:
            vlib.CASES_HEADER = old

    def extra_checks(self, ctx, cases):
        # the witness of the known third-party finding is judged here (same bound as Check.C28.alloc_limit)
        out = []
        for c in getattr(self, "dir_cases", []):
            d = c.get("desc") or {}
            if d.get("status") == 599:   # the handler panicked (the real server exits on it)
                c2 = dict(c)
                c2["coq"] = None
                out.append(dict(kind="spec", case=c2, what="/%s panicked on a recording directory: %s" % (d.get("endpoint"), d.get("query"))))
                break
        for c in cases:
            d = c.get("desc") or {}
            if d.get("gen") != "known":
                continue
            if d.get("observed") == "panic" or d.get("alloc", 0) > 8388608 + 64 * d.get("len", 0):
                out.append(dict(kind="spec", case=c,
                                what="%s on %s: %s, %d heap bytes for a file of %d bytes" % (
                                    d.get("fn"), d.get("what"), d.get("observed"), d.get("alloc", 0), d.get("len", 0))))
        return out

    def known_class(self, case, entries):
        e = Prop.known_class(self, case, entries)
        if e is None:
            return None
        d = case.get("desc", {}) or {}
        # the finding is an allocation/time blow-up inside go-mp4; a panic on the same file is still reported
        if d.get("observed") == "panic" or d.get("gen") != "known":
            return None
        return e


PROP = C28()
