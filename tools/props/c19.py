from check import Prop


class C19(Prop):
    pid = "C19"
    check_mod = "C19"
    drivers = [dict(pkg="internal/core", test="TestVerifPathSM", timeout=600)]
    n_quick, n_thorough, shard = 300, 6000, 100
    ready = False


PROP = C19()
