from check import Prop


class C18(Prop):
    pid = "C18"
    check_mod = "C18"
    drivers = [dict(pkg="internal/core", test="TestVerifPathSM", timeout=600)]
    n_quick, n_thorough, shard = 300, 6000, 100
    ready = False


PROP = C18()
