import os
from concurrent.futures import ThreadPoolExecutor

import vlib
from check import Prop


class C17(Prop):
    pid = "C17"
    check_mod = "C17"
    drivers = [dict(pkg="internal/stream", test="TestVerifC17", timeout=600)]
    n_quick = 400
    n_thorough = 10000
    shard = 100
    search_factor = 4
    ready = True
    manifest = dict(
        text="Coq theorems over EVERY executable label sequence (= every schedule at the granularity of Stream.mutex / the "
             "ring-buffer mutex; every queue size > 0, any number of readers, medias/formats, sub-streams) of a labelled "
             "transition system that transliterates Reader.OnData (the nested map media -> format -> callback), "
             "Stream.AddReader/RemoveReader, Reader.start/stop/run/push, SubStream.WriteUnit's "
             "stale guard, the writeUnitInner fan-out and gortsplib's ring buffer (slots, read/write index, closed flag): "
             "the ring is a bounded FIFO; what a reader got (delivered ++ in flight ++ queued) is a subsequence of the units "
             "written for it by the current sub-stream while it was attached (order, at most once, no foreign format); "
             "written = delivered + in flight + queued + discarded exactly (until Close drops <= queueSize queued items); the "
             "discarded counter moves only in a Write that found the queue full, by one; after RemoveReader returns no "
             "callback of the reader is executable and its record is frozen; a write through a replaced sub-stream is a no-op; "
             "stream formats are keyed as in the code by (media, format) and the subscriber table of a pair holds exactly the "
             "attached readers whose OnData labels name that pair (every format of a media, not only the first); with "
             "SubStream.WriteUnit split into start / RLock / currency comparison / finish, the code's order (lock, then "
             "compare) makes every fine-grained schedule a history with one Write label per call, while the reversed order "
             "has a schedule (proved) that hands a replaced publisher's unit to a reader. "
             "Tied to the code by driving random schedules through the real Stream/Reader/SubStream with channel-gated "
             "callbacks and comparing, after every step, discarded counters, ring occupancy, subscription tables, pulled "
             "items and the delivered lists inside Coq.",
        note="Interleavings are covered at mutex granularity only: data races / the Go memory model are outside the model. "
             "A WriteUnit call is one atomic label (per-reader pushes of two overlapping WriteUnit calls on different formats "
             "can interleave in reality; per-reader statements are unaffected because every per-reader push is atomic and "
             "readers do not share queues). Remuxing (what 'unmodified' means) is C22. Units whose processing fails before "
             "the fan-out (counted as inbound frame errors) are not Write labels.",
        technique="Coq proof: invariant between the LTS state and a per-reader monitor over the labels, preserved by every "
                  "step, lifted to all histories by induction; ring-buffer/FIFO refinement; correspondence by vm_compute")
    rule = ("random schedules (8-48 driver operations, each expanded into its atomic steps) on a real stream whose description "
            "is one of five shapes (formats per media: [1,1], [2,1], [3,1], [2], [1,2,2]; G711/LPCM/Opus with distinct payload "
            "types; always-available streams: [1,1]), queue size 1/2/4/8, up to 4 attached readers; a reader's OnData calls are "
            "steps of their own: any subset of the (media, format) pairs (often several formats of one media; also none / all), "
            "any order, in one third of the cases spread between other steps (a further format is registered after units were "
            "written), always before AddReader; operations: write to any pair through the current or a stale sub-stream, let a "
            "callback return (nil or error), OnData / add reader, RemoveReader (preferring readers with a unit in flight and "
            "units queued), new sub-stream, and on always-available streams the forced 'raced switch' (driver holds "
            "Stream.mutex, a WriteUnit of the current publisher waits for it in another goroutine, the locked part of "
            "SubStream.Initialize is performed, the mutex is released); two thirds of "
            "the cases rarely let callbacks return so queues fill up; the reader goroutines pull eagerly (real behaviour), so "
            "Pull steps are observed, not chosen; class = set of features met (discard, remove-inflight, remove-queued, "
            "stale-write, resub, cb-error, multi-format, late-ondata, raced-switch); non-trivial = any feature; distinct = distinct descriptions")
    trusted_base = ["Coq 8.16.1 kernel + VM (vm_compute for cases)",
                    "in-package Go driver zz_verif_c17_test.go (reads gortsplib's ring buffer through reflect/unsafe under the ring's own mutex; "
                    "reads sync.RWMutex.readerCount to know that a WriteUnit goroutine waits for Stream.mutex; the raced switch repeats the locked part of SubStream.Initialize by hand)",
                    "model Model/C17_WriteLock.v hand-written (RWMutex: exclusive sections are single labels, read-locked sections exclude them)",
                    "model Model/C17_StreamSM.v hand-written (incl. the third-party gortsplib v5 ringbuffer), tied by correspondence",
                    "atomicity of the code sections protected by Stream.mutex and the ring-buffer mutex (sync.Mutex/RWMutex semantics)"]
    assumptions = ["WriteQueueSize is a power of two >= 1 (enforced by conf validation; ringbuffer.New fails otherwise)",
                   "readers register only formats of the stream, OnData is called before AddReader, and a Reader object is added at most once (API preconditions; otherwise the real code panics / restarts the reader / the stream never sees the registration)",
                   "schedules are interleavings of mutex-protected steps: no claim about data races or the Go memory model",
                   "a WriteUnit call whose processing reaches the fan-out is one Write label (justified for the lock/compare/fan-out split by C17_write_call_atomic; the per-reader pushes inside the fan-out are not split)"]

    def run_drivers(self, ctx, n, seed, replay=None):
        cases, summaries, errors = super().run_drivers(ctx, n, seed, replay)
        if ctx.tier == "thorough" and not replay and not getattr(ctx, "c17_race_done", False):
            # supporting evidence only (the theorems say nothing about data races): the same driver under the race
            # detector; a reported race fails the driver and is shown as a broken tie
            ctx.c17_race_done = True
            outp = os.path.join(ctx.workdir, "race.jsonl")
            rc, out = vlib.run_driver(ctx.workdir, "internal/stream", "TestVerifC17",
                                      {"VERIF_SEED": int(seed) + 101, "VERIF_N": 400, "VERIF_OUT": outp,
                                       "VERIF_TIER": ctx.tier, "VERIF_WORK": ctx.workdir}, timeout=1500, race=True)
            summaries.append({"race_detector_run": {"cases": len(vlib.read_jsonl(outp)) - 1, "rc": rc}})
            if rc != 0:
                errors.append("driver TestVerifC17 under -race failed (rc=%d):\n%s" % (rc, out[-6000:]))
        return cases, summaries, errors

    def evaluate(self, ctx, cases):
        """Same as vlib.eval_cases, but coqc runs with -noglob: the schedules are large terms and writing their
        .glob cross-reference file costs 5x the evaluation itself."""
        coq_cases = [(c["id"], c["coq"]) for c in cases if c.get("coq")]
        if not coq_cases:
            return {"mismatches": [], "spec_failures": [], "errors": []}
        shards = [coq_cases[i:i + self.shard] for i in range(0, len(coq_cases), self.shard)]
        paths = []
        for k, sc in enumerate(shards):
            p = os.path.join(ctx.workdir, "cases_%s_%03d.v" % (self.check_mod, k))
            vlib.write_cases_file(p, self.check_mod, sc)
            paths.append(p)

        def one(p):
            cmd = ["timeout", "1200", "coqc", "-noglob", "-Q", os.path.join(vlib.COQ, "theories"), "MTX",
                   "-Q", os.path.join(vlib.COQ, "gen"), "MTXGen", "-w", "-notation-overridden", p]
            return p, vlib.sh(cmd, cwd=ctx.workdir, timeout=1260)

        mm, sf, errs = [], [], []
        with ThreadPoolExecutor(max_workers=min(vlib.NCPU, len(paths))) as ex:
            for p, (rc, out) in ex.map(one, paths):
                a, b = vlib._parse_ids(out, "MM"), vlib._parse_ids(out, "SF")
                if rc != 0 or a is None or b is None:
                    errs.append("%s: rc=%d\n%s" % (os.path.basename(p), rc, out[-3000:]))
                    continue
                mm += a
                sf += b
        return {"mismatches": sorted(mm), "spec_failures": sorted(sf), "errors": errs}


PROP = C17()
