import json
import os

import vlib
from check import Prop

DRIVER_HEAD = '''//go:build verif

package %(pkg)s

import (
	"math"
	"os"
	"testing"
%(imports)s)

var _ = math.MaxInt64

func TestVerifC24(t *testing.T) {
	os.Setenv("VERIF_OUT", os.Getenv("VERIF_OUT")+".%(tag)s")
	r := vNewRand(vSeed())
	out := vOpenOut()
	defer out.Close()
	n := vN()
	rates := []int64{1, 2, 3, 1000, 8000, 44100, 48000, 90000, 999999999, 1000000000, 1000000001, 4294967295, 4294967296}
	pickRate := func(max int64) int64 {
		for {
			var x int64
			switch r.Intn(3) {
			case 0:
				x = vPick(r, rates)
			case 1:
				x = 1 + int64(r.U64()%%200000)
			default:
				x = 1 + int64(r.U64()%%4294967296)
			}
			if x <= max {
				return x
			}
		}
	}
	pickV := func(d int64) int64 {
		switch r.Intn(8) {
		case 0:
			return vPick(r, []int64{0, 1, -1, math.MaxInt64, math.MinInt64, math.MinInt64 + 1, math.MaxInt64 - 1})
		case 1:
			return int64(r.U64())
		case 2:
			return int64(r.U64() >> uint(r.Intn(64)))
		case 3:
			return -int64(r.U64() >> uint(1+r.Intn(63)))
		case 4: // around a multiple of d
			return d*int64(r.Intn(1000000)) + int64(r.Intn(3)) - 1
		case 5:
			return -(d*int64(r.Intn(1000000)) + int64(r.Intn(3)) - 1)
		case 6: // close to the overflow edge of the exact result
			return math.MaxInt64/1000000000*d + int64(r.Intn(5)) - 2
		default:
			return int64(r.Intn(100000)) - 50000
		}
	}
	_ = pickV
	_ = pickRate
'''

LOOP3 = '''
	for i := 0; i < n; i++ {
		rate := pickRate(%(max)s)
		m, d := rate, int64(1000000000)
		if r.Bool() {
			m, d = d, m
		}
		if r.Chance(1, 10) {
			m, d = pickRate(%(max)s), pickRate(%(max)s)
		}
		v := pickV(d)
		obs := int64(%(fn)s(%(t0)s(v), %(t1)s(m), %(t2)s(d)))
		class := "rate*ns"
		if m != 1000000000 && d != 1000000000 {
			class = "free"
		}
		coqf := "%(coq)s"
		if coqf == "" { // the translator could not read this site: no model, the exact-arithmetic spec still applies
			coqf = "(fun _ _ _ => " + cqZ(obs) + ")"
		}
		out.Case(cqApp("K3", coqf, cqZ(v), cqZ(m), cqZ(d), cqZ(obs)),
			map[string]any{"site": "%(where)s", "v": v, "m": m, "d": d, "result": obs}, class, v != 0)
	}
'''

LOOP2 = '''
	for i := 0; i < n; i++ {
		rate := pickRate(%(max)s)
		d := rate
		if "%(kind)s" == "from_nanos" {
			d = 1000000000
		}
		v := pickV(d)
		obs := int64(%(fn)s(%(t0)s(v), %(t1)s(rate)))
		coqf := "%(coq)s"
		if coqf == "" {
			coqf = "(fun _ _ => " + cqZ(obs) + ")"
		}
		out.Case(cqApp("%(ctor)s", coqf, cqZ(v), cqZ(rate), cqZ(obs)),
			map[string]any{"site": "%(where)s", "v": v, "rate": rate, "result": obs}, "%(kind)s", v != 0)
	}
'''


class C24(Prop):
    pid = "C24"
    check_mod = "C24"
    n_quick = 60          # per site
    n_thorough = 6000
    shard = 600
    ready = True
    drivers = [dict(pkg="(generated per package)", test="TestVerifC24")]
    warm_pkgs = ["internal/ntpestimator", "internal/playback", "internal/protocols/hls", "internal/protocols/mpegts",
                 "internal/protocols/rtmp", "internal/protocols/webrtc", "internal/recorder", "internal/stream"]
    rule = ("translator tools/gen/muldiv finds every multiplyAndDivide/multiplyAndDivide2/timestampToDuration/"
            "durationToTimestamp/durationGoToMp4/durationMp4ToGo in /repo/internal and prints its body as Gallina with "
            "wrap64 after each operation; a driver generated per package calls each real helper on boundary inputs "
            "(0, +-1, +-2^63, multiples of d +-1, overflow edge, random 64-bit) x rates (1..2^32) and Coq compares with "
            "the translated definition and with exact arithmetic. Non-trivial = v != 0; distinct = distinct inputs")
    trusted_base = ["Coq 8.16.1 kernel + VM", "translator tools/gen/muldiv (go/ast; fails loudly outside the straight-line "
                    "integer fragment; validated on every run by running the real helpers against the translation)",
                    "generated in-package drivers"]
    assumptions = ["Go int and time.Duration are 64-bit two's complement (wrap64)",
                   "inline scaling expressions that are not one of the named helpers (e.g. mvhd duration in "
                   "segmentFMP4ReadHeader: uint32 * time.Second / uint32, which cannot overflow) are not translated"]
    manifest = dict(
        text="The helper bodies are translated from the current Go sources into Gallina on every run; each translated "
             "site must be convertible to the shape for which `muldiv_exact` is proved for ALL int64 v and all rates in "
             "1..2^32 (exact truncated quotient whenever representable). An edited helper therefore breaks a proof "
             "obligation; the generated drivers then look for the concrete failing input on the real function.",
        note="Trusted: Coq kernel+VM, the go/ast translator (validated by the correspondence run), 64-bit int. Sites on "
             "platforms excluded by build tags (rpicamera arm) are translated but cannot be executed here.",
        technique="translator (Go -> Gallina) + Coq proof over Z with explicit wrap64; correspondence by vm_compute")

    def generate(self, ctx):
        out = os.path.join(vlib.COQ, "gen", "C24_Sites.v")
        notes = os.path.join(ctx.workdir, "c24_sites.json")
        tmp = os.path.join(ctx.workdir, "C24_Sites.v")
        rc, o = vlib.sh(["go", "run", "./muldiv", vlib.REPO, tmp, notes], cwd=os.path.join(vlib.VERIF, "tools", "gen"),
                        env=vlib.go_env(), timeout=300)
        self.sites = json.load(open(notes))["sites"] if os.path.exists(notes) else []
        if os.path.exists(tmp):
            new = open(tmp).read()
            old = open(out).read() if os.path.exists(out) else None
            if new != old:
                with vlib.Lock("coqmake"):
                    open(out, "w").write(new)
        if rc != 0:
            raise RuntimeError("translator failed: " + o[-2000:])
        return ["%s:%d %s -> %s (%s)" % (s["File"], s["Line"], s["Name"], s.get("CoqName") or "UNTRANSLATABLE", s["Kind"]) for s in self.sites]

    def n_cases(self, tier):
        return self.n_quick if tier == "quick" else self.n_thorough

    def run_drivers(self, ctx, n, seed, replay=None):
        sites = getattr(self, "sites", [])
        bypkg = {}
        for s in sites:
            if "arm" in s["File"] or not os.path.isdir(os.path.join(vlib.REPO, s["Pkg"])):
                continue
            if "rpicamera" in s["Pkg"]:
                continue   # build-tagged out on this platform
            bypkg.setdefault(s["Pkg"], []).append(s)
        pkgs = sorted(bypkg)
        ov = vlib.build_overlay(ctx.workdir, pkgs)
        ovj = json.load(open(ov))
        for pkg in pkgs:
            tag = pkg.replace("/", "_")
            uses_time = any("time.Duration" in t for s in bypkg[pkg] for t in s["ParamTypes"])
            src = DRIVER_HEAD % {"pkg": vlib._pkg_name(pkg), "tag": tag, "imports": '\t"time"\n' if uses_time else ""}
            for s in bypkg[pkg]:
                where = "%s:%d %s" % (s["File"], s["Line"], s["Name"])
                mx = "4294967295" if "uint32" in s["ParamTypes"] else "4294967296"
                if s["Kind"] == "muldiv3":
                    src += "\t{\n" + LOOP3 % {"fn": s["Name"], "t0": s["ParamTypes"][0], "t1": s["ParamTypes"][1], "t2": s["ParamTypes"][2],
                                              "coq": s.get("CoqName") or "", "where": where, "max": mx} + "\t}\n"
                else:
                    src += "\t{\n" + LOOP2 % {"fn": s["Name"], "t0": s["ParamTypes"][0], "t1": s["ParamTypes"][1], "coq": s.get("CoqName") or "",
                                              "where": where, "kind": s["Kind"], "ctor": "KTo" if s["Kind"] == "to_nanos" else "KFrom",
                                              "max": mx} + "\t}\n"
            src += "}\n"
            f = os.path.join(ctx.workdir, "zz_verif_c24_%s_test.go" % tag)
            open(f, "w").write(src)
            ovj["Replace"][os.path.join(vlib.REPO, pkg, "zz_verif_c24_test.go")] = f
        json.dump(ovj, open(ov, "w"), indent=1)
        outp = os.path.join(ctx.workdir, "c24_%d.jsonl" % n)
        env = vlib.go_env()
        env.update({"VERIF_SEED": str(seed), "VERIF_N": str(n), "VERIF_OUT": outp, "VERIF_TIER": ctx.tier})
        rc, out = vlib.sh(["go", "test", "-tags", "verif", "-overlay", ov, "-vet=off", "-count=1", "-run", "^TestVerifC24$"] +
                          ["./" + p for p in pkgs], cwd=vlib.REPO, env=env, timeout=1500)
        cases, summaries, errors = [], [], []
        for pkg in pkgs:
            for r in vlib.read_jsonl(outp + "." + pkg.replace("/", "_")):
                if "summary" in r:
                    summaries.append(r["summary"])
                else:
                    r["driver"] = "TestVerifC24@" + pkg
                    r["id"] = len(cases)
                    cases.append(r)
        if rc != 0:
            errors.append("generated drivers failed (rc=%d):\n%s" % (rc, out[-5000:]))
        return cases, summaries, errors


PROP = C24()
