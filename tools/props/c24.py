import json
import os

import vlib
from check import Prop

DRIVER_HEAD = '''//go:build verif

package %(pkg)s

import (
	"math"
	"os"
	"testing"
%(imports)s)

var _ = math.MaxInt64

func TestVerifC24(t *testing.T) {
	os.Setenv("VERIF_OUT", os.Getenv("VERIF_OUT")+".%(tag)s")
	r := vNewRand(vSeed())
	out := vOpenOut()
	defer out.Close()
	n := vN()
	rates := []int64{1, 2, 3, 1000, 8000, 44100, 48000, 90000, 999999999, 1000000000, 1000000001, 4294967295, 4294967296}
	pickRate := func(max int64) int64 {
		for {
			var x int64
			switch r.Intn(3) {
			case 0:
				x = vPick(r, rates)
			case 1:
				x = 1 + int64(r.U64()%%200000)
			default:
				x = 1 + int64(r.U64()%%4294967296)
			}
			if x <= max {
				return x
			}
		}
	}
	pickV := func(d int64) int64 {
		switch r.Intn(8) {
		case 0:
			return vPick(r, []int64{0, 1, -1, math.MaxInt64, math.MinInt64, math.MinInt64 + 1, math.MaxInt64 - 1})
		case 1:
			return int64(r.U64())
		case 2:
			return int64(r.U64() >> uint(r.Intn(64)))
		case 3:
			return -int64(r.U64() >> uint(1+r.Intn(63)))
		case 4: // around a multiple of d
			return d*int64(r.Intn(1000000)) + int64(r.Intn(3)) - 1
		case 5:
			return -(d*int64(r.Intn(1000000)) + int64(r.Intn(3)) - 1)
		case 6: // close to the overflow edge of the exact result
			return math.MaxInt64/1000000000*d + int64(r.Intn(5)) - 2
		default:
			return int64(r.Intn(100000)) - 50000
		}
	}
	_ = pickV
	_ = pickRate
'''

# ---- inline sites (a * b / c outside the named helpers): a recipe per enclosing function drives the real code ----
# Each recipe: imports, body (inside TestVerifC24; %(sitefn)s = Go func giving the Coq site term, %(where)s = file:line), toplevel decls.

RECIPE_PLAYBACK_READHEADER = dict(
    imports=['"bytes"', '"encoding/binary"', '"github.com/bluenviron/mediacommon/v2/pkg/formats/fmp4"',
             '"github.com/bluenviron/mediacommon/v2/pkg/formats/fmp4/seekablebuffer"',
             'mcodecs "github.com/bluenviron/mediacommon/v2/pkg/formats/mp4/codecs"',
             '"github.com/bluenviron/mediamtx/internal/test"'],
    body='''
	{ // %(where)s through segmentFMP4ReadHeader: a real init segment whose mvhd (v0) timescale / duration are patched
		var vbuf seekablebuffer.Buffer
		vinit := fmp4.Init{Tracks: []*fmp4.InitTrack{{ID: 1, TimeScale: 90000,
			Codec: &mcodecs.H264{SPS: test.FormatH264.SPS, PPS: test.FormatH264.PPS}}}}
		if err := vinit.Marshal(&vbuf); err != nil {
			t.Fatal(err)
		}
		base := vbuf.Bytes()
		at := bytes.Index(base, []byte("mvhd"))
		if at < 0 || base[at+4] != 0 {
			t.Fatal("C24: mvhd version 0 box not found in the marshaled init segment")
		}
		const mx = 4294967295
		corners := [][2]uint32{{mx, 1}, {mx, mx}, {mx, 2}, {mx, 3}, {0, 1}, {0, mx}, {1, mx}, {1, 1}, {mx - 1, mx}, {mx, mx - 1},
			{2147483648, 1}, {2147483647, 1}, {mx, 1000000000}, {1000000000, mx}, {mx, 90000}, {90000, 1}, {1, 1000000000},
			{1000000001, 1000000000}, {999999999, 1000000000}, {mx, 999999999}, {5, 0}, {0, 0}}
		u32s := []uint32{0, 1, 2, 3, 999, 1000, 90000, 1000000000, 2147483647, 2147483648, mx - 1, mx}
		pick := func() uint32 {
			switch r.Intn(4) {
			case 0:
				return vPick(r, u32s)
			case 1:
				return uint32(r.U64() %% 200000)
			case 2:
				return uint32(r.U64() >> uint(32+r.Intn(32)))
			default:
				return uint32(r.U64())
			}
		}
		for i := 0; i < len(corners)+n; i++ {
			a, c := pick(), pick()
			if i < len(corners) {
				a, c = corners[i][0], corners[i][1]
			}
			b := append([]byte(nil), base...)
			binary.BigEndian.PutUint32(b[at+16:], c)
			binary.BigEndian.PutUint32(b[at+20:], a)
			_, d, err := segmentFMP4ReadHeader(bytes.NewReader(b))
			if c == 0 {
				if err == nil {
					t.Fatalf("C24: mvhd timescale 0 accepted")
				}
				continue // the divisor is checked before the site is reached
			}
			if err != nil {
				t.Fatalf("C24: segmentFMP4ReadHeader(duration=%%d timescale=%%d): %%v", a, c, err)
			}
			class := "inline uint32*1e9/uint32"
			if a == mx || c == mx || c == 1 {
				class += " (boundary)"
			}
			out.Case(cqApp("KInl", %(sitefn)s(int64(d)), cqZ(int64(a)), "1000000000", cqZ(int64(c)), cqZ(int64(d))),
				map[string]any{"site": "%(where)s", "a": a, "b": 1000000000, "c": c, "result": int64(d)}, class, a != 0)
		}
	}
''',
    toplevel="")

RECIPE_RTMP_FROMSTREAM = dict(
    imports=['"io"', '"net"', '"sync"', '"time"', '"github.com/bluenviron/gortmplib/pkg/amf0"',
             '"github.com/bluenviron/gortmplib/pkg/message"', '"github.com/bluenviron/gortsplib/v5/pkg/description"',
             '"github.com/bluenviron/gortsplib/v5/pkg/format"', '"github.com/bluenviron/mediamtx/internal/stream"',
             '"github.com/bluenviron/mediamtx/internal/test"', '"github.com/bluenviron/mediamtx/internal/unit"'],
    body='''
	{ // %(where)s through FromStream: MPEG-1 audio units of several frames are written to a real stream; the messages
		// FromStream hands to the RTMP connection (a recording gortmplib.Conn) carry timestampToDuration(pts, 90000) of each
		// frame, from which the tick advance of the site (SampleCount * ClockRate / SampleRate) is recovered exactly.
		// RTMP only carries MPEG-1 layer 3 (1152 samples); 48000 and 32000 Hz need the second (multitrack) audio track.
		medias := []*description.Media{
			{Type: description.MediaTypeAudio, Formats: []format.Format{&format.MPEG1Audio{}}},
			{Type: description.MediaTypeAudio, Formats: []format.Format{&format.MPEG1Audio{}}},
		}
		strm := &stream.Stream{OrigDesc: &description.Session{Medias: medias}, WriteQueueSize: 512, RTPMaxPayloadSize: 1450,
			Parent: test.NilLogger}
		if err := strm.Initialize(); err != nil {
			t.Fatal(err)
		}
		defer strm.Close()
		sub := &stream.SubStream{Stream: strm, UseRTPPackets: false}
		if err := sub.Initialize(); err != nil {
			t.Fatal(err)
		}
		conn := &vC24Conn{}
		n1, n2 := net.Pipe()
		defer n1.Close()
		defer n2.Close()
		go io.Copy(io.Discard, n2)
		rd := &stream.Reader{Parent: test.NilLogger}
		if err := FromStream(strm.OrigDesc, strm.OutDescCopy(), rd, conn, n1, 10*time.Second, amf0.StrictArray{"mp4a"}); err != nil {
			t.Fatal(err)
		}
		strm.AddReader(rd)
		defer strm.RemoveReader(rd)
		conn.reset()
		ticksOf := func(d time.Duration) (int64, bool) { // the tick count whose conversion is d
			t0 := int64(d) / 100000 * 9
			for x := t0 - 20; x <= t0+20; x++ {
				if timestampToDuration(x, 90000) == d {
					return x, true
				}
			}
			return 0, false
		}
		type combo struct {
			media int
			srIdx byte
			rate  int64
		}
		combos := []combo{{0, 0, 44100}, {1, 0, 44100}, {1, 1, 48000}, {1, 2, 32000}}
		starts := []int64{0, 1, 89999, 90000 * 5, 1 << 31, 1 << 32, 1 << 40, -1, -90000, -(1 << 33)}
		rounds := 1 + n/30
		for round := 0; round < rounds; round++ {
			for _, cb := range combos {
				for _, p0 := range starts {
					if round > 0 {
						p0 = int64(r.U64() >> uint(15+r.Intn(40)))
						if r.Intn(4) == 0 {
							p0 = -p0
						}
					}
					frames := 2 + r.Intn(3)
					var pl unit.PayloadMPEG1Audio
					for k := 0; k < frames; k++ {
						pl = append(pl, []byte{0xff, 0xfa, 0x50 | cb.srIdx<<2 | byte(r.Intn(2))<<1, byte(r.Intn(4)) << 6, 0x00})
					}
					conn.reset()
					sub.WriteUnit(medias[cb.media], medias[cb.media].Formats[0], &unit.Unit{PTS: p0, Payload: pl})
					dts := conn.wait(frames, rd)
					if len(dts) != frames {
						t.Fatalf("C24: %%d of %%d MPEG-1 audio messages arrived (rate %%d, track %%d)", len(dts), frames, cb.rate, cb.media)
					}
					prev, ok := ticksOf(dts[0])
					if !ok || prev != p0 {
						t.Fatalf("C24: first frame of the unit: DTS %%v is not the conversion of PTS %%d", dts[0], p0)
					}
					for k := 1; k < frames; k++ {
						cur, ok := ticksOf(dts[k])
						if !ok {
							t.Fatalf("C24: DTS %%v is not the conversion of a tick count", dts[k])
						}
						out.Case(cqApp("KInl", %(sitefn)s(cur-prev), "1152", "90000", cqZ(cb.rate), cqZ(cur-prev)),
							map[string]any{"site": "%(where)s", "a": 1152, "b": 90000, "c": cb.rate, "result": cur - prev,
								"unit_pts": p0, "frame": k, "track": cb.media},
							"inline int64(samples)*int64(clockRate)/int64(sampleRate)", true)
						prev = cur
					}
				}
			}
		}
	}
''',
    toplevel='''
// vC24Conn is a gortmplib.Conn that records what FromStream writes.
type vC24Conn struct {
	mu  sync.Mutex
	dts []time.Duration
}

func (c *vC24Conn) BytesReceived() uint64 { return 0 }
func (c *vC24Conn) BytesSent() uint64     { return 0 }
func (c *vC24Conn) Read() (message.Message, error) {
	return nil, io.EOF
}

func (c *vC24Conn) Write(m message.Message) error {
	c.mu.Lock()
	defer c.mu.Unlock()
	switch x := m.(type) {
	case *message.Audio:
		c.dts = append(c.dts, x.DTS)
	case *message.AudioExMultitrack:
		if w, ok := x.Wrapped.(*message.AudioExCodedFrames); ok {
			c.dts = append(c.dts, w.DTS)
		}
	}
	return nil
}

func (c *vC24Conn) reset() {
	c.mu.Lock()
	c.dts = nil
	c.mu.Unlock()
}

func (c *vC24Conn) wait(n int, rd *stream.Reader) []time.Duration {
	deadline := time.Now().Add(5 * time.Second)
	for {
		c.mu.Lock()
		got := append([]time.Duration(nil), c.dts...)
		c.mu.Unlock()
		if len(got) >= n || time.Now().After(deadline) {
			return got
		}
		select {
		case <-rd.Error():
			return got
		case <-time.After(200 * time.Microsecond):
		}
	}
}
''')

# (package, enclosing function, regexp on the expression) -> recipe. A recipe ALWAYS runs: when the translator no longer
# finds (or cannot translate) its site, the observed values are still judged against exact arithmetic (no model), so a
# rewrite that loses the a*b/c shape and the exactness is caught, while a harmless refactor stays silent.
# A site without a recipe is covered by the proof over its translation only.
INLINE_RECIPES = [
    dict(pkg="internal/playback", func="segmentFMP4ReadHeader", expr=r"mvhd", recipe=RECIPE_PLAYBACK_READHEADER,
         what="mvhd duration * time.Second / timescale in segmentFMP4ReadHeader"),
    dict(pkg="internal/protocols/rtmp", func="FromStream", expr=r"SampleCount", recipe=RECIPE_RTMP_FROMSTREAM,
         what="MPEG-1 audio frame advance (samples * clock rate / sample rate) in FromStream"),
]
INLINE_NOT_DRIVEN = [
    dict(pkg="internal/recorder", func="(*formatFMP4).initialize", expr=r"SampleCount",
         why="the value only feeds the local `dt`, which is never read (the MPEG-1 audio sample is written with "
             "dts: u.PTS + u.PTS): nothing observable depends on it"),
]


# end-to-end drivers of real output paths (call-site layer): static in-package files under harness/inpkg/<pkg>/zz_verif_c24*_test.go
# (injected by vlib.build_overlay), called from the generated TestVerifC24 of their package
E2E_DRIVERS = [
    ("internal/protocols/mpegts", "vC24FromStream(t, out, r, n)"),
    ("internal/recorder", "vC24RecorderTS(t, out, r, n)"),
    ("internal/protocols/rtmp", "vC24RtmpFromStream(t, out, r, n)"),
]


def _call_table_diff(calls):
    """Names the call sites of the current sources that differ from the rows of Model/C24_CallSites.v (the Coq tie
    C24_call_sites_tied is what fails; this only tells which rows)."""
    import re
    import difflib
    rows = []
    pat = re.compile(r'^\s*mk_cs "((?:[^"]|"")*)" "((?:[^"]|"")*)" "((?:[^"]|"")*)" "((?:[^"]|"")*)" "((?:[^"]|"")*)" (.*?);?\s*$')
    for line in open(os.path.join(vlib.COQ, "theories", "Model", "C24_CallSites.v")):
        m = pat.match(line)
        if m:
            rows.append(tuple(x.replace('""', '"') for x in m.groups()[:5]) + (m.group(6),))
    cur = [(c["File"] + " " + c["Func"], c["Callee"], c["Value"], c["From"], c["To"]) for c in calls]
    notes = ["call-site inventory: %d calls of scaling helpers in the sources, %d rows in Model/C24_CallSites.v (%s)" % (
        len(cur), len(rows), ", ".join("%s %d" % (k, sum(1 for r in rows if r[5].startswith(k))) for k in ("QVar", "(QFrame", "QAccum", "QDiff", "QExpr")))]
    a = ["%s | %s(%s) | %s -> %s" % r[:5] for r in rows]
    b = ["%s | %s(%s) | %s -> %s" % r for r in cur]
    for d in difflib.unified_diff(a, b, "model table", "sources", n=0, lineterm=""):
        if d[:1] in "+-" and d[:3] not in ("+++", "---"):
            notes.append("CALL SITE CHANGED (%s): %s" % ("in the sources, not in the table" if d[0] == "+" else "in the table, not in the sources", d[1:]))
    return notes


def _match(table, s):
    import re
    for e in table:
        if e["pkg"] == s["Pkg"] and e["func"] == s["Func"] and re.search(e["expr"], s["Expr"]):
            return e
    return None

# range fact (key of tools/gen/muldiv_inline rangeFacts) -> Go that re-validates it on the real library, emitting KFact
FACT_MPEG1 = dict(
    imports=['"github.com/bluenviron/mediacommon/v2/pkg/codecs/mpeg1audio"'],
    body='''
	{ // range facts about mpeg1audio.FrameHeader: every 4-byte header prefix 0xff b1 b2 b3 (2^24) that Unmarshal accepts
		minC, maxC, minR, maxR, accepted := int64(math.MaxInt64), int64(math.MinInt64), int64(math.MaxInt64), int64(math.MinInt64), 0
		buf := []byte{0xff, 0, 0, 0, 0}
		for x := 0; x < 1<<24; x++ {
			buf[1], buf[2], buf[3] = byte(x>>16), byte(x>>8), byte(x)
			var h mpeg1audio.FrameHeader
			if h.Unmarshal(buf) != nil {
				continue
			}
			accepted++
			minC, maxC = min(minC, int64(h.SampleCount())), max(maxC, int64(h.SampleCount()))
			minR, maxR = min(minR, int64(h.SampleRate)), max(maxR, int64(h.SampleRate))
		}
		if accepted == 0 {
			t.Fatal("C24: no MPEG-1 audio header accepted")
		}
%(cases)s
	}
''')
FACTS = {
    "(github.com/bluenviron/mediacommon/v2/pkg/codecs/mpeg1audio.FrameHeader).SampleCount":
        ("mpeg1", '\t\tout.Case(cqApp("KFact", "%(lo)s", "%(hi)s", cqZ(minC), cqZ(maxC)), map[string]any{"fact": "FrameHeader.SampleCount()", '
                  '"assumed": "[%(lo)s, %(hi)s]", "observed_min": minC, "observed_max": maxC, "headers_accepted": accepted}, "range fact", true)'),
    "github.com/bluenviron/mediacommon/v2/pkg/codecs/mpeg1audio.FrameHeader.SampleRate":
        ("mpeg1", '\t\tout.Case(cqApp("KFact", "%(lo)s", "%(hi)s", cqZ(minR), cqZ(maxR)), map[string]any{"fact": "FrameHeader.SampleRate", '
                  '"assumed": "[%(lo)s, %(hi)s]", "observed_min": minR, "observed_max": maxR, "headers_accepted": accepted}, "range fact", true)'),
    "(*github.com/bluenviron/gortsplib/v5/pkg/format.MPEG1Audio).ClockRate":
        ("plain", '\t{\n\t\tcr := int64((&format.MPEG1Audio{}).ClockRate())\n\t\tout.Case(cqApp("KFact", "%(lo)s", "%(hi)s", cqZ(cr), cqZ(cr)), '
                  'map[string]any{"fact": "format.MPEG1Audio.ClockRate()", "assumed": "[%(lo)s, %(hi)s]", "observed": cr}, "range fact", true)\n\t}'),
}
FACT_IMPORTS = {"plain": ['"github.com/bluenviron/gortsplib/v5/pkg/format"'], "mpeg1": FACT_MPEG1["imports"]}
FACTS_PKG = "internal/protocols/rtmp"    # the package whose generated driver validates the facts (already driven, imports both libraries)

LOOP3 = '''
	for i := 0; i < n; i++ {
		rate := pickRate(%(max)s)
		m, d := rate, int64(1000000000)
		if r.Bool() {
			m, d = d, m
		}
		if r.Chance(1, 10) {
			m, d = pickRate(%(max)s), pickRate(%(max)s)
		}
		v := pickV(d)
		obs := int64(%(fn)s(%(t0)s(v), %(t1)s(m), %(t2)s(d)))
		class := "rate*ns"
		if m != 1000000000 && d != 1000000000 {
			class = "free"
		}
		coqf := "%(coq)s"
		if coqf == "" { // the translator could not read this site: no model, the exact-arithmetic spec still applies
			coqf = "(fun _ _ _ => " + cqZ(obs) + ")"
		}
		out.Case(cqApp("K3", coqf, cqZ(v), cqZ(m), cqZ(d), cqZ(obs)),
			map[string]any{"site": "%(where)s", "v": v, "m": m, "d": d, "result": obs}, class, v != 0)
	}
'''

LOOP2 = '''
	for i := 0; i < n; i++ {
		rate := pickRate(%(max)s)
		d := rate
		if "%(kind)s" == "from_nanos" {
			d = 1000000000
		}
		v := pickV(d)
		obs := int64(%(fn)s(%(t0)s(v), %(t1)s(rate)))
		coqf := "%(coq)s"
		if coqf == "" {
			coqf = "(fun _ _ => " + cqZ(obs) + ")"
		}
		out.Case(cqApp("%(ctor)s", coqf, cqZ(v), cqZ(rate), cqZ(obs)),
			map[string]any{"site": "%(where)s", "v": v, "rate": rate, "result": obs}, "%(kind)s", v != 0)
	}
'''


class C24(Prop):
    pid = "C24"
    check_mod = "C24"
    n_quick = 60          # per site
    n_thorough = 6000
    shard = 600
    ready = True
    drivers = [dict(pkg="(generated per package)", test="TestVerifC24")]
    warm_pkgs = ["internal/ntpestimator", "internal/playback", "internal/protocols/hls", "internal/protocols/mpegts",
                 "internal/protocols/rtmp", "internal/protocols/webrtc", "internal/recorder", "internal/stream"]
    rule = ("translator tools/gen/muldiv finds every multiplyAndDivide/multiplyAndDivide2/timestampToDuration/"
            "durationToTimestamp/durationGoToMp4/durationMp4ToGo in /repo/internal and prints its body as Gallina with "
            "wrap64 after each operation; a driver generated per package calls each real helper on boundary inputs "
            "(0, +-1, +-2^63, multiples of d +-1, overflow edge, random 64-bit) x rates (1..2^32) and Coq compares with "
            "the translated definition and with exact arithmetic. Inline sites: translator tools/gen/muldiv_inline (go/ast + "
            "go/types) finds every integer a*b/c outside those helpers with a time unit / clock rate / ...Rate / ...TimeScale "
            "operand and prints it with the wrap of every conversion and operation plus the operand ranges; recipes drive the "
            "enclosing real function (segmentFMP4ReadHeader on init segments with patched mvhd: corner grid + random uint32 "
            "pairs; rtmp FromStream on a real stream with a recording gortmplib.Conn: every sample rate RTMP can carry x unit "
            "PTS boundary values, tick advance recovered exactly from consecutive message timestamps); the library range "
            "facts used by the theorem are re-measured over all 2^24 MPEG audio header prefixes (KFact cases). "
            "Call-site layer: tools/gen/muldiv_calls lists every CALL of a scaling helper (value, source rate, destination rate "
            "expressions) and Coq demands equality with the table of Model/C24_CallSites.v, which names the quantity each call "
            "converts (variable, frame position x + i*spf, distance x - y); the real mpegts.FromStream is run end to end on a real "
            "stream with one track per converting branch (AC-3 at 44.1/48/32 kHz with 1..5 frames per unit, MPEG-4 Audio at "
            "44.1/48/32/22.05/8 kHz, LATM with/without in-band config, Opus, MPEG-1 Audio, KLV) x unit PTS (0, +-1, around the "
            "clock rate, 2^31, 2^32, 2^33, 2^40, negative, random) and the raw 33-bit PTS of every PES header is compared with "
            "the exact conversion of that frame's position (KTs cases, classes `ts-out <track> [multi-frame-unit] [frame>0]`); the "
            "MPEG-TS recorder is driven the same way (one real Recorder per track x start PTS, the recorded .ts parsed: KTsRec, "
            "`ts-rec ...`) and so are the per-frame branches of rtmp.FromStream (AC-3, MPEG-4 Audio, Opus with mixed packet "
            "durations; DTS of every message vs the exact conversion of the frame position: KRtmpDur, `rtmp-out ...`). "
            "Non-trivial = v != 0 (a != 0 for inline sites); distinct = distinct inputs")
    trusted_base = ["Coq 8.16.1 kernel + VM", "translator tools/gen/muldiv (go/ast; fails loudly outside the straight-line "
                    "integer fragment; validated on every run by running the real helpers against the translation)",
                    "translator tools/gen/muldiv_inline (go/ast + go/types via golang.org/x/tools/go/packages v0.50.0 from the module "
                    "cache; fails loudly on an a*b/c it cannot type or translate; validated by the correspondence run on the "
                    "driven sites)",
                    "range facts of tools/gen/muldiv_inline (mpeg1audio.FrameHeader.SampleCount() in 1..1152, .SampleRate in "
                    "16000..48000 after a successful Unmarshal, format.MPEG1Audio.ClockRate() = 90000): re-validated on the real "
                    "libraries by every run (KFact cases); that the two sites only read a header after a successful Unmarshal is "
                    "by inspection",
                    "call-site inventory tools/gen/muldiv_calls (go/ast; syntactic: calls by helper name, locals resolved inside the "
                    "enclosing closure) and the hand classification of the quantity column of Model/C24_CallSites.v",
                    "generated in-package drivers + static end-to-end drivers (hand-written PES header parser: raw 33-bit PTS; "
                    "gortmplib message types for the DTS)"]
    assumptions = ["Go int and time.Duration are 64-bit two's complement (wrap64)",
                   "inline sites are recognised by shape: an integer `x * y / z` (left operand of `/` is a `*`) with a time "
                   "unit, a literal clock rate or a ...Rate / ...TimeScale name among its operands; a scaling split over "
                   "several statements, done in floating point (playback/on_get.go: secs * float64(time.Second)) or by a "
                   "single operation (recorder/format_fmp4_segment.go: d / time.Millisecond) is listed in the translator "
                   "notes but not translated",
                   "end-to-end coverage of the call sites: mpegts.FromStream, recorder.formatMPEGTS and the per-frame branches of "
                   "rtmp.FromStream are run for real; the other inventoried call sites (webrtc, hls, rtmp to_stream, playback, fMP4 "
                   "recorder) are tied and proved per row but an edit there is flagged without a concrete replay",
                   "recorder/format_fmp4.go `dt += SampleCount * time.Second / SampleRate` is proved over its translation "
                   "but cannot be driven: `dt` is never read"]
    manifest = dict(
        text="The helper bodies are translated from the current Go sources into Gallina on every run; each translated "
             "site must be convertible to the shape for which `muldiv_exact` is proved for ALL int64 v and all rates in "
             "1..2^32 (exact truncated quotient whenever representable). An edited helper therefore breaks a proof "
             "obligation; the generated drivers then look for the concrete failing input on the real function. The inline "
             "`a * b / c` scaling expressions outside the helpers (mvhd duration in playback, MPEG-1 audio frame advance in "
             "the RTMP writer and in the fMP4 recorder) are translated the same way, each with the ranges of its operands, "
             "and proved exact for ALL operands in those ranges; with the Go types' ranges alone the last two are proved to "
             "overflow (`C24_inline_typeonly_refuted`), so the library range facts they rest on are re-measured on every run. "
             "What the CALLS convert is covered too: every call of a scaling helper is inventoried from the sources on every run "
             "and must equal the model's table (`C24_call_sites_tied`), each row naming the converted quantity and proved to "
             "yield its exact conversion (`C24_call_sites_exact`); for the MPEG-TS output path every written timestamp is proved "
             "to be the exact conversion of the frame's position, unit timestamp + i frame lengths (`C24_ts_written_exact`), with "
             "the loop-hoisted and accumulated variants refuted (`C24_hoisted_conversion_refuted`, 44.1 kHz AC-3), and the real "
             "FromStream is run end to end with several frames per unit on every run.",
        note="Trusted: Coq kernel+VM, the go/ast translators (validated by the correspondence run), 64-bit int, the recognition "
             "of inline sites by shape (x * y / z with a rate-like operand). Sites on "
             "platforms excluded by build tags (rpicamera arm) are translated but cannot be executed here.",
        technique="translator (Go -> Gallina) + Coq proof over Z with explicit wrap64; correspondence by vm_compute")

    def generate(self, ctx):
        out = os.path.join(vlib.COQ, "gen", "C24_Sites.v")
        notes = os.path.join(ctx.workdir, "c24_sites.json")
        tmp = os.path.join(ctx.workdir, "C24_Sites.v")
        rc, o = vlib.sh(["go", "run", "./muldiv", vlib.REPO, tmp, notes], cwd=os.path.join(vlib.VERIF, "tools", "gen"),
                        env=vlib.go_env(), timeout=300)
        self.sites = json.load(open(notes))["sites"] if os.path.exists(notes) else []
        if os.path.exists(tmp):
            new = open(tmp).read()
            old = open(out).read() if os.path.exists(out) else None
            if new != old:
                with vlib.Lock("coqmake"):
                    open(out, "w").write(new)
        # inline sites (a * b / c outside the named helpers): second translator, needs go/types (x/tools, offline)
        out2 = os.path.join(vlib.COQ, "gen", "C24_Inline.v")
        notes2 = os.path.join(ctx.workdir, "c24_inline.json")
        tmp2 = os.path.join(ctx.workdir, "C24_Inline.v")
        rc2, o2 = vlib.sh(["go", "run", ".", vlib.REPO, tmp2, notes2], cwd=os.path.join(vlib.VERIF, "tools", "gen", "muldiv_inline"),
                          env=vlib.go_env(), timeout=600)
        inl = json.load(open(notes2)) if os.path.exists(notes2) else {}
        self.inline_sites = inl.get("sites") or []
        if os.path.exists(tmp2):
            new = open(tmp2).read()
            old = open(out2).read() if os.path.exists(out2) else None
            if new != old:
                with vlib.Lock("coqmake"):
                    open(out2, "w").write(new)
        # call-site inventory (every CALL of a scaling helper, with value / rate expressions), tied to Model/C24_CallSites.v
        out3 = os.path.join(vlib.COQ, "gen", "C24_Calls.v")
        notes3 = os.path.join(ctx.workdir, "c24_calls.json")
        tmp3 = os.path.join(ctx.workdir, "C24_Calls.v")
        rc3, o3 = vlib.sh(["go", "run", "./muldiv_calls", vlib.REPO, tmp3, notes3], cwd=os.path.join(vlib.VERIF, "tools", "gen"),
                          env=vlib.go_env(), timeout=300)
        if os.path.exists(tmp3):
            new = open(tmp3).read()
            old = open(out3).read() if os.path.exists(out3) else None
            if new != old:
                with vlib.Lock("coqmake"):
                    open(out3, "w").write(new)
        self.call_notes = _call_table_diff(json.load(open(notes3))["calls"] if os.path.exists(notes3) else [])
        if rc3 != 0:
            raise RuntimeError("call-site inventory failed: " + o3[-2000:])
        if rc != 0:
            raise RuntimeError("translator failed: " + o[-2000:])
        if rc2 != 0:
            raise RuntimeError("inline translator failed: " + o2[-2000:])
        notes = ["%s:%d %s -> %s (%s)" % (s["File"], s["Line"], s["Name"], s.get("CoqName") or "UNTRANSLATABLE", s["Kind"]) for s in self.sites]
        for s in self.inline_sites:
            nd = _match(INLINE_NOT_DRIVEN, s)
            how = "driven through " + s["Func"] if _match(INLINE_RECIPES, s) else \
                "NOT DRIVEN (proof over the translation only): " + (nd["why"] if nd else "no driver recipe for " + s["Func"])
            notes.append("inline %s:%d %s : %s -> %s [%s]; %s" % (
                s["File"], s["Line"], s["Expr"], s["ExprType"], s["CoqName"] or "UNTRANSLATABLE",
                ", ".join("%s in [%s, %s]%s" % ("abc"[i], o["Lo"], o["Hi"], " (range fact)" if o["Fact"] else "") for i, o in enumerate(s["Ops"])), how))
        for o in inl.get("ignored") or []:
            notes.append("a*b/c without a time unit / clock rate / ...Rate / ...TimeScale operand (not a timestamp scaling, left alone): "
                         "%s:%d %s" % (o["File"], o["Line"], o["Expr"]))
        notes.extend(self.call_notes)
        for o in inl.get("others") or []:
            notes.append("single-operation scaling (not of the a*b/c form, not translated): %s:%d %s" % (o["File"], o["Line"], o["Expr"]))
        return notes

    def n_cases(self, tier):
        return self.n_quick if tier == "quick" else self.n_thorough

    def run_drivers(self, ctx, n, seed, replay=None):
        sites = getattr(self, "sites", [])
        bypkg = {}
        for s in sites:
            if "arm" in s["File"] or not os.path.isdir(os.path.join(vlib.REPO, s["Pkg"])):
                continue
            if "rpicamera" in s["Pkg"]:
                continue   # build-tagged out on this platform
            bypkg.setdefault(s["Pkg"], []).append(s)
        inl_bypkg = {}
        facts = {}
        for rc_ in INLINE_RECIPES:
            if not os.path.isdir(os.path.join(vlib.REPO, rc_["pkg"])):
                continue
            found = [s for s in getattr(self, "inline_sites", []) if _match([rc_], s) and s.get("CoqName")]
            site = found[0] if found else None
            inl_bypkg.setdefault(rc_["pkg"], []).append((rc_, site))
            bypkg.setdefault(rc_["pkg"], [])
        for s in getattr(self, "inline_sites", []):
            for o in s["Ops"]:
                if o["Fact"]:
                    if o["Fact"] not in FACTS:
                        raise RuntimeError("range fact without a validation recipe: " + o["Fact"])
                    facts[o["Fact"]] = (o["Lo"], o["Hi"])
        if facts:
            bypkg.setdefault(FACTS_PKG, [])
        for e2e_pkg, _ in E2E_DRIVERS:
            if os.path.isdir(os.path.join(vlib.REPO, e2e_pkg)):
                bypkg.setdefault(e2e_pkg, [])
        pkgs = sorted(bypkg)
        ov = vlib.build_overlay(ctx.workdir, pkgs)
        ovj = json.load(open(ov))
        for pkg in pkgs:
            tag = pkg.replace("/", "_")
            uses_time = any("time.Duration" in t for s in bypkg[pkg] for t in s["ParamTypes"])
            imports = set(['"time"'] if uses_time else [])
            inline_src, toplevel = "", ""
            for rc_, s in inl_bypkg.get(pkg, []):
                rec = rc_["recipe"]
                imports.update(rec["imports"])
                if s:
                    sitefn = '(func(int64) string { return "%s_site" })' % s["CoqName"]
                    where = ("%s:%d %s" % (s["File"], s["Line"], s["Expr"])).replace('"', "'")
                else:   # no translated site: judged against exact arithmetic only
                    sitefn = ('(func(o int64) string { return "(mk_inline_site (fun _ _ _ => " + cqZ(o) + ") (0, 0) (0, 0) (0, 0) rng_int64)" })')
                    where = "%s: %s (no site translated here on this run)" % (rc_["pkg"], rc_["what"])
                inline_src += rec["body"] % {"sitefn": sitefn, "where": where}
                if rec["toplevel"] not in toplevel:
                    toplevel += rec["toplevel"]
            if facts and pkg == FACTS_PKG:
                mpeg1 = []
                for k in sorted(facts):
                    kind, tmpl = FACTS[k]
                    imports.update(FACT_IMPORTS[kind])
                    line = tmpl % {"lo": facts[k][0], "hi": facts[k][1]}
                    if kind == "mpeg1":
                        mpeg1.append(line)
                    else:
                        inline_src += line + "\n"
                if mpeg1:
                    inline_src += FACT_MPEG1["body"] % {"cases": "\n".join(mpeg1)}
            for e2e_pkg, e2e_call in E2E_DRIVERS:
                if pkg == e2e_pkg:
                    inline_src += "\t" + e2e_call + "\n"
            src = DRIVER_HEAD % {"pkg": vlib._pkg_name(pkg), "tag": tag, "imports": "".join("\t%s\n" % i for i in sorted(imports))}
            for s in bypkg[pkg]:
                where = "%s:%d %s" % (s["File"], s["Line"], s["Name"])
                mx = "4294967295" if "uint32" in s["ParamTypes"] else "4294967296"
                if s["Kind"] == "muldiv3":
                    src += "\t{\n" + LOOP3 % {"fn": s["Name"], "t0": s["ParamTypes"][0], "t1": s["ParamTypes"][1], "t2": s["ParamTypes"][2],
                                              "coq": s.get("CoqName") or "", "where": where, "max": mx} + "\t}\n"
                else:
                    src += "\t{\n" + LOOP2 % {"fn": s["Name"], "t0": s["ParamTypes"][0], "t1": s["ParamTypes"][1], "coq": s.get("CoqName") or "",
                                              "where": where, "kind": s["Kind"], "ctor": "KTo" if s["Kind"] == "to_nanos" else "KFrom",
                                              "max": mx} + "\t}\n"
            src += inline_src + "}\n" + toplevel
            f = os.path.join(ctx.workdir, "zz_verif_c24_%s_test.go" % tag)
            open(f, "w").write(src)
            ovj["Replace"][os.path.join(vlib.REPO, pkg, "zz_verif_c24_test.go")] = f
        json.dump(ovj, open(ov, "w"), indent=1)
        outp = os.path.join(ctx.workdir, "c24_%d.jsonl" % n)
        env = vlib.go_env()
        env.update({"VERIF_SEED": str(seed), "VERIF_N": str(n), "VERIF_OUT": outp, "VERIF_TIER": ctx.tier})
        rc, out = vlib.sh(["go", "test", "-tags", "verif", "-overlay", ov, "-vet=off", "-count=1", "-run", "^TestVerifC24$"] +
                          ["./" + p for p in pkgs], cwd=vlib.REPO, env=env, timeout=1500)
        cases, summaries, errors = [], [], []
        for pkg in pkgs:
            for r in vlib.read_jsonl(outp + "." + pkg.replace("/", "_")):
                if "summary" in r:
                    summaries.append(r["summary"])
                else:
                    r["driver"] = "TestVerifC24@" + pkg
                    r["id"] = len(cases)
                    cases.append(r)
        if rc != 0:
            errors.append("generated drivers failed (rc=%d):\n%s" % (rc, out[-5000:]))
        return cases, summaries, errors


PROP = C24()
