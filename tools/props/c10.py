import json
import os
import re

import vlib
from check import Prop


class C10(Prop):
    pid = "C10"
    check_mod = "C10"
    drivers = [dict(pkg="internal/conf", test="TestVerifC10")]
    n_quick = 1000
    n_thorough = 20000
    shard = 100
    search_factor = 3           # the deterministic one-parameter sweep is part of every run; the search only adds random documents
    ready = True
    manifest = dict(
        text="Coq theorems: (1) decrypt.Decrypt after the fix: commit never reaches an out-of-range slice, for all byte "
             "strings and keys and whatever base64 decoding / secretbox return (also through loadFromFile with the legacy "
             "and the current key), and a successful decryption used nonce = first 24 bytes, box = rest; the pinned code "
             "panics on every input decoding to < 24 bytes; (2) the environment loader's map / empty-list / sub-key steps "
             "after their fix: commits do not panic; (3) x > 0 and x & (x-1) = 0 iff x is a power of two (bit-level, all "
             "of Z); (4) a Gallina transliteration of Conf.Validate and Path.validate - every check whose inputs are plain "
             "fields, in code order, with the deprecated-parameter migrations - only returns configurations satisfying the "
             "documented constraints: positive timeouts, power-of-two write queue, UDP payload <= 1472, authentication "
             "(no empty user, no password on 'any', HTTP/JWT addresses, also for users generated from deprecated "
             "credentials), listener addresses set when enabled, RTSP transports / encryption / auth methods / digest, "
             "WebRTC ICE servers and hosts, MoQ, one all/all_others/~^.*$ alias, record path placeholders, segment <= 1 "
             "day, deleteAfter 0 or >= segment, regex paths with static sources on demand, SRT passphrase lengths, "
             "hook/alwaysAvailable restrictions, every enumerated rpiCamera parameter, unique primary rpiCamera ids, "
             "secondaries paired, every deprecated parameter copied to its replacement; (5) every error return of the "
             "two Go functions (go/ast) is in a Coq table as a modelled check (constructor) or a named oracle. The model "
             "is tied to the code by running conf.Load in process under recover() on generated inputs, comparing the "
             "accept/reject decision and the rewritten fields, and evaluating the documented constraints on the real "
             "loaded Conf inside Coq.",
        note="Partial: panic-freedom of goccy/go-yaml, encoding/json, secretbox, regexp, net/url, net, the mp4 reader "
             "behind alwaysAvailableFile and the rest of the env loader is exercised by the malformed streams, not proved. "
             "Library calls inside the two functions are oracle booleans computed by the real helpers (19 of 109 error "
             "sites): IsValidPathName, regexp.Compile, validateURL, net.SplitHostPort, checkRedirect, Forward.Validate, "
             "checkAlwaysAvailableFile, rePlainCredential.MatchString (+ reflect.DeepEqual as an input). udpMaxPayloadSize "
             "has no documented lower bound (mediamtx.yml: 'can be decreased'), so none is part of the constraints.",
        technique="Coq proof (case analysis over the check sequence, induction over the path list with the camera-pairing "
                  "invariant, bit-level induction on positive) + go/ast translator for the error sites + correspondence "
                  "via vm_compute")
    rule = ("decrypt.Decrypt directly on valid / wrong-key / bit-flipped inputs and on inputs truncated at every decoded "
            "length 0..40 and every text length 0..40; the same through conf.Load with MTX_CONFKEY / RTSP_CONFKEY / both "
            "(twice = hot reload); environment overrides of absent / empty-body / present map entries; a fixed corpus of "
            "boundary documents; generated streams: configurations exercising the modelled constraints of paths, "
            "authentication, listeners, RTSP, WebRTC, MoQ, rpiCamera parameters and deprecated parameters (compared with "
            "the model's accept/reject and result), mutated copies of the shipped mediamtx.yml, grammar-generated YAML "
            "then damaged, random MTX_*/RTSP_* assignments, random bytes, encrypted generated documents. Outcome class "
            "{loaded, error, panic}; non-trivial = loaded / decrypted")
    trusted_base = ["Coq 8.16.1 kernel + VM (vm_compute for cases)",
                    "in-package Go driver zz_verif_c10_test.go (rendering of the real Conf as the model's records)",
                    "translator tools/gen/c10sites (syntactic: go/ast; lists the `return` statements of Conf.Validate and "
                    "Path.validate; a rule that rejects without a return statement of these two functions is not seen)",
                    "oracle: base64.StdEncoding.DecodeString, secretbox.Open (values shipped per case)",
                    "oracle: IsValidPathName, regexp.Compile, validateURL, net.SplitHostPort, checkRedirect, "
                    "Forward.Validate, checkAlwaysAvailableFile, rePlainCredential.MatchString, reflect.DeepEqual "
                    "(booleans computed per case by the real function on the real value)",
                    "model Model/C10_Load.v hand-written from conf.go/path.go/decrypt.go/env.go, tied by correspondence "
                    "and by the error-site table Model/C10_Sites.v"]
    assumptions = ["Go int is 64 bit", "third-party parsers (YAML, JSON, regexp, URL, secretbox, MP4) do not panic: "
                   "exercised by the run, not proved",
                   "hot reload calls the same conf.Load (internal/core/core.go)",
                   "copyStructFields merges pathDefaults and optional paths as C09/C12 describe (the model input is the "
                   "merged path produced by the real newPath)"]

    # ---- translator: error return sites of Conf.Validate / Path.validate ------------------------------------
    def generate(self, ctx):
        self._notes, self._sites = [], None
        out = os.path.join(vlib.COQ, "gen", "C10_ErrSites.v")
        notes = os.path.join(ctx.workdir, "c10_sites.json")
        tmp = os.path.join(ctx.workdir, "C10_ErrSites.v")
        rc, o = vlib.sh(["go", "run", "./c10sites", vlib.REPO, tmp, notes], cwd=os.path.join(vlib.VERIF, "tools", "gen"),
                        env=vlib.go_env(), timeout=300)
        if os.path.exists(tmp):
            new = open(tmp).read()
            old = open(out).read() if os.path.exists(out) else None
            if new != old:
                with vlib.Lock("coqmake"):
                    open(out, "w").write(new)
        if rc != 0:
            raise RuntimeError("translator c10sites failed: " + o[-2000:])
        sites = json.load(open(notes))["sites"]
        self._sites = sites
        # the same comparison as sites_tie (Model/C10_Sites.v), here only to name the offending sites in the report
        table = []
        src = open(os.path.join(vlib.COQ, "theories", "Model", "C10_Sites.v")).read()
        for m in re.finditer(r'^\s*\((\d), (\d), bytes "((?:[^"]|"")*)", (\w+)', src, re.M):
            table.append((int(m.group(1)), int(m.group(2)), m.group(3).replace('""', '"')))
        gen = [(s["fn"], s["kind"], s["text"]) for s in sites]
        extra = [k for k in set(gen) if gen.count(k) > table.count(k)]
        missing = [k for k in set(table) if table.count(k) > gen.count(k)]
        odd = [s for s in sites if s["kind"] == 2]
        if extra or missing or odd:
            where = {(s["fn"], s["kind"], s["text"]): "%s line %d" % (s["func"], s["line"]) for s in sites}
            raise RuntimeError(
                "error sites of Conf.Validate / Path.validate differ from Model/C10_Sites.v: in the code but not in the "
                "table: %s; in the table but not in the code: %s; unrecognised return shape: %s" % (
                    ["%s: %r" % (where.get(k), k[2]) for k in extra], [k[2] for k in missing],
                    ["%s line %d" % (s["func"], s["line"]) for s in odd]))
        self._notes += ["error sites: %d (Conf.Validate %d, Path.validate %d), all in Model/C10_Sites.v" % (
            len(sites), sum(1 for s in sites if s["fn"] == 0), sum(1 for s in sites if s["fn"] == 1))]
        return self._notes

    def extra_checks(self, ctx, cases):
        # distribution note: which error sites the compare stream reached (real Validate error against the format strings)
        sites = getattr(self, "_sites", None)
        if not sites or getattr(self, "_notes", None) is None:
            return []
        pats = []
        for s in sites:
            if s["kind"] != 0:
                continue
            rx = re.escape(s["text"].replace("%%", "\0")).replace("\0", "%")
            rx = re.sub(r"%[swdv]", ".*", rx.replace("\\%", "%"))
            pats.append((re.compile("^(?:.*: )?" + rx + "$", re.S), s["text"]))
        reached = set()
        for c in cases:
            e = (c.get("desc") or {}).get("validate_error")
            if not e or e == "<nil>":
                continue
            for rx, text in pats:
                if rx.match(e):
                    reached.add(text)
                    break
        total = len({t for _, t in pats})
        self._notes.append("compare stream reached %d of %d distinct fmt.Errorf sites of Conf.Validate / Path.validate" % (
            len(reached), total))
        return []


PROP = C10()
