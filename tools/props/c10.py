from check import Prop


class C10(Prop):
    pid = "C10"
    check_mod = "C10"
    drivers = [dict(pkg="internal/conf", test="TestVerifC10")]
    n_quick = 700
    n_thorough = 20000
    shard = 100
    ready = True
    manifest = dict(
        text="Coq theorems: (1) decrypt.Decrypt after the fix: commit never reaches an out-of-range slice, for all byte "
             "strings and keys and whatever base64 decoding / secretbox return (also through loadFromFile with the legacy "
             "and the current key), and a successful decryption used nonce = first 24 bytes, box = rest; the pinned code "
             "panics on every input decoding to < 24 bytes; (2) the environment loader's map step after its fix: commit "
             "does not panic for an absent / nil / present entry; (3) x > 0 and x & (x-1) = 0 iff x is a power of two "
             "(bit-level, all of Z); (4) a Gallina transliteration of the numeric/structural checks of Conf.Validate and "
             "Path.validate only returns configurations satisfying the documented constraints (positive timeouts, "
             "power-of-two write queue, UDP payload <= 1472, one all/all_others/~^.*$ alias, record path placeholders, "
             "segment <= 1 day, deleteAfter 0 or >= segment, regex paths with static sources on demand, SRT passphrase "
             "lengths, hook/alwaysAvailable restrictions, unique primary rpiCamera ids, secondaries paired). The model is "
             "tied to the code by running conf.Load in process under recover() on generated inputs and comparing the "
             "accept/reject decision and evaluating the documented constraints on the real loaded Conf inside Coq.",
        note="Partial: panic-freedom of goccy/go-yaml, encoding/json, secretbox, regexp, net/url, net, the mp4 reader "
             "behind alwaysAvailableFile and the rest of the env loader is exercised by the malformed streams, not proved. "
             "URL/regexp/name/forward/rpiCamera-parameter checks are oracle booleans computed by the real helpers. "
             "Unmodelled global checks (authentication, addresses, RTSP/WebRTC options) are one oracle boolean.",
        technique="Coq proof (case analysis over the checks, induction over the path list with the camera-pairing "
                  "invariant, bit-level induction on positive) + correspondence via vm_compute")
    rule = ("decrypt.Decrypt directly on valid / wrong-key / bit-flipped inputs and on inputs truncated at every decoded "
            "length 0..40 and every text length 0..40; the same through conf.Load with MTX_CONFKEY / RTSP_CONFKEY / both "
            "(twice = hot reload); environment overrides of absent / empty-body / present map entries; a fixed corpus of "
            "boundary documents; generated streams: configurations exercising only modelled constraints (compared with the "
            "model's accept/reject and result), mutated copies of the shipped mediamtx.yml, grammar-generated YAML then "
            "damaged, random MTX_*/RTSP_* assignments, random bytes, encrypted generated documents. Outcome class "
            "{loaded, error, panic}; non-trivial = loaded / decrypted")
    trusted_base = ["Coq 8.16.1 kernel + VM (vm_compute for cases)",
                    "in-package Go driver zz_verif_c10_test.go (rendering of the real Conf as the model's record; "
                    "probe paths for the source / rpiCamera oracles)",
                    "oracle: base64.StdEncoding.DecodeString, secretbox.Open (values shipped per case)",
                    "oracle: IsValidPathName, regexp.Compile, validateURL/SplitHostPort (via Path.validate on a default "
                    "path), checkRedirect, Forward.Validate, rpiCamera parameter checks, checkAlwaysAvailableFile",
                    "model Model/C10_Load.v hand-written from conf.go/path.go/decrypt.go/env.go, tied by correspondence"]
    assumptions = ["Go int is 64 bit", "third-party parsers (YAML, JSON, regexp, URL, secretbox, MP4) do not panic: "
                   "exercised by the run, not proved",
                   "hot reload calls the same conf.Load (internal/core/core.go)"]


PROP = C10()
