import os

import vlib
from check import Prop


class C08(Prop):
    pid = "C08"
    check_mod = "C08"
    drivers = [dict(pkg="internal/conf", test="TestVerifC08")]
    n_quick = 3000
    n_thorough = 120000
    shard = 500
    ready = False
    manifest = dict(
        text="work in progress",
        note="work in progress",
        technique="Coq proof + correspondence via vm_compute")
    rule = "work in progress"
    trusted_base = ["Coq 8.16.1 kernel + VM (vm_compute for cases)", "in-package Go driver zz_verif_c08_test.go"]
    assumptions = []

    def generate(self, ctx):
        """Translator: reflect over the real conf types (in-package test) -> coq/gen/C08_ConfSchema.v."""
        out = os.path.join(ctx.workdir, "C08_ConfSchema.v")
        if os.path.exists(out):
            os.remove(out)
        rc, log = vlib.run_driver(ctx.workdir, "internal/conf", "TestVerifC08Schema", {"VERIF_OUT": out}, timeout=600)
        if rc != 0 or not os.path.exists(out):
            raise RuntimeError("schema translator failed (rc=%d):\n%s" % (rc, log[-3000:]))
        txt = open(out).read()
        dst = os.path.join(vlib.ensure_dir(os.path.join(vlib.COQ, "gen")), "C08_ConfSchema.v")
        old = open(dst).read() if os.path.exists(dst) else None
        if old != txt:
            with open(dst, "w") as fh:
                fh.write(txt)
        notes = [l[3:-3].strip() for l in txt.split("\n") if l.startswith("(* NOTE ") or l.startswith("(* types with JSON")]
        notes.append("C08_ConfSchema.v: %d fields" % txt.count("(* "))
        return notes


PROP = C08()
