from check import Prop


class C08(Prop):
    pid = "C08"
    check_mod = "C08"
    drivers = [dict(pkg="internal/conf", test="TestVerifC08")]
    n_quick = 3000
    n_thorough = 120000
    shard = 500
    ready = False
    manifest = dict(
        text="work in progress",
        note="work in progress",
        technique="Coq proof + correspondence via vm_compute")
    rule = "work in progress"
    trusted_base = ["Coq 8.16.1 kernel + VM (vm_compute for cases)", "in-package Go driver zz_verif_c08_test.go"]
    assumptions = []


PROP = C08()
