from check import Prop


class C05(Prop):
    pid = "C05"
    check_mod = "C05"
    drivers = [dict(pkg="internal/protocols/httpp", test="TestVerifC05")]
    n_quick = 1000
    n_thorough = 50000
    shard = 250
    ready = True
    manifest = dict(
        text="Coq theorems over a Gallina model of isOriginAllowed (after two fix: commits: scheme and port compared in the "
             "wildcard branch, regexp.QuoteMeta on the host name) for ALL origins, allow lists and url.Parse behaviours: an "
             "echoed value is the origin itself and some allowed entry has the same scheme, the same effective port and the "
             "same host or a wildcard host name matching with '*' = any characters and everything else literal; '*' only if "
             "listed; absent otherwise. The one remaining deviation (a '*.' also matches the bare parent domain, deliberate "
             "upstream) is proved to be the only one (guarded theorem + refutation) and reported as KNOWN-FINDING. The model "
             "is tied to the code by calling the real isOriginAllowed and handlerOrigin.ServeHTTP on look-alike origins derived "
             "from generated allow lists and comparing inside Coq; the boolean form of the property is evaluated on the "
             "observed header with an independent glob algorithm.",
        note="url.Parse is an oracle (its Scheme/Host/Port()/Hostname() are shipped per case and the model's Port/Hostname are "
             "compared with them). The regexp engine on the QuoteMeta'd pattern is modelled as a byte glob matcher (assumption; "
             "known gap: a literal U+FFFD in an allowed host also matches an ill-formed byte).",
        technique="Coq proof (matcher = inductive glob relation by induction on the pattern; case analysis of the decision "
                  "function) + correspondence via vm_compute")
    rule = ("allow lists of 0..4 entries mixing exact, wildcard ('*.d', '*d', 'd.*', 'a.*.d', '**.d', '*-api.d'), '*', "
            "unparseable entries, default/explicit/odd ports, http/https/app/ftp schemes, IPv6 literals, regexp meta characters; "
            "origins derived from an entry by look-alike transformations (instantiate wildcard, drop '*.', replace '.', "
            "prefix/suffix attack, scheme/port change, upper case, userinfo, path, ill-formed bytes) plus TestHandlerOrigin's "
            "cases and the refutation witnesses. Non-trivial = echoed or a rejected look-alike; distinct = distinct descriptions")
    trusted_base = ["Coq 8.16.1 kernel + VM (vm_compute for cases)", "in-package Go driver zz_verif_c05_test.go",
                    "oracle: net/url.Parse (Scheme, Host; Port()/Hostname() cross-checked against the model)",
                    "assumption: Go regexp on ^QuoteMeta(host) with \\*\\. -> (.*\\.)? and \\* -> .*$ is a byte glob matcher",
                    "model Model/C05_Cors.v hand-written, tied by correspondence"]
    assumptions = ["allowed wildcard host names do not contain a literal U+FFFD",
                   "net/url of go1.26 (bracketed hosts are IP literals)"]


PROP = C05()
