from check import Prop


class C30(Prop):
    pid = "C30"
    check_mod = "C30"
    drivers = [dict(pkg="internal/recordcleaner", test="TestVerifC30")]
    n_quick = 600
    n_thorough = 30000
    shard = 100
    ready = True
    manifest = dict(
        text="Coq theorems over a Gallina model of one Cleaner.doRun pass (FindAllPathsWithSegments for static and "
             "regular-expression configurations, FindPathConf resolution, deleteAfter != 0, FindSegments with end = now - "
             "deleteAfter, CommonPath, IsValidPathName) on a directory tree given as a list of (path, directory?) entries, built "
             "on C26's Path.Decode model: for all trees, configuration lists, instants and oracles (regexp matcher, "
             "FindPathConf), a deleted entry is a non-directory whose whole name decodes under the format of the "
             "configuration its reported path name resolves to, with deleteAfter != 0 and start <= now - deleteAfter "
             "(so x.mp4.bak, prefixed or nested look-alikes and directories are never deleted); conversely every such "
             "expired segment of a reported path is deleted, a static path is reported as soon as the segment exists, and a "
             "segment written by the recorder for a path resolving to a matching regular-expression configuration is "
             "reported through its own name (C26 round trip) and deleted; the sequential path-by-path pass on the shrinking "
             "tree leaves exactly the complement, in any order. Every literal byte of a record path stands for itself, regexp "
             "metacharacters (the dots of cam.1, v1.0/ and .mp4) included: under a record path whose only variable-width group "
             "is %path (every documented layout, flat ones like rec/%path_%Y-%m-%d_%H-%M-%S-%f included) a file is a segment of "
             "at most one path name, so when the configurations share it a deleted segment of pn went under the retention pn "
             "itself resolves to, never under a look-alike sibling's (cam.1 / camA1); for any record path (several %path) every "
             "expired segment of a reported path is deleted. Tied to the code by running the real doRun (timeNow set) "
             "on generated trees and configuration sets and comparing the set of removed files inside Coq, plus the generator's "
             "ground truth (which file the real Encode wrote for which path and start) checked without Decode.",
        note="Rests on the anchored Decode (fix 2b44fe1, C26): before it the cleaner deleted foreign *.mp4.bak files. "
             "Oracles shipped per case: Regexp.FindStringSubmatch != nil per (configuration, candidate name); the configuration "
             "FindPathConf returns per candidate name (precedence itself is C14). The theorems hold for every local zone (C26's lzone) and, for zone-database tables (DST), "
             "every recorder-written segment is deleted once its listed start expired, that start being exact outside the "
             "repeated hours and at most one clock change off inside one; the driver uses fixed-offset zones; absolute clean record "
             "paths (filepath.Abs = identity). Symbolic links count as non-directories (WalkDir does not follow them; a link "
             "named like an expired segment is unlinked). Not modelled: deleteEmptyDirs (directories only; observed: its walk "
             "stops after the first directory it removes, so at most one empty directory goes per path and pass), WalkDir I/O "
             "errors, the timer loop / reload channel. Known finding multi-path-ambiguous-name (C26 degenerate-format): with %path "
             "twice a name containing the separating literal is never reported by a regular-expression configuration "
             "(C30_multi_path_refuted); the same formats with other names are part of every run and must be cleaned.",
        technique="Coq proof (filter/existsb characterisation of the pass, fold-of-filters = filter-of-union for the sequential "
                  "pass, reuse of C26 round-trip and whole-name theorems and C31's substitution lemma) + correspondence by vm_compute")
    rule = ("per case: fixed local zone (0, +1 h, -3:30, +5:45); 1-4 configurations (static a, a/b, cam1, x/cam, b, cam2; regexps "
            "~^a.*$, ~^cam[0-9]+$, ~^(x|y)/.*$, ~^.*/b$, ~^[a-c]$, all_others) with deleteAfter 0/10 s/1 h/24 h/365 d, .mp4/.ts, "
            "record paths from 8 shapes (shared by all configurations in half of the cases; nested common paths rec/ vs rec/x/, "
            "rec vs recx, %s flat names, date directories, %z); 2-6 groups of 1-4 segments written with the real Encode for "
            "names that match/do not match/resolve elsewhere, starts at now-deleteAfter exactly, +-1 ns/us/ms/s, older, newer, "
            "future; look-alikes (suffix .bak ~ .tmp x, prefix old+), directories named like segments (with nested.mp4), "
            "symbolic links named like segments, foreign files. 45 % of the cases come from three families with one record path and "
            "extension for all configurations: flat-lookalike (4/20: %path is part of the file name - rec/%path_%Y-..., rec/%path-%s, "
            "%path_%s-%f, rec/v1.0/%path.%Y-..., rec/%path.%s.%f, ...%f%z; static cam.1 camA1 cam11 cam_1 Cam.1 a.b aXb v1.2/cam "
            "v1x2/cam, regexps ~^cam.*$ ~^cam\\.[0-9]$ ~^(a|v1).*$ ~^[a-z.]+[0-9]$ all_others; every group is also written with the "
            "same starts for 1-2 look-alike siblings of its name), metachar-literals (3/20: each of the 14 characters Decode "
            "escapes - \\ . + * ? ^ $ ( ) [ ] { } | - as a literal of the record path before and after %path, 15 shapes), "
            "multi-path (2/20: %path twice, separated by / . _ + or nothing; names containing the separator in 1/5 of them = "
            "class multi-path-ambiguous-name, a known finding); in the first two a third of the segments get a foreign "
            "neighbour: one metacharacter of the name replaced by '#', dropped, or replaced by what the unescaped expression "
            "would accept (never to be removed). Ground truth per written segment (path, configuration, start) is shipped and "
            "checked without Decode: it must be removed when its path resolves to a configuration with that record path, "
            "deleteAfter <> 0 and the start expired. The class shows the family (+siblings, +foreign). Observables: FindAllPathsWithSegments output, set of "
            "non-directories removed by doRun. Non-trivial = some but not all files removed; distinct = distinct descriptions")
    trusted_base = ["Coq 8.16.1 kernel + VM (vm_compute for cases)",
                    "in-package Go driver zz_verif_c30_test.go (real files under VERIF_WORK)",
                    "models Model/C26_RecPath.v + Model/C31_DeleteSeg.v + Model/C30_Cleaner.v hand-written, tied by correspondence (0 mismatches required)",
                    "oracle: regexp match per (configuration, name) and conf.FindPathConf result per name (shipped per case)",
                    "spec_fail uses C26's decode as the definition of 'segment of path p starting at t' plus generator labels for look-alikes "
                    "and foreign files, and the generator's own record of what it wrote with the real Encode (no Decode) for 'must be removed'"]
    assumptions = ["record paths are absolute and clean, ASCII, '/' separators", "the driver sets time.Local to fixed-offset zones (real zones are driven by C26; theorems cover both)",
                   "no I/O errors during the walks; nobody else changes the tree during a pass",
                   "RecordDeleteAfter small enough for time.Time.Add not to saturate"]


PROP = C30()
