from check import Prop


class C30(Prop):
    pid = "C30"
    check_mod = "C30"
    drivers = [dict(pkg="internal/recordcleaner", test="TestVerifC30")]
    n_quick = 600
    n_thorough = 30000
    shard = 100
    ready = True
    manifest = dict(
        text="Coq theorems over a Gallina model of one Cleaner.doRun pass (FindAllPathsWithSegments for static and "
             "regular-expression configurations, FindPathConf resolution, deleteAfter != 0, FindSegments with end = now - "
             "deleteAfter, CommonPath, IsValidPathName) on a directory tree given as a list of (path, directory?) entries, built "
             "on C26's Path.Decode model: for all trees, configuration lists, instants and oracles (regexp matcher, "
             "FindPathConf), a deleted entry is a non-directory whose whole name decodes under the format of the "
             "configuration its reported path name resolves to, with deleteAfter != 0 and start <= now - deleteAfter "
             "(so x.mp4.bak, prefixed or nested look-alikes and directories are never deleted); conversely every such "
             "expired segment of a reported path is deleted, a static path is reported as soon as the segment exists, and a "
             "segment written by the recorder for a path resolving to a matching regular-expression configuration is "
             "reported through its own name (C26 round trip) and deleted; the sequential path-by-path pass on the shrinking "
             "tree leaves exactly the complement, in any order. Tied to the code by running the real doRun (timeNow set) "
             "on generated trees and configuration sets and comparing the set of removed files inside Coq.",
        note="Rests on the anchored Decode (fix 2b44fe1, C26): before it the cleaner deleted foreign *.mp4.bak files. "
             "Oracles shipped per case: Regexp.FindStringSubmatch != nil per (configuration, candidate name); the configuration "
             "FindPathConf returns per candidate name (precedence itself is C14). The theorems hold for every local zone (C26's lzone) and, for zone-database tables (DST), "
             "every recorder-written segment is deleted once its listed start expired, that start being exact outside the "
             "repeated hours and at most one clock change off inside one; the driver uses fixed-offset zones; absolute clean record "
             "paths (filepath.Abs = identity). Symbolic links count as non-directories (WalkDir does not follow them; a link "
             "named like an expired segment is unlinked). Not modelled: deleteEmptyDirs (directories only; observed: its walk "
             "stops after the first directory it removes, so at most one empty directory goes per path and pass), WalkDir I/O "
             "errors, the timer loop / reload channel.",
        technique="Coq proof (filter/existsb characterisation of the pass, fold-of-filters = filter-of-union for the sequential "
                  "pass, reuse of C26 round-trip and whole-name theorems and C31's substitution lemma) + correspondence by vm_compute")
    rule = ("per case: fixed local zone (0, +1 h, -3:30, +5:45); 1-4 configurations (static a, a/b, cam1, x/cam, b, cam2; regexps "
            "~^a.*$, ~^cam[0-9]+$, ~^(x|y)/.*$, ~^.*/b$, ~^[a-c]$, all_others) with deleteAfter 0/10 s/1 h/24 h/365 d, .mp4/.ts, "
            "record paths from 8 shapes (shared by all configurations in half of the cases; nested common paths rec/ vs rec/x/, "
            "rec vs recx, %s flat names, date directories, %z); 2-6 groups of 1-4 segments written with the real Encode for "
            "names that match/do not match/resolve elsewhere, starts at now-deleteAfter exactly, +-1 ns/us/ms/s, older, newer, "
            "future; look-alikes (suffix .bak ~ .tmp x, prefix old+), directories named like segments (with nested.mp4), "
            "symbolic links named like segments, foreign files. Observables: FindAllPathsWithSegments output, set of "
            "non-directories removed by doRun. Non-trivial = some but not all files removed; distinct = distinct descriptions")
    trusted_base = ["Coq 8.16.1 kernel + VM (vm_compute for cases)",
                    "in-package Go driver zz_verif_c30_test.go (real files under VERIF_WORK)",
                    "models Model/C26_RecPath.v + Model/C31_DeleteSeg.v + Model/C30_Cleaner.v hand-written, tied by correspondence (0 mismatches required)",
                    "oracle: regexp match per (configuration, name) and conf.FindPathConf result per name (shipped per case)",
                    "spec_fail uses C26's decode as the definition of 'segment of path p starting at t' plus generator labels for look-alikes"]
    assumptions = ["record paths are absolute and clean, ASCII, '/' separators", "the driver sets time.Local to fixed-offset zones (real zones are driven by C26; theorems cover both)",
                   "no I/O errors during the walks; nobody else changes the tree during a pass",
                   "RecordDeleteAfter small enough for time.Time.Add not to saturate"]


PROP = C30()
