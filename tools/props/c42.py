from check import Prop


class C42(Prop):
    pid = "C42"
    check_mod = "C42"
    drivers = [dict(pkg="internal/staticsources", test="TestVerifC42Src", timeout=600),
               dict(pkg="internal/forward", test="TestVerifC42Dst", timeout=600)]
    n_quick = 600           # per driver
    n_thorough = 60000
    shard = 300
    ready = True
    manifest = dict(
        text="Coq theorems over a Gallina transliteration of resolveSource/resolveDest (descending-index chains of "
             "strings.ReplaceAll): on every template inside an explicit boolean guard, for every group count and all "
             "dollar-free group values / path names (path names are validated, so always), the chain equals one "
             "left-to-right pass that replaces the longest placeholder at each position; nothing inside the client's query "
             "is ever replaced (no precondition on the query); $G<k> with a multi-digit k is group k. Outside the guard the "
             "full statement is refuted with concrete witnesses (listed as known findings). Tied to the code by running the "
             "real functions on generated templates, groups, queries and comparing inside Coq.",
        note="Trusted: Coq kernel+VM, the in-package drivers. strings.ReplaceAll is modelled (leftmost, non-overlapping) "
             "and tied by the correspondence run. Out-of-range indices ($G12 with 3 groups) are outside the guard.",
        technique="Coq proof (templates as item lists; each ReplaceAll step shown to act on whole placeholders by induction; "
                  "decimal-prefix lemma for the descending order) + correspondence by vm_compute")
    rule = ("templates from families plain / adjacent placeholders / stray dollars / digits after a placeholder / random "
            "fragments, group counts 0..130 (multi-digit indices), values from the path-name alphabet incl. G1, MTX_QUERY, "
            "digits; queries containing $G1, $MTX_PATH, $$; 10% cases with dollars inside values (model tie only); directed "
            "witnesses first. Non-trivial = template with at least one placeholder; distinct = distinct (input, output)")
    trusted_base = ["Coq 8.16.1 kernel + VM (vm_compute for cases)", "in-package Go drivers zz_verif_c42_test.go "
                    "(internal/staticsources, internal/forward)",
                    "model Model/C42_Template.v hand-written (strings.ReplaceAll, strconv.FormatInt modelled), tied by correspondence"]
    assumptions = ["path names and capture groups hold no '$' (conf.IsValidPathName: [0-9a-zA-Z_-/.])",
                   "sources know $G<n> and $MTX_QUERY, destinations $G<n> and $MTX_PATH (as documented in mediamtx.yml)"]

    def evaluate(self, ctx, cases):
        res = super().evaluate(ctx, cases)
        self._mm = set(res.get("mismatches", []))
        return res

    def known_class(self, case, entries):
        # a listed finding only covers outputs that the faithful model of the current code predicts
        if case.get("id") in getattr(self, "_mm", set()):
            return None
        return super().known_class(case, entries)


PROP = C42()
