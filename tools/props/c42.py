import os
from concurrent.futures import ThreadPoolExecutor

import vlib
from check import Prop


class C42(Prop):
    pid = "C42"
    check_mod = "C42"
    drivers = [dict(pkg="internal/staticsources", test="TestVerifC42Src", timeout=600),
               dict(pkg="internal/forward", test="TestVerifC42Dst", timeout=600),
               dict(pkg="internal/core", test="TestVerifC42Core", timeout=900)]
    n_quick = 600           # per template driver; + n/6 life-cycle histories on a real forward.Manager,
                            # + n/4 + 40 histories on a real staticsources.Handler (4 + n/160 of them wait for retryPause),
                            # + (6 + n/100) publisher and (8 + n/150) on-demand source histories on a real path
    n_thorough = 60000
    shard = 300
    ready = True
    manifest = dict(
        text="(1) templates: Coq theorems over a Gallina transliteration of resolveSource/resolveDest (descending-index chains of "
             "strings.ReplaceAll): on every template inside an explicit boolean guard, for every group count and all "
             "dollar-free group values / path names (path names are validated, so always), the chain equals one "
             "left-to-right pass that replaces the longest placeholder at each position; nothing inside the client's query "
             "is ever replaced (no precondition on the query); $G<k> with a multi-digit k is group k. Outside the guard the "
             "full statement is refuted with concrete witnesses (listed as known findings). Tied to the code by running the "
             "real functions on generated templates, groups, queries and comparing inside Coq. "
             "(2) life cycle: a Gallina model of the consumers of substituted strings of one live path - forward.Manager "
             "(Initialize / ReloadConf / createDestHandler, each handler resolving with the groups it was created with), "
             "staticsources.Handler (Start / ReloadMatches / Stop / retry, resolveSource at every instance creation), "
             "path.ExternalCmdEnv, wired as in path.doReloadConf - with theorems for EVERY history of hot reloads (each may "
             "replace the forward list and hand in more / fewer / other capture groups or none), stream coming and going, "
             "source started with a query / stopped / failing / retried: every destination handler has the configuration "
             "at its position and connects to the substitution of that template with the CURRENT groups (inside the guard: "
             "the single pass), a running source instance was given the substitution with the current groups, every later "
             "start resolves with them, the hook environment is exactly G1..Gn of the current groups; an unchanged "
             "destination under unchanged groups keeps its handler. The query: every start substitutes exactly the query "
             "of the request that triggered it (trig_query, read off the history alone: the query of the Start that opened "
             "the current period between Start and Stop) - after every history of starts with and without a query in any "
             "order, stops, failures, retries and reloads the handler's query is that one, every instance created in the "
             "period (first, restarted after a change of groups, retried after a failure) is given the current groups and "
             "that query, never the query of an earlier period; the rule that decides what Start stores is a parameter, "
             "the code's rule is the model's, 'an empty query does not overwrite' and 'the first query is kept' are "
             "refuted with witnesses. The configuration (Model/C42_SrcConf.v, configurations named by the number of the reload "
             "that handed them in): after every history of start / stop / failure / retry / reload - reloads while the "
             "instance runs, while the source is stopped, during retryPause - Handler.Conf is the configuration of the "
             "latest reload, a running instance has it (created with it or notified of it) and every instance created "
             "by a start or a retry is given it; the early return of ReloadConf on a stopped handler (pinned code, "
             "fixed by /repo b9e674a) and a chReloadConf case skipped during retryPause are refuted. The forward theorem is proved for any test ReloadConf "
             "might use to keep a handler provided the test is sound (kept => same configuration and same resolved value); "
             "the code's test is sound, a test over the indices of the old groups only is refuted. Tied to the code by "
             "histories on a real forward.Manager (resolved value from the handler's fields or from the running "
             "forwarder's own log line, next to a fresh resolveDest oracle), on a real staticsources.Handler whose "
             "instance is a recorder (the ResolvedSource of every instance created, over histories of Start(query) / Stop / "
             "ReloadMatches + ReloadConf / failure / retry; the configuration each instance was created with and every "
             "configuration it is notified of) and on a real pathManager + path with real "
             "conf.Load / FindPathConf (what forwarders and source instances send to a TCP listener, the real "
             "ExternalCmdEnv()).",
        note="Trusted: Coq kernel+VM, the in-package drivers. strings.ReplaceAll is modelled (leftmost, non-overlapping) "
             "and tied by the correspondence run. Out-of-range indices ($G12 with 3 groups) are outside the guard. "
             "Life cycle: the property side reads the current groups / forward list off the history itself; the groups "
             "handed in by a reload are those of the real FindPathConf (that pathManager delivers them is C15's subject and "
             "is exercised here end to end); hook commands that are already running keep the environment of their launch "
             "(not covered); the retry of a failed source after retryPause (5 s) is driven on the Handler only (a few histories "
             "per run, concurrently with the others), not on the real path.",
        technique="Coq proof (templates as item lists; each ReplaceAll step shown to act on whole placeholders by induction; "
                  "decimal-prefix lemma for the descending order; life cycle: invariant by induction over histories, "
                  "parametrised by the keep test) + correspondence by vm_compute")
    rule = ("templates from families plain / adjacent placeholders / stray dollars / digits after a placeholder / random "
            "fragments, group counts 0..130 (multi-digit indices), values from the path-name alphabet incl. G1, MTX_QUERY, "
            "digits; queries containing $G1, $MTX_PATH, $$; 10% cases with dollars inside values (model tie only); directed "
            "witnesses first. Non-trivial = template with at least one placeholder; distinct = distinct (input, output). "
            "Life cycle (classes life:*): directed corpus first (a group that only the new / only the old configuration has, "
            "same count other values, non-regexp <-> regexp, 9 -> 10 groups with $G10, groups and list changing together, "
            "running forwarders) then seeded random histories of 1-5 steps: groups grow / shrink / change / swap / vanish / "
            "stay equal under a new configuration name, destinations changed / removed / inserted / appended / swapped / "
            "other field changed, Start / Stop; templates mostly inside the guard with indices up to two beyond the group "
            "count. On the real path: regexp keys built from the name (every subset of segments captured, greedy / lazy / "
            "optional / nested groups, the static key), publisher paths with 1-3 RTSP destinations, on-demand source paths "
            "with the source stopped or running at the reload, started by describe or add-reader requests with and "
            "without a query (classes ...:starts-Q>E / E>Q / Q>Q / E>E, :by-reader). On the real staticsources.Handler "
            "(classes life:source-handler:<last two starts>[+restart][+retry]; E = request without a query, Q = with a "
            "query, Q' = another query, Q(same) = the same again): directed corpus first (every order of two and three "
            "consecutive starts over no query / token=abc / user=x, a restart by new groups inside a period followed by a "
            "period without query, no regular expression, the placeholder twice, queries that look like placeholders, a "
            "template without $MTX_QUERY), then seeded random histories of 2-4 periods, each start with no query (40%), "
            "the previous query again or a query from a pool, reloads (more / fewer / other / swapped / equal groups) "
            "while running and while stopped, failures with and without the retry; the count of every kind of "
            "consecutive starts is in the driver summary (source_handler_consecutive_starts). Non-trivial = a reload "
            "that changes the groups while a destination / the source template stays, or consecutive starts with "
            "different queries on a template with $MTX_QUERY. Every Handler history is also emitted as a SrcConf case "
            "(classes life:source-conf:reloads-while-running/stopped/retry-pause): each reload hands in a fresh "
            "configuration (one third of them without new groups), observed = the configuration of the running "
            "instance after every step")
    trusted_base = ["Coq 8.16.1 kernel + VM (vm_compute for cases)", "in-package Go drivers zz_verif_c42_test.go "
                    "(internal/staticsources, internal/forward, internal/core) and zz_verif_c42life_test.go (internal/forward, "
                    "internal/staticsources: recording instance in place of Handler.instance)",
                    "oracle: real resolveDest on the current template and groups (fresh value next to each held value)",
                    "oracle: conf.FindPathConf / regexp engine for the groups of a name under a configuration key",
                    "model Model/C42_Life.v hand-written (forward.Manager, staticsources.Handler, ExternalCmdEnv, "
                    "path.doReloadConf), tied by correspondence",
                    "model Model/C42_SrcConf.v hand-written (Handler.Conf / StaticSourceRunParams.Conf / ReloadConf), tied by "
                    "correspondence; two ReloadConf calls whose deliveries overtake each other (each is delivered by its own "
                    "goroutine) are not driven: the driver waits for each delivery",
                    "model Model/C42_Template.v hand-written (strings.ReplaceAll, strconv.FormatInt modelled), tied by correspondence"]
    assumptions = ["path names and capture groups hold no '$' (conf.IsValidPathName: [0-9a-zA-Z_-/.])",
                   "sources know $G<n> and $MTX_QUERY, destinations $G<n> and $MTX_PATH (as documented in mediamtx.yml)",
                   "a hot reload cannot change the source template (pathConfCanBeUpdated compares Source); the path name "
                   "of a live path never changes"]

    def run_drivers(self, ctx, n, seed, replay=None):
        # the three packages are driven at the same time (each `go test` costs 15-40 s of toolchain work)
        def one(kd):
            k, d = kd
            wd = os.path.join(ctx.workdir, "drv%d" % k)
            vlib.ensure_dir(wd)
            outp = os.path.join(ctx.workdir, "driver_%d_%d.jsonl" % (k, n))
            if os.path.exists(outp):
                os.remove(outp)
            env = {"VERIF_SEED": seed, "VERIF_N": n, "VERIF_OUT": outp, "VERIF_TIER": ctx.tier, "VERIF_WORK": wd}
            env.update(d.get("env", {}))
            if replay:
                env["VERIF_REPLAY"] = replay
            rc, out = vlib.run_driver(wd, d["pkg"], d["test"], env, timeout=d.get("timeout", 900))
            return d, rc, out, vlib.read_jsonl(outp)

        cases, summaries, errors = [], [], []
        with ThreadPoolExecutor(max_workers=len(self.drivers)) as ex:
            for d, rc, out, rows in ex.map(one, list(enumerate(self.drivers))):
                for r in rows:
                    if "summary" in r:
                        summaries.append(r["summary"])
                    else:
                        r["driver"] = d["test"]
                        r["id"] = len(cases)
                        cases.append(r)
                if rc != 0:
                    errors.append("driver %s failed (rc=%d):\n%s" % (d["test"], rc, out[-6000:]))
        return cases, summaries, errors

    def evaluate(self, ctx, cases):
        res = super().evaluate(ctx, cases)
        self._mm = set(res.get("mismatches", []))
        return res

    def known_class(self, case, entries):
        # a listed finding only covers outputs that the faithful model of the current code predicts
        if case.get("id") in getattr(self, "_mm", set()):
            return None
        return super().known_class(case, entries)


PROP = C42()
