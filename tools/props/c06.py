from check import Prop


class C06(Prop):
    pid = "C06"
    check_mod = "C06"
    # order matters: the first driver writes the shared name stream ($VERIF_WORK/c06_names.json) the others replay
    drivers = [
        dict(pkg="internal/recordstore", test="TestVerifC06"),
        dict(pkg="internal/api", test="TestVerifC06Delete"),
        dict(pkg="internal/recorder", test="TestVerifC06Recorder"),
        dict(pkg="internal/core", test="TestVerifC06Entry"),
    ]
    n_quick = 800
    n_thorough = 30000
    shard = 150
    ready = True
    manifest = dict(
        text="Coq theorems over byte-exact Gallina models of conf.IsValidPathName, recordstore.CommonPath, the record "
             "path expansion (%path substitution, extension, the ten sequential ReplaceAll passes of Path.Encode) and "
             "of Go's lexical filepath.Clean/Abs: a name is accepted iff it has the documented shape (both "
             "directions); for every accepted name, every instant and every covered record path format the file the "
             "recorder creates, the record path and every file FindSegments can return (playback, cleaner, API list) "
             "lie component-wise under the absolute common path; the API's absolutePathInside guard and delete "
             "handler only let through paths with the base as prefix; the path manager entry points accept valid "
             "names only (after fix 0d7105d); on the listing side, every name FindAllPathsWithSegments / "
             "regexpPathFindPathsWithSegments reads back from the file names of the recording tree is listed iff it "
             "is a valid path name matching the configuration's regular expression (or is a non-regexp "
             "configuration's own name), file by file, for every record path format (flat layouts with %path in the "
             "file name included) and every directory content. The models are tied to the code by running the real functions, the "
             "real recorder, FindSegments and FindAllPathsWithSegments on real trees, the real delete handler and the real path manager on a "
             "shared stream of grammar-valid and malformed names and comparing inside Coq.",
        note="Containment is lexical (symlinks inside the recording tree are not modelled) and is claimed for "
             "record path formats satisfying format_ok (every % starts a placeholder, no backslash, no '..' segment "
             "after the common prefix, not the '/%path...' root form for which CommonPath returns \"\") and working "
             "directories without '%'/backslash; the operator-chosen format itself is not attacker input. "
             "The WalkDir root of FindSegments and the cleaner's deleteEmptyDirs root (which substitutes the "
             "configuration key, not a request name) are modelled/compared but have no containment theorem.",
        technique="Coq proof: segment scanner simulation between format and rendering (induction over tokens), "
                  "stack model of Clean (fold over segments), reuse of C26's ReplaceAll/tokenisation lemmas; "
                  "correspondence by vm_compute")
    rule = ("names: grammar-valid generator (dot-heavy segments, double slashes, 4 KB) + fixed malformed list (.., ./, "
            "%2e%2e, %2F, backslashes, NUL, unicode dots, overlong UTF-8, regexp keys) + mutations of valid names; the "
            "same stream is replayed on IsValidPathName, FindSegments over generated directory trees with decoys where "
            "a traversal would land, the delete-segment handler, the real recorder (accepted names only) and the four "
            "path manager entry points (plus every configuration key as a request name); FindAllPathsWithSegments with "
            "1-3 configurations (all_others, anchored/unanchored regexps, a regexp matching only invalid names, fixed "
            "names) over trees rendered with 15 record path layouts (directory per path, FLAT = %path in the file "
            "name, time directory first, %path last, %path twice; relative and absolute) holding valid, invalid, "
            "matching and non-matching decoded names side by side in one directory, invalid ones sorting before and "
            "after the valid ones (classes list-<layout>-mixed-dir/...); Clean/Abs/CommonPath on "
            "random segment soups. Non-trivial = accepted, or rejected for a non-grammar reason; distinct = distinct "
            "descriptions")
    trusted_base = ["Coq 8.16.1 kernel + VM (vm_compute for cases)",
                    "in-package Go drivers zz_verif_c06_test.go (+ zz_verif_c06list_test.go) in internal/recordstore, internal/api, internal/recorder, internal/core",
                    "models Model/C06_PathName.v, Model/C06_Listing.v, Lib/PathClean.v, Model/C26_RecPath.v hand-written, tied by correspondence",
                    "oracle: conf.FindPathConf's own outcome (found/resolves) is an input of the delete and entry-point cases (C14 models it)",
                    "oracle: a path configuration's regular expression enters the listing model as a boolean function; the "
                    "driver ships its value (real regexp engine) for every name placed, decoded or returned",
                    "Go's regexp engine for rePathName (modelled as a byte class, compared on every name)"]
    assumptions = ["paths are compared lexically: no symlinks below the common path",
                   "Unix path semantics (separator '/'); the working directory is absolute and contains no '%' or backslash",
                   "record path format satisfies format_ok (decidable; true of the default and of every documented format)"]


PROP = C06()
