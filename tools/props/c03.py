import json
import os
from concurrent.futures import ThreadPoolExecutor

import vlib
from check import Prop


class C03(Prop):
    pid = "C03"
    check_mod = "C03"
    drivers = [dict(pkg="internal/core", test="TestVerifC03", timeout=600),
               # end to end: real protocol clients against a running Core; its own case count (attempts)
               dict(pkg="internal/core", test="TestVerifC03E2E", timeout=420, e2e=True)]
    n_quick = 300
    n_thorough = 12000
    shard = 100
    search_factor = 5
    ready = True
    rule = ("translator tools/gen/authflows (go/ast over internal/**) lists every call site of the path manager's "
            "FindPathConf/Describe/AddReader/AddPublisher and every stream-level AddReader in the servers and classifies "
            "each as a flow (single authenticated call / FindPathConf only / FindPathConf then SkipAuth attachment with the "
            "same name expression, action and the first answer as ConfToCompare); the driver builds a real pathManager "
            "with real paths and the real auth.Manager (random internal users: publish/read permissions on exact / regexp "
            "/ any path, IP restrictions) and runs histories of 5-12 calls through the public entry points: server-style "
            "publisher flows with 0-2 reloads between the steps aimed at the configuration serving the name (same / "
            "hot change / cold change / removal / static shadowing), malformed flows (other name, no or stale "
            "ConfToCompare), single readers / publishers / describes, SkipAuth outside a flow, right and wrong "
            "credentials, names that are static, regexp-served, unconfigured, invalid. n = number of histories. "
            "Non-trivial = a history with a completed flow, an attachment or an authentication refusal. "
            "END TO END (second driver, n/4 attempts, at least 70): a real Core with all protocol servers on scratch ports "
            "and a fixed-shape permission matrix (publish-only, read-only, one-path, regexp, exact-nested, one-IP users, an "
            "`any` user for one path; static paths, two regexp paths with a capture group, all_others); real clients - RTSP "
            "(raw ANNOUNCE/SETUP/RECORD and DESCRIBE/SETUP/PLAY; Basic pre-emptive, 401 challenge answered with Digest or "
            "Basic), RTMP (gortmplib, user/pass in the query), HLS (GET of the multivariant playlist; Basic, Bearer user:pass, "
            "query parameters that are not credentials, X-Forwarded-For from an untrusted peer), WebRTC (raw WHEP POST; WHIP "
            "through the repo's client with ICE/DTLS), SRT (gosrt, both stream-id syntaxes, MPEG-TS) - stratified over "
            "protocol x action x credential class (right / wrong path / wrong action / wrong password / none / wrong IP) "
            "with name variants (percent-encoded, %2F, trailing slash, query that looks like a path, nested, dot segments, "
            "case), plus publisher flows with a configuration reload (changing / not changing the path) between "
            "authorization and attachment and RTSP SETUP URLs naming another path than ANNOUNCE. Observed: whether the "
            "path manager's listing shows the client's session as source / reader, and of which path. "
            "NETWORK (on top, max(57, attempts/2) more attempts; a second Core runs with hls / webrtc / rtsp / rtmp "
            "TrustedProxies = 127.0.0.3, 127.0.0.4 next to the default one without trusted proxies; users admitted from "
            "one network only: the proxy's 127.0.0.3, 127.0.0.2, 127.0.0.1, 203.0.113.0/24, 2001:db8::/32): every cell of "
            "front (HLS, WHEP, WHIP with and without the OPTIONS request, RTSP / RTMP publish and read) x scenario is "
            "visited on every run - forwarding headers: honest proxy (X-Forwarded-For), proxy behind a forging client, "
            "chain of two proxies, chain + forged list, X-Real-IP only, both headers, the proxy asking for itself, forged "
            "X-Forwarded-For / X-Real-IP / list from a peer that is not a trusted proxy (both worlds), direct; PROXY "
            "protocol v1 on RTSP / RTMP: from the trusted proxy (IPv4 / IPv6 source), from an untrusted peer, to a server "
            "without PROXY listener, none - first with credentials admitted from an address involved OTHER than the "
            "originator's (the proxy's, a forged one), then with credentials admitted from the originator's. The driver "
            "plays the proxies itself (connects from their loopback address, writes what they would write), so the "
            "originator of every request is known by construction; the manager is asked about every address involved; "
            "the session is found in the listings by a unique query marker")
    trusted_base = ["Coq 8.16.1 kernel + VM",
                    "translator tools/gen/authflows (syntactic: go/ast without types; its pinned tables - four exempt "
                    "internal sites, one name equivalence resting on gortsplib - are repeated in Props/C03.v)",
                    "in-package drivers zz_verif_c03_test.go and zz_verif_c03e_test.go (end to end: the rule giving, per "
                    "protocol, the name / credentials / source address a request designates is the driver's: decoded URL "
                    "path for RTSP/RTMP/WebRTC, dot-segment-normalised directory for HLS, verbatim resource for SRT)",
                    "client libraries gortsplib (base/conn/auth), gortmplib, gosrt, pion, internal/protocols/whip",
                    "network attempts: the driver's ground truth of who a request comes from (it plays honest proxies "
                    "and liars itself); oracle net.ParseIP for every address text; C43's model of gin's ClientIP "
                    "(Model/C43_Hls.v client_ip, compared end to end here and in C43); go-proxyproto's listener is "
                    "modelled by three lines (pp_remote: USE for trusted peers, IGNORE otherwise, only when the list is "
                    "not empty); the translator's reading of which expression supplies AccessRequest.IP (syntactic; "
                    "httpp.RemoteAddr's body is pinned)",
                    "oracle: auth.Manager.Authenticate, asked directly by the driver for every (action, name, "
                    "credentials, ip) used (the manager itself is C01's subject)",
                    "oracle: regexp FindStringSubmatch per (regexp key, name)",
                    "C14's model of FindPathConf and C06's of IsValidPathName (compared with the real functions at every call)"]
    assumptions = ["`Attached` is the path manager handing the request to the path object; what the path does afterwards "
                   "can only refuse (checked by the driver: an admitted author sits on exactly the named path)",
                   "the authentication oracle is the manager's decision at the authenticating call; internal users can be "
                   "hot-reloaded between the two steps of a flow, the flow theorem speaks about admission at the first step",
                   "the go/ast pass follows values through struct fields, keyed literals and parameters inside one package, "
                   "by field NAME; it does not see reassignments through pointers or reflection",
                   "gortsplib: ServerSession.Path() is the path of the ANNOUNCE request (RTSP publisher flow)",
                   "what each server puts into Name / Credentials / IP (URL parsing, header parsing) is not modelled; it is "
                   "sampled end to end (RTSP, RTMP, HLS, WebRTC, SRT on plain TCP/UDP; not RTSPS/RTMPS, MoQ, RTSP over "
                   "UDP/HTTP tunnel, JWT / HTTP authentication)",
                   "requester identity: `attributable` (Model/C03_Origin.v) is the specification of whose request it is - "
                   "the peer when it is outside <proto>TrustedProxies, the far end of an honest chain of trusted proxies, the "
                   "source of a trusted proxy's X-Real-Ip / PROXY header; trusted proxies are assumed honest (they append "
                   "their peer's address), which is what configuring them as trusted means",
                   "end to end, `admitted` is read from the API listings (session found by remote address + creation time, "
                   "or by the WHIP/WHEP ID header) and the path manager's path list; a session that attaches and detaches "
                   "within the 40 ms polling period is missed"]
    manifest = dict(
        text="Coq theorems over a Gallina transliteration of the path manager's FindPathConf / Describe / AddReader / "
             "AddPublisher (any authentication oracle, any regexp oracle, any configuration history): an attachment without "
             "SkipAuth is immediately preceded, in the same call, by a successful authentication of that very name with the "
             "request's own credentials and address; for every well-formed flow and ANY reloads between its steps, what gets "
             "attached is the path that was authorized, for the same action, under the configuration it was authorized "
             "against (false without ConfToCompare, without the same name, or with a mismatched Publish flag: witnesses "
             "proved). A go/ast pass regenerates, on every run, the table of all call sites in the servers; Coq checks that "
             "each is a well-formed flow or one of four pinned internal sites, so the flow theorem applies to every "
             "protocol server. Tied to the code by histories on a real pathManager + real auth.Manager compared inside Coq, "
             "and by end-to-end attempts of real RTSP / RTMP / HLS / WebRTC / SRT clients against a running Core whose "
             "admissions are judged in Coq against the authentication manager asked directly (admitted => the manager admits "
             "the action on the very path the client was attached to, that path is the one the request named, and no "
             "configuration change slipped between authorization and attachment). Requester identity: for every trusted-"
             "proxy list, forwarding-header content and proxy chain, a call site that takes AccessRequest.IP from the source "
             "its carrier demands (gin ClientIP on HTTP, the PROXY-protocol-aware connection address on RTSP / RTMP, the "
             "peer elsewhere) hands the manager the address of the host the request is attributable to, so that what gets "
             "attached was admitted for the ORIGINATOR's address (false for a HTTP site reading the TCP peer, for an engine "
             "that trusts every peer, for a PROXY listener believing every peer: witnesses proved); the generated table "
             "gives the source used at every authenticating call site and Coq checks each against its carrier; end to end, "
             "clients behind honest proxies, forging clients and forging peers are driven against two Cores (with and "
             "without trusted proxies) and every admission is judged against the manager asked about the originator.",
        note="PARTIAL. Trusted: Coq kernel+VM, the syntactic go/ast translator and its pinned exemptions (HLS muxer, HLS CDN "
             "secret, rpicamera secondary, static-source forwarder), the drivers, the oracles. The protocol front ends "
             "(how Name, credentials and IP are extracted from the wire) are sampled end to end, not proved; not covered: "
             "MoQ, TLS variants, RTSP over UDP / tunnels, JWT and HTTP authentication back ends, the authentication "
             "manager's own logic (C01), media delivered by HLS muxers to sessions after the session's own check.",
        technique="Coq proof (case analysis per call, lifted to traces and flows) + translator (go/ast -> Gallina flow table, "
                  "vm_compute) + real-pathManager correspondence + end-to-end protocol clients against a real Core")

    @staticmethod
    def e2e_n(n):
        return min(1200, max(70, n // 4))

    def run_drivers(self, ctx, n, seed, replay=None):
        """Both drivers at the same time (the end-to-end one mostly waits for the servers' anti-brute-force pauses)."""
        def one(kd):
            k, d = kd
            nk = self.e2e_n(n) if d.get("e2e") else n
            outp = os.path.join(ctx.workdir, "driver_%d_%d.jsonl" % (k, nk))
            if os.path.exists(outp):
                os.remove(outp)
            wd = vlib.ensure_dir(os.path.join(ctx.workdir, "drv%d" % k))
            env = {"VERIF_SEED": seed, "VERIF_N": nk, "VERIF_OUT": outp, "VERIF_TIER": ctx.tier, "VERIF_WORK": wd}
            if replay:
                env["VERIF_REPLAY"] = replay
            rc, out = vlib.run_driver(wd, d["pkg"], d["test"], env, timeout=d.get("timeout", 900))
            if rc != 0:   # the work directory does not survive the run: keep the whole output for the post-mortem
                try:
                    with open(os.path.join(vlib.WORK, "C03-last-failure-%s.log" % d["test"]), "w") as fh:
                        fh.write(out)
                except OSError:
                    pass
            return d, rc, out, vlib.read_jsonl(outp)

        with ThreadPoolExecutor(max_workers=len(self.drivers)) as ex:
            results = list(ex.map(one, enumerate(self.drivers)))
        cases, summaries, errors = [], [], []
        for d, rc, out, rows in results:
            for r in rows:
                if "summary" in r:
                    summaries.append(r["summary"])
                else:
                    r["driver"] = d["test"]
                    r["id"] = len(cases)
                    cases.append(r)
            if rc != 0:
                errors.append("driver %s failed (rc=%d):\n%s" % (d["test"], rc, out[-6000:]))
        return cases, summaries, errors

    def generate(self, ctx):
        out = os.path.join(vlib.COQ, "gen", "C03_Flows.v")
        notes = os.path.join(ctx.workdir, "c03_notes.json")
        tmp = os.path.join(ctx.workdir, "C03_Flows.v")
        rc, o = vlib.sh(["go", "run", "./authflows", vlib.REPO, tmp, notes], cwd=os.path.join(vlib.VERIF, "tools", "gen"),
                        env=vlib.go_env(), timeout=300)
        if os.path.exists(tmp):
            new = open(tmp).read()
            old = open(out).read() if os.path.exists(out) else None
            if new != old:
                with vlib.Lock("coqmake"):
                    open(out, "w").write(new)
        if rc != 0:
            raise RuntimeError("translator failed: " + o[-2000:])
        nt = json.load(open(notes))
        for k in ("exempt", "unclassified", "rows"):
            nt[k] = nt.get(k) or []
        def ok(fl):   # mirror of Model.C03_Auth.flow_ok, for the message only (the verdict is Coq's)
            w = fl.split()
            if w[0] == "FFindOnly":
                return True
            pub = "true" if w[1] == "KPublisher" else "false"
            if w[0] == "FSingle":
                return w[3] == "false" and w[2] == pub
            return w[2] == pub and w[3] == pub and w[4] == "true" and (w[5] == "true" or pub == "false")
        bad = [r["id"] + " = " + r["flow"] + " (" + r["note"] + ")" for r in nt["rows"]
               if not ok(r["flow"]) and r["id"] not in nt["exempt"]]
        two = [r for r in nt["rows"] if r["flow"].startswith("FTwoStep")]
        ident = nt.get("ident") or []
        fits = {("CHttp", "SClient"), ("CTcp", "SPeer"), ("CDirect", "SPeer")}   # mirror of Model.C03_Origin.ip_ok
        engines = nt.get("engines") or []
        noset = [r["id"] for r in engines if not r["trusted_set"]
                 and r["id"] != "internal/servers/moq/http_server.go:initialize:routerHTTP3"]   # pinned in Proofs/C03_Flows.v
        badip = [r["id"] + " = " + r["carrier"] + " / " + r["src"] + " (" + r["note"] + ")" for r in ident
                 if (r["carrier"], r["src"]) not in fits]
        return ["%d path-manager call sites (%d two-step flows, %d exempt), %d stream-level sites in the servers, "
                "%d unclassified%s" % (nt["sites"], len(two), len(nt["exempt"]), nt["stream_sites"],
                                       len(nt["unclassified"]), ("; NOT a well-formed flow: " + "; ".join(bad)) if bad else ""),
                "%d authenticating call sites with the expression that supplies AccessRequest.IP%s"
                % (len(ident), ("; source does NOT fit the carrier: " + "; ".join(badip)) if badip else ""),
                "%d gin engines%s" % (len(engines), ("; SetTrustedProxies is not called unconditionally on: "
                                                     + ", ".join(noset)) if noset else "")] + \
            ["unclassified: " + u for u in nt["unclassified"]]


PROP = C03()
