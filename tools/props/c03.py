import json
import os

import vlib
from check import Prop


class C03(Prop):
    pid = "C03"
    check_mod = "C03"
    drivers = [dict(pkg="internal/core", test="TestVerifC03", timeout=600)]
    n_quick = 300
    n_thorough = 12000
    shard = 100
    search_factor = 5
    ready = True
    rule = ("translator tools/gen/authflows (go/ast over internal/**) lists every call site of the path manager's "
            "FindPathConf/Describe/AddReader/AddPublisher and every stream-level AddReader in the servers and classifies "
            "each as a flow (single authenticated call / FindPathConf only / FindPathConf then SkipAuth attachment with the "
            "same name expression, action and the first answer as ConfToCompare); the driver builds a real pathManager "
            "with real paths and the real auth.Manager (random internal users: publish/read permissions on exact / regexp "
            "/ any path, IP restrictions) and runs histories of 5-12 calls through the public entry points: server-style "
            "publisher flows with 0-2 reloads between the steps aimed at the configuration serving the name (same / "
            "hot change / cold change / removal / static shadowing), malformed flows (other name, no or stale "
            "ConfToCompare), single readers / publishers / describes, SkipAuth outside a flow, right and wrong "
            "credentials, names that are static, regexp-served, unconfigured, invalid. n = number of histories. "
            "Non-trivial = a history with a completed flow, an attachment or an authentication refusal")
    trusted_base = ["Coq 8.16.1 kernel + VM",
                    "translator tools/gen/authflows (syntactic: go/ast without types; its pinned tables - four exempt "
                    "internal sites, one name equivalence resting on gortsplib - are repeated in Props/C03.v)",
                    "in-package driver zz_verif_c03_test.go",
                    "oracle: auth.Manager.Authenticate, asked directly by the driver for every (action, name, "
                    "credentials, ip) used (the manager itself is C01's subject)",
                    "oracle: regexp FindStringSubmatch per (regexp key, name)",
                    "C14's model of FindPathConf and C06's of IsValidPathName (compared with the real functions at every call)"]
    assumptions = ["`Attached` is the path manager handing the request to the path object; what the path does afterwards "
                   "can only refuse (checked by the driver: an admitted author sits on exactly the named path)",
                   "the authentication oracle is the manager's decision at the authenticating call; internal users can be "
                   "hot-reloaded between the two steps of a flow, the flow theorem speaks about admission at the first step",
                   "the go/ast pass follows values through struct fields, keyed literals and parameters inside one package, "
                   "by field NAME; it does not see reassignments through pointers or reflection",
                   "gortsplib: ServerSession.Path() is the path of the ANNOUNCE request (RTSP publisher flow)",
                   "what each server puts into Name / Credentials / IP (URL parsing, header parsing) is not modelled"]
    manifest = dict(
        text="Coq theorems over a Gallina transliteration of the path manager's FindPathConf / Describe / AddReader / "
             "AddPublisher (any authentication oracle, any regexp oracle, any configuration history): an attachment without "
             "SkipAuth is immediately preceded, in the same call, by a successful authentication of that very name with the "
             "request's own credentials and address; for every well-formed flow and ANY reloads between its steps, what gets "
             "attached is the path that was authorized, for the same action, under the configuration it was authorized "
             "against (false without ConfToCompare, without the same name, or with a mismatched Publish flag: witnesses "
             "proved). A go/ast pass regenerates, on every run, the table of all call sites in the servers; Coq checks that "
             "each is a well-formed flow or one of four pinned internal sites, so the flow theorem applies to every "
             "protocol server. Tied to the code by histories on a real pathManager + real auth.Manager compared inside Coq.",
        note="PARTIAL. Trusted: Coq kernel+VM, the syntactic go/ast translator and its pinned exemptions (HLS muxer, HLS CDN "
             "secret, rpicamera secondary, static-source forwarder), the driver, the oracles. Not covered: the protocol "
             "front ends (how Name, credentials and IP are extracted from RTSP/RTMP/SRT/WebRTC/HLS/MoQ requests), "
             "end-to-end clients, the authentication manager's own logic (C01), media delivered by HLS muxers to sessions "
             "after the session's own check.",
        technique="Coq proof (case analysis per call, lifted to traces and flows) + translator (go/ast -> Gallina flow table, "
                  "vm_compute) + real-pathManager correspondence")

    def generate(self, ctx):
        out = os.path.join(vlib.COQ, "gen", "C03_Flows.v")
        notes = os.path.join(ctx.workdir, "c03_notes.json")
        tmp = os.path.join(ctx.workdir, "C03_Flows.v")
        rc, o = vlib.sh(["go", "run", "./authflows", vlib.REPO, tmp, notes], cwd=os.path.join(vlib.VERIF, "tools", "gen"),
                        env=vlib.go_env(), timeout=300)
        if os.path.exists(tmp):
            new = open(tmp).read()
            old = open(out).read() if os.path.exists(out) else None
            if new != old:
                with vlib.Lock("coqmake"):
                    open(out, "w").write(new)
        if rc != 0:
            raise RuntimeError("translator failed: " + o[-2000:])
        nt = json.load(open(notes))
        for k in ("exempt", "unclassified", "rows"):
            nt[k] = nt.get(k) or []
        def ok(fl):   # mirror of Model.C03_Auth.flow_ok, for the message only (the verdict is Coq's)
            w = fl.split()
            if w[0] == "FFindOnly":
                return True
            pub = "true" if w[1] == "KPublisher" else "false"
            if w[0] == "FSingle":
                return w[3] == "false" and w[2] == pub
            return w[2] == pub and w[3] == pub and w[4] == "true" and (w[5] == "true" or pub == "false")
        bad = [r["id"] + " = " + r["flow"] + " (" + r["note"] + ")" for r in nt["rows"]
               if not ok(r["flow"]) and r["id"] not in nt["exempt"]]
        two = [r for r in nt["rows"] if r["flow"].startswith("FTwoStep")]
        return ["%d path-manager call sites (%d two-step flows, %d exempt), %d stream-level sites in the servers, "
                "%d unclassified%s" % (nt["sites"], len(two), len(nt["exempt"]), nt["stream_sites"],
                                       len(nt["unclassified"]), ("; NOT a well-formed flow: " + "; ".join(bad)) if bad else "")] + \
            ["unclassified: " + u for u in nt["unclassified"]]


PROP = C03()
