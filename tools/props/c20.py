from check import Prop
from props.part_c20b import C20bPart


class C20(C20bPart, Prop):
    pid = "C20"
    check_mod = "C20"
    drivers = [dict(pkg="internal/core", test="TestVerifPathSM", timeout=900)]
    n_quick, n_thorough, shard = 300, 6000, 100
    ready = True
    level = "proof"
    rule = 'histories = scripted witnesses (C19 finding, override, maxReaders, on-demand cycles) + random operation sequences (5-40 ops: Describe, AddPublisher, RemovePublisher, AddReader, RemoveReader, StaticReady/NotReady, TimerFire of each of the 4 timers, ReloadConf, Close, ops after Close) over random confs (publisher / runOnDemand / static / static on-demand / alwaysAvailable publisher / alwaysAvailable static (30%), overridePublisher, maxReaders -1..3, every hook on/off; publishers offer the tracks of the stream or, 1 in 3, tracks that SubStream.Initialize of an alwaysAvailable stream refuses; scripted alwaysAvailable histories: override refused, Close while online, static, maxReaders), run on a real core.path; per operation the observed events (parent callbacks, Close() calls, hook and source log lines, answers) and the identity of the current sub-stream of the stream after the step (offline / handed to publisher p / static / none, read from stream.Stream.subStream through reflect) are compared with the model inside Coq; non-trivial = at least one stream was created; distinct = distinct (conf, history, observations). HLS reader hooks (second driver, internal/servers/hls): 18 server lives per quick run, 2 per scenario class (cdn-concurrent-first: 2-3 CDN requests held together in AddReader before any is registered, released in order or reversed; ordinary; cdn-sequential; mixed-concurrent; expire; instance-crash on an always-remux and on a client-requested muxer; muxer-close-then-new; cdn-concurrent-after-loss; random), runOnRead/runOnUnread both set (4 in 6) or only one, alwaysRemux 1 in 3; operations arrive / proceed (admitted or not) / kick / expire / close-all / Server.Close / late proceeds; per operation and session the runOnRead started/stopped and runOnUnread launched lines are compared with Model/C20b_HlsMux.v and judged by the pairing spec'
    trusted_base = ['Coq 8.16.1 kernel + VM (vm_compute for cases and for the _refuted witness)', 'in-package Go driver harness/inpkg/internal/core/zz_verif_pathsm_test.go (real core.path, recording parent, fake publishers/readers; timers fired through Stop()/Reset(0))', 'model Model/PathSM.v hand-written (transliteration of internal/core/path.go handlers, internal/hooks closures, staticsources.Handler start/stop protocol), tied by correspondence on every run']
    assumptions = ['the path goroutine handles one message at a time (single select loop), so its behaviour is a step function', 'hot reload (doReloadConf) changes only fields outside the model (pathConfCanBeUpdated); redirect, fallback, recording are not modelled and not generated', 'conf.Path.validate: runOnDemand only with source: publisher; alwaysAvailable excludes sourceOnDemand, runOnDemand, runOnUnDemand (conf_ok)', 'on alwaysAvailable paths the static source always offers compatible tracks (only publishers are generated with refused tracks); Stream.Initialize / StartOfflineSubStream do not fail for the configured G711 track', 'static source instances alternate SetReady / SetNotReady while their handler runs (protocol of internal/staticsources/handler.go, played by the driver)']
    manifest = dict(
        text='Coq theorems (all histories, all hook configurations): for runOnAvailable/runOnUnavailable (ready/not-ready), runOnOnline/runOnOffline and runOnDemand/runOnUnDemand the hook calls strictly alternate open/close starting with open, the log-visible start/stop(/launch) lines alternate likewise, and after Close no pair is open; alwaysAvailable paths included (available pair opened by initialize(), online pair following the publishers / the static source, both closed by Close). Tied to path.go and internal/hooks/*.go by the shared path driver observing the hook log lines.',
        note='Partial: per-reader (runOnRead) and per-connection (runOnConnect) hooks live in the protocol servers and are not covered by this model; the child processes themselves are started asynchronously by externalcmd and are not observed.',
        technique="Coq proof: state invariant (finite part checked per operation by case enumeration, list part compositionally) lifted to all histories by induction (Lib/Trace.v); correspondence by vm_compute over driver cases")

    trusted_base = trusted_base + list(C20bPart.trusted_base_b)
    assumptions = assumptions + list(C20bPart.assumptions_b)
    manifest = dict(manifest)
    manifest["text"] = manifest["text"] + " " + C20bPart.manifest_b.get("text", "")
    manifest["note"] = C20bPart.manifest_b.get("note", "") + " " + manifest["note"].replace(
        "Partial: per-reader (runOnRead) and per-connection (runOnConnect) hooks live in the protocol servers and are not covered by th", "Partial: th")


PROP = C20()
