from check import Prop


class C20(Prop):
    pid = "C20"
    check_mod = "C20"
    drivers = [dict(pkg="internal/core", test="TestVerifPathSM", timeout=600)]
    n_quick, n_thorough, shard = 300, 6000, 100
    ready = False


PROP = C20()
