import os

from check import Prop
import vlib


class C16(Prop):
    pid = "C16"
    check_mod = "C16"
    drivers = [dict(pkg="internal/core", test="TestVerifPathSM", timeout=900)]
    n_quick, n_thorough, shard = 300, 6000, 100
    ready = True
    level = "proof"
    rule = 'histories = scripted witnesses (C19 finding, override, maxReaders, on-demand cycles) + random operation sequences (5-40 ops: Describe, AddPublisher, RemovePublisher, AddReader, RemoveReader, StaticReady/NotReady, TimerFire of each of the 4 timers, ReloadConf, Close, ops after Close) over random confs (publisher / runOnDemand / static / static on-demand / alwaysAvailable publisher / alwaysAvailable static (30%), overridePublisher, maxReaders -1..3, every hook on/off; publishers offer the tracks of the stream or, 1 in 3, tracks that SubStream.Initialize of an alwaysAvailable stream refuses; scripted alwaysAvailable histories: override refused, Close while online, static, maxReaders), run on a real core.path; per operation the observed events (parent callbacks, Close() calls, hook and source log lines, answers) and the identity of the current sub-stream of the stream after the step (offline / handed to publisher p / static / none, read from stream.Stream.subStream through reflect) are compared with the model inside Coq; non-trivial = at least one stream was created; distinct = distinct (conf, history, observations). PLUS name-life scenarios (driver TestVerifC16Names, max(36, n/8) per run, class name:<family>:<conf>:<flags>) on a real pathManager with one configured name: families held-publisher / held-reader / held-static-reader (a reload that recreates or removes the name while a publisher / reader is attached whose Close() blocks until the driver releases it; while it is held: the manager is asked for pm.paths[name] with a 150 ms deadline, a new publisher or reader arrives for the name with a 150 ms deadline, a client that still holds the old instance calls it directly; then release, end of tear-down, the queued request is answered) and free (6-14 requests, RemovePublisher / RemoveReader, reloads of all five kinds: same, hot-reloadable, recreate, name removed, name added) over publisher / alwaysAvailable / static confs; observed per step: Close() returns and answers in real order (with the number of the accepting instance, by pointer identity) and pm.paths[name]; non-trivial = more than one instance of the name'
    trusted_base = ['Coq 8.16.1 kernel + VM (vm_compute for cases and for the _refuted witness)', 'in-package Go driver harness/inpkg/internal/core/zz_verif_pathsm_test.go (real core.path, recording parent, fake publishers/readers; timers fired through Stop()/Reset(0))', 'in-package Go driver harness/inpkg/internal/core/zz_verif_c16names_test.go (real pathManager and paths, fake publishers/readers with gated Close(), deadlines of 150 ms for things that must not happen: a slow machine can only weaken, never false-alarm)', 'model Model/C16_Names.v hand-written (pathManager.createPath / doClosePath / doReloadConf / doAddPublisher / doAddReader and the tail of path.run() as single tear-down actions), tied by correspondence on every run', 'model Model/PathSM.v hand-written (transliteration of internal/core/path.go handlers, internal/hooks closures, staticsources.Handler start/stop protocol), tied by correspondence on every run']
    assumptions = ['the path goroutine handles one message at a time (single select loop), so its behaviour is a step function', 'hot reload (doReloadConf) changes only fields outside the model (pathConfCanBeUpdated); redirect, fallback, recording are not modelled and not generated', 'conf.Path.validate: runOnDemand only with source: publisher; alwaysAvailable excludes sourceOnDemand, runOnDemand, runOnUnDemand (conf_ok)', 'on alwaysAvailable paths the static source always offers compatible tracks (only publishers are generated with refused tracks); Stream.Initialize / StartOfflineSubStream do not fail for the configured G711 track', 'name level: the name has its own non-regexp configuration entry (regexp paths, closePathIfIdle and path hand-over between configurations are not modelled); a request handled by the manager is followed at once by its instance phase, late instance phases are separate SDirect choices; a closing instance keeps publisher, stream and readers until its whole tear-down is over (coarser than the code, stronger claim)', 'static source instances alternate SetReady / SetNotReady while their handler runs (protocol of internal/staticsources/handler.go, played by the driver)']
    manifest = dict(
        text="Coq theorems over the path event loop model (all operation histories, all confs, alwaysAvailable paths included): a single optional source, stream exists iff a publisher is attached (publisher paths; an alwaysAvailable path keeps its stream from creation to Close), after every history the stream's current sub-stream is the attached publisher's (else the ready static source's, else the offline one) - never a replaced or removed publisher's -, a second publisher is rejected unchanged when overridePublisher is off, with override the old publisher is closed and the old stream torn down before the new stream is created, and on an alwaysAvailable path an overriding publisher whose tracks are refused leaves nobody attached and the offline sub-stream current. Manager level (the life of a path NAME across the instances that reloads create): for every schedule of manager messages (requests, reloads that keep / hot-reload / recreate / remove / add the configuration), direct calls on instances handed out earlier and single tear-down actions of a closed instance (every Close() arbitrarily slow), while an instance tears down the name has no other instance - the replacement is created only after the tear-down is over - so at every instant at most one instance is occupied, at most one publisher is attached to the name and at most one stream exists; every instance state is a reachable state of the path loop; waiting only for static-source paths is refuted by witness. The name-level model is tied to internal/core/path_manager.go by scenarios on a real pathManager in which the tear-down window is forced open on every run (Close() held by the driver) and the property is re-evaluated on the observations alone (who occupies which instance between accepting answer and Close() return; pm.paths[name]). The model is tied to internal/core/path.go by running a real path on generated histories and comparing every step's events inside Coq; the property is also re-evaluated on the observed events alone.",
        note="Assumed: single-goroutine loop semantics, hot reload touching only un-modelled fields. The stale sub-stream write guard itself (SubStream.WriteUnit: only the current sub-stream's writes reach readers) is C17's model; here the observable is WHICH sub-stream is current after every step. Static sources with refused tracks on alwaysAvailable paths are not generated.",
        technique="Coq proof: state invariant (finite part checked per operation by case enumeration, list part compositionally) lifted to all histories by induction (Lib/Trace.v); correspondence by vm_compute over driver cases")


    # the shared path-loop driver and the C16 name-life driver run in one `go test` (same package); the name
    # cases go to a second output file.  Check/C16.v: case = CPath pcase | CName ncase.
    def run_drivers(self, ctx, n, seed, replay=None):
        cases, summaries, errors = [], [], []
        outp = os.path.join(ctx.workdir, "driver_0_%d.jsonl" % n)
        outn = os.path.join(ctx.workdir, "driver_names_%d.jsonl" % n)
        for pth in (outp, outn):
            if os.path.exists(pth):
                os.remove(pth)
        env = {"VERIF_SEED": seed, "VERIF_N": n, "VERIF_OUT": outp, "VERIF_TIER": ctx.tier, "VERIF_WORK": ctx.workdir,
               "VERIF_OUT_NAMES": outn, "VERIF_N_NAMES": max(36, n // 8)}
        if replay:
            env["VERIF_REPLAY"] = replay
        rc, out = vlib.run_driver(ctx.workdir, "internal/core", "TestVerif(PathSM|C16Names)", env, timeout=900)
        for pth, drv, wrap in ((outp, "TestVerifPathSM", "CPath"), (outn, "TestVerifC16Names", "CName")):
            for r in vlib.read_jsonl(pth):
                if "summary" in r:
                    summaries.append(r["summary"])
                else:
                    r["driver"] = drv
                    r["id"] = len(cases)
                    if r.get("coq"):
                        r["coq"] = "(%s %s)" % (wrap, r["coq"])
                    cases.append(r)
        if rc != 0:
            errors.append("drivers TestVerifPathSM / TestVerifC16Names failed (rc=%d):\n%s" % (rc, out[-6000:]))
        return cases, summaries, errors


PROP = C16()
