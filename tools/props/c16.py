from check import Prop


class C16(Prop):
    pid = "C16"
    check_mod = "C16"
    drivers = [dict(pkg="internal/core", test="TestVerifPathSM", timeout=600)]
    n_quick, n_thorough, shard = 300, 6000, 100
    ready = False


PROP = C16()
