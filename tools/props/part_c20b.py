# C20b - second half of C20 (per-reader / per-connection hooks, runOnInit).  NOT a plugin by itself (the name does not end
# in .py, the orchestrator ignores it): a mixin for tools/props/c20.py.
#
# How to merge (coordinator):
#   1. cp tools/props/c20b_part.py.txt tools/props/part_c20b.py     (NOT c*.py: check.py --setup, mkmanifest.py and
#      vlib._ready_pids() glob tools/props/c*.py and expect a PROP in each)
#   2. in tools/props/c20.py:
#          from props.part_c20b import C20bPart
#          class C20(C20bPart, Prop): ...          # mixin first, so its generate/extra_checks win
#      and extend the texts:  trusted_base += C20bPart.trusted_base_b ; assumptions += C20bPart.assumptions_b ;
#      manifest text/note: see C20bPart.manifest_b (replace the "Partial: per-reader ... not covered" sentence of the note)
#   3. KNOWN_FINDINGS.jsonl already holds the entry property=C20 class=kick-overlaps-pause (added with this file).
# Nothing else changes: the C20 driver, Check/C20.v and Props/C20.v stay as they are; the extra Coq targets are built
# by the normal `make` step (extra_coq_targets), the translator runs in generate(), and the second driver + its own
# cases evaluation (against MTX.Check.C20b) run inside extra_checks, which reports
#   - spec failures (kind "spec", with the case, so that KNOWN_FINDINGS matching by class works),
#   - model/implementation differences, driver errors, a Props/C20b.v that no longer checks (other kinds = tie broken).
import json
import os

import vlib


class C20bPart:
    extra_coq_targets = ["theories/Check/C20b.vo", "theories/Check/C20b_Hls.vo", "theories/Props/C20b.vo"]
    c20hls_driver = dict(pkg="internal/servers/hls", test="TestVerifC20Hls", timeout=600)
    c20hls_n_quick, c20hls_n_thorough = 18, 180
    c20b_driver = dict(pkg="internal/servers/rtsp", test="TestVerifC20b", timeout=600)
    c20b_n_quick, c20b_n_thorough, c20b_shard = 100, 6000, 100

    trusted_base_b = [
        "translator tools/gen/hooksites (go/ast, no type information): lists every hooks.OnXxx mention below internal/ "
        "and classifies defer / straight / field / other; cross-checked against a textual count",
        "in-package Go driver harness/inpkg/internal/servers/rtsp/zz_verif_c20b_test.go (real rtsp.Server, raw RTSP "
        "client over localhost, captured logger; the logger holds one log call to schedule the kick replay)",
        "oracle: the state machine of the gortsplib v5 server session (Model/C20b_SessionHooks.v `gortsplib`, "
        "transliterated from server_session.go) - the driver ships rsession.State() before/after every request and the "
        "check compares it with the automaton on every run",
        "in-package Go driver harness/inpkg/internal/servers/hls/zz_verif_c20hls_test.go (real hls.Server, muxers and "
        "sessions; requests through the server's own gin handler; fake path manager that holds every session inside "
        "AddReader until released; captured logger; expiry by ageing lastRequestTime and waiting for the muxer's own "
        "cleanup ticker) and model Model/C20b_HlsMux.v (hand-written transliteration of the multivariant-playlist branch "
        "of http_server.go onRequest, session.initialize / close2, muxer.addSession / cleanup / kick / crash / destroy), "
        "tied by per-operation, per-session comparison of the hook lines on every run",
        "model Model/C20b_SessionHooks.v hand-written (transliteration of rtsp/session.go onPlay/onPause/onClose, "
        "rtsp/conn.go, rtsp/server.go APISessionsKick, hls/session.go + hls/muxer.go), pinned to the sources by the "
        "setter / invoker / caller lists of the generated site table",
    ]
    assumptions_b = [
        "gortsplib calls the session handlers of one session from one goroutine, OnSessionClose last and once; "
        "ServerConn.run calls OnConnOpen first and OnConnClose last (straight-line code of the pinned version)",
        "requests the library refuses before calling a handler change nothing (stutter steps, not represented)",
        "shape (a) sites (defer x() / straight-line x()): the body between hook and closure does not call the same hook "
        "again (checked syntactically: the closure variable has exactly two uses)",
        "HLS, session level (hl_step): the two refuting interleavings (close2 between addSession and the assignment "
        "of the hook; kick after 'muxer destroyed') are races between the HTTP handler and the muxer / server "
        "goroutines and are not replayed - the HLS driver releases held sessions one at a time and waits for each answer",
        "HLS, muxer level (Model/C20b_HlsMux.v): whether a released request is admitted (getMuxer / addSession succeed: "
        "muxer present, instance available, server open) is an oracle shipped by the driver (HTTP status 200); one path "
        "per server; Go's map order among sessionsBySecret is not modelled (lines are compared per session)",
    ]
    manifest_b = dict(
        text="Per reader / per connection: Coq theorems for ALL request sequences over {announce, setup, play, record, "
             "pause, close} served by the gortsplib session automaton (and for any library that keeps a five-clause "
             "contract about Play/PrePlay): the OnRead constructor / closure calls of the RTSP session alternate "
             "start/stop beginning with a start, no nil closure is called, the pair is closed once the session has "
             "ended, same for the log lines under every runOnRead/runOnUnread setting; RTSP connection hook likewise; "
             "defer/straight-line sites (RTMP, SRT, WebRTC, runOnInit) by a structural lemma; every hooks.OnXxx mention "
             "of the tree is listed by a go/ast pass and must be of a modelled shape (forallb site_ok hook_sites by "
             "vm_compute). Tied to the code by an in-package RTSP driver sending random request sequences. HLS front "
             "end, muxer level: for ALL schedules of playlist requests (ordinary / CDN, several held together inside "
             "pathManager.AddReader and released in any order), idle expiries, API kicks and losses of all sessions "
             "(instance failure, muxer close, Server.Close), every session's OnRead calls are well-formed pairs, the "
             "pair is open exactly while the muxer can reach the session (cdnSession / sessionsBySecret), and none is "
             "open after the muxer dropped its sessions (C20_hls_reader_pairs, C20_hls_reader_closed_after_close); a "
             "muxer that replaces the CDN session without close2() is refuted. Tied to the code on every run by an "
             "in-package driver on a real hls.Server (18 server lives: concurrent first CDN requests, mixed concurrent "
             "requests, sequential CDN requests served by the existing session, expiry, kick, instance crash of both "
             "muxer kinds, muxer close then new muxer, late releases after Server.Close; runOnRead/runOnUnread "
             "both / only one set), each admitted reader judged by: one start line, start/stop alternate, one closing "
             "line after Server.Close.",
        note="Refuted (with witnesses, theorems *_refuted, partial theorems with explicit guards): RTSP API kick "
             "overlapping a PAUSE stops the reader hook twice (replayed on every run, KNOWN finding); HLS session "
             "reachable by the muxer before its hook is assigned, and closed twice after 'muxer destroyed' (session-level model only, not driven). "
             "MoQ readers have no runOnRead at all. Child processes are not observed.")

    # ---- translator --------------------------------------------------------------------------------------------------
    def generate(self, ctx):
        notes = list(super().generate(ctx) or [])
        out = os.path.join(vlib.COQ, "gen", "C20_HookSites.v")
        tmp = os.path.join(ctx.workdir, "C20_HookSites.v")
        nj = os.path.join(ctx.workdir, "c20b_sites.json")
        rc, o = vlib.sh(["go", "run", "./hooksites", vlib.REPO, tmp, nj], cwd=os.path.join(vlib.VERIF, "tools", "gen"),
                        env=vlib.go_env(), timeout=300)
        if os.path.exists(tmp):
            new = open(tmp).read()
            old = open(out).read() if os.path.exists(out) else None
            if new != old:
                with vlib.Lock("coqmake"):
                    open(out, "w").write(new)
        if rc != 0:
            raise RuntimeError("hooksites translator failed: " + o[-2000:])
        nt = json.load(open(nj))
        shapes = {}
        for s in nt["sites"]:
            shapes[s["shape"]] = shapes.get(s["shape"], 0) + 1
        notes.append("hook sites: %d (textual mentions %d): %s" % (
            len(nt["sites"]), nt["textual"], ", ".join("%s=%d" % kv for kv in sorted(shapes.items()))))
        for s in nt["sites"]:
            if s["shape"] == "other":
                notes.append("UNCLASSIFIED hook site %s:%d in %s (%s): %s" % (s["file"], s["line"], s["func"], s["hook"],
                                                                           s.get("why", "")))
        self._c20_notes = notes   # the evidence file keeps this list ("translator_notes"): later notes are appended to it
        return notes

    # ---- second evaluation -------------------------------------------------------------------------------------------
    # ---- third evaluation: HLS front end (real hls.Server, gated path manager) against MTX.Check.C20b_Hls ------------
    def _c20hls(self, ctx, out):
        if not os.path.exists(os.path.join(vlib.COQ, "theories", "Check", "C20b_Hls.vo")):
            out.append(dict(kind="model-build", what="Check/C20b_Hls.vo was not built"))
            return
        d = self.c20hls_driver
        n = self.c20hls_n_quick if ctx.tier == "quick" else self.c20hls_n_thorough
        wd = vlib.ensure_dir(os.path.join(ctx.workdir, "c20hls"))
        outp = os.path.join(wd, "driver_c20hls_%d.jsonl" % n)
        if os.path.exists(outp):
            os.remove(outp)
        env = {"VERIF_SEED": ctx.seed, "VERIF_N": n, "VERIF_OUT": outp, "VERIF_TIER": ctx.tier, "VERIF_WORK": wd}
        rc, o = vlib.run_driver(wd, d["pkg"], d["test"], env, timeout=d["timeout"])
        allrows = vlib.read_jsonl(outp) if os.path.exists(outp) else []
        rows = [r for r in allrows if "summary" not in r]
        summ = [r["summary"] for r in allrows if "summary" in r]
        for i, r in enumerate(rows):
            r["id"] = i
            r["driver"] = d["test"]
        if rc != 0:
            out.append(dict(kind="driver", what="driver %s failed (rc=%d):\n%s" % (d["test"], rc, o[-4000:])))
        if not rows:
            if rc == 0:
                out.append(dict(kind="driver", what="driver %s produced no case" % d["test"]))
            return
        res = vlib.eval_cases(wd, "C20b_Hls", [(r["id"], r["coq"]) for r in rows], shard=60)
        for e in res["errors"]:
            out.append(dict(kind="cases-eval", what=e))
        byid = {r["id"]: r for r in rows}
        sf = set(res["spec_failures"])
        for i in res["spec_failures"]:
            out.append(dict(kind="spec", case=byid[i],
                            what="runOnRead/runOnUnread lines of the HLS sessions of one path do not form one "
                                 "start/stop pair per admitted reader (closed after Server.Close)"))
        mm = [i for i in res["mismatches"] if i not in sf]
        if mm:
            out.append(dict(kind="correspondence",
                            what="C20b: HLS muxer model and implementation differ on %d case(s), e.g. %s" % (
                                len(mm), json.dumps([byid[i]["desc"] for i in mm[:2]], default=str)[:1800])))
        feats = (summ[0].get("extra", {}).get("features", {}) if summ else {})
        nt = sum(1 for r in rows if r.get("nontrivial"))
        note = ("C20 HLS driver: %d cases (%d with an admitted reader), spec failures %d, mismatches %d; classes: %s; "
                "operations: %s" % (len(rows), nt, len(res["spec_failures"]), len(res["mismatches"]),
                                    json.dumps((summ[0].get("classes", {}) if summ else {}), sort_keys=True),
                                    json.dumps(dict(sorted(feats.items())))))
        ctx.notes.append(note)
        print("[verif] " + note, flush=True)
        if isinstance(getattr(self, "_c20_notes", None), list):
            self._c20_notes.append(note)
        if nt * 2 < len(rows):
            out.append(dict(kind="driver", what="C20 HLS driver: only %d of %d cases admit a reader" % (nt, len(rows))))
        if rc == 0 and feats.get("sessions-held-together", 0) < 4:
            out.append(dict(kind="driver", what="C20 HLS driver: concurrent first requests were not exercised"))

    def extra_checks(self, ctx, cases):
        out = list(super().extra_checks(ctx, cases) or [])
        self._c20hls(ctx, out)
        # (1) Props/C20b.v: every theorem closed under the global context
        if os.path.exists(os.path.join(vlib.COQ, "theories", "Props", "C20b.vo")):
            rep = vlib.props_report("C20b", ctx.workdir)
            if rep["rc"] != 0:
                out.append(dict(kind="proof", what="Props/C20b.v no longer checks:\n" + rep["out"][-3000:]))
            elif rep["closed"] < len(rep["theorems"]) or rep["axioms"]:
                out.append(dict(kind="assumptions", what="Props/C20b.v: %d theorems, %d closed, axioms %s" % (
                    len(rep["theorems"]), rep["closed"], rep["axioms"])))
            ctx.notes.append("Props/C20b.v: %d theorems closed under the global context" % rep["closed"])
        else:
            out.append(dict(kind="proof", what="Props/C20b.vo was not built (hook-site table or proofs broken)"))
        if not os.path.exists(os.path.join(vlib.COQ, "theories", "Check", "C20b.vo")):
            out.append(dict(kind="model-build", what="Check/C20b.vo was not built"))
            return out
        # (2) the RTSP driver
        d = self.c20b_driver
        n = self.c20b_n_quick if ctx.tier == "quick" else self.c20b_n_thorough
        outp = os.path.join(ctx.workdir, "driver_c20b_%d.jsonl" % n)
        if os.path.exists(outp):
            os.remove(outp)
        env = {"VERIF_SEED": ctx.seed, "VERIF_N": n, "VERIF_OUT": outp, "VERIF_TIER": ctx.tier, "VERIF_WORK": ctx.workdir}
        rc, o = vlib.run_driver(ctx.workdir, d["pkg"], d["test"], env, timeout=d["timeout"])
        rows = [r for r in vlib.read_jsonl(outp) if "summary" not in r]
        for i, r in enumerate(rows):
            r["id"] = i
            r["driver"] = d["test"]
        if rc != 0:
            out.append(dict(kind="driver", what="driver %s failed (rc=%d):\n%s" % (d["test"], rc, o[-4000:])))
        if not rows:
            if rc == 0:
                out.append(dict(kind="driver", what="driver %s produced no case" % d["test"]))
            return out
        wd = vlib.ensure_dir(os.path.join(ctx.workdir, "c20b"))
        res = vlib.eval_cases(wd, "C20b", [(r["id"], r["coq"]) for r in rows], shard=self.c20b_shard)
        for e in res["errors"]:
            out.append(dict(kind="cases-eval", what=e))
        byid = {r["id"]: r for r in rows}
        sf = set(res["spec_failures"])
        for i in res["spec_failures"]:
            out.append(dict(kind="spec", case=byid[i],
                            what="runOnRead/runOnConnect lines observed on the RTSP server do not form start/stop pairs"))
        mm = [i for i in res["mismatches"] if i not in sf]
        if mm:
            out.append(dict(kind="correspondence",
                            what="C20b: RTSP session model and implementation differ on %d case(s), e.g. %s" % (
                                len(mm), json.dumps([byid[i]["desc"] for i in mm[:3]], default=str)[:1800])))
        # the scripted replay of the known finding must still be driven (otherwise the KNOWN entry is stale)
        classes = {}
        for r in rows:
            classes[r["class"]] = classes.get(r["class"], 0) + 1
        nt = sum(1 for r in rows if r.get("nontrivial"))
        ctx.notes.append("C20b driver: %d cases (%d non-trivial), spec failures %d, mismatches %d; classes: %s" % (
            len(rows), nt, len(res["spec_failures"]), len(res["mismatches"]),
            json.dumps(dict(sorted(classes.items(), key=lambda kv: -kv[1])[:12]))))
        if nt * 4 < len(rows):
            out.append(dict(kind="driver", what="C20b driver: only %d of %d cases reach PLAY" % (nt, len(rows))))
        return out
