from check import Prop


class C31(Prop):
    pid = "C31"
    check_mod = "C31"
    drivers = [dict(pkg="internal/api", test="TestVerifC31")]
    n_quick = 600
    n_thorough = 30000
    shard = 150
    ready = True
    manifest = dict(
        text="Coq theorems over a Gallina model of the three users of a segment's name — recorder (Path.Encode of the start "
             "in the server zone), listing (Path.Decode) and onRecordingDeleteSegment (after fix 555d196: the parsed 'start' "
             "converted to the server zone, then Path.Encode) — all on the same substituted path format, built on C26's "
             "Encode/Decode model: for every zone function and every format, requests for the same instant name the same "
             "file whatever offset they are written with (incl. any two RFC 3339 renderings of one instant, via a proved "
             "calendar); for every format that identifies the instant, the start the listing reports for a recorded file is "
             "the recorded one (to the format's precision) and, fed back to delete with any offset, names exactly that "
             "file; a request can only name the file of a segment starting at its instant. The model is tied to the code by "
             "driving the real handlers onRecordingsGet / onRecordingDeleteSegment against real files with time.Local set to "
             "fixed-offset and DST zones, request offsets -12:00..+14:00, instants around DST changes.",
        note="Found and fixed: the handler used the request's own UTC offset for the file name (fix 555d196); the pre-fix "
             "model is kept as a _refuted theorem (+02:00 vs Z). Trusted: Coq kernel+VM, the driver, time.Parse (its result "
             "is shipped; well-formed texts are also re-read by a Gallina RFC 3339 reader), the zone database (offset in "
             "force shipped per instant). Record paths are absolute and clean (filepath.Abs = identity). Lifted to any server "
             "zone and to zone-database tables (C26's Location.lookup / time.Date model): outside the repeated hours listing, "
             "recording and delete agree on the instant for every format (C31_agrees_with_listing_zone); inside a repeated "
             "hour, without %z/%s, the listing reports the instant time.Date picks (Europe the later, America the earlier: "
             "C31_listed_instant_repeated_hour_refuted) but listing and delete provably still agree on the file "
             "(C31_agrees_on_file_zone; also checked on the real code). Offsets with seconds (local "
             "mean time before standard time) are outside RFC 3339 and excluded. Playback's use of FindSegments is covered "
             "only through the shared Decode (C26/C29).",
        technique="Coq proof (reuse of C26's token-level round trip for formats without %path; ReplaceAll-by-items argument "
                  "for name substitution; calendar inverse from Lib/Civil) + correspondence by vm_compute")
    rule = ("per case: a zone (6 fixed offsets, 6 real zones: Rome, St_Johns, Kathmandu, Lord_Howe, New_York, Chatham), a record "
            "path from 10 shapes (%f/no %f, %s, %z, date directories), fmp4/mpegts, a path name, an instant (45% within 2 h of a "
            "DST change of the zone, 2001-2041, boundaries, years 1019-9890); the file is written with the recorder's own "
            "procedure; listing with the file alone; then with 0-5 other files present (other segments, x.mp4.bak, foreign) "
            "six delete requests: listed start verbatim and at two other offsets, recorded instant (full nanoseconds) in UTC, "
            "in the server's offset and at a random offset; 20% of cases are requests that must remove nothing (malformed "
            "start, invalid path name, instant days away from any segment). Observables: status, set of files removed. "
            "Non-trivial = segment cases; distinct = distinct descriptions")
    trusted_base = ["Coq 8.16.1 kernel + VM (vm_compute for cases)",
                    "in-package Go driver zz_verif_c31_test.go (gin test contexts, no network)",
                    "models Model/C26_RecPath.v + Model/C31_DeleteSeg.v hand-written, tied by correspondence (0 mismatches required)",
                    "oracle: time.Parse(RFC3339) result and zone offset at each instant (shipped per request); offset applied by time.Date (shipped per case)",
                    "conf.FindPathConf resolution (single all_others configuration in the driver)"]
    assumptions = ["record paths are absolute and clean, ASCII", "server zone offsets are whole minutes",
                   "the recorder stamps segments with time.Time values in time.Local (ntp estimates derive from time.Now)"]


PROP = C31()
