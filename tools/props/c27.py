import json
import os
import re

from check import Prop
import vlib


class C27(Prop):
    pid = "C27"
    check_mod = "C27"
    drivers = [dict(pkg="internal/recorder", test="TestVerifC27Rec", timeout=600),
               dict(pkg="internal/playback", test="TestVerifC27", timeout=900)]
    n_quick = 2000
    n_thorough = 60000
    shard = 500
    search_factor = 3
    level = "proof"
    ready = True
    manifest = dict(
        text="Coq theorems over the byte layout of a recorded fMP4 segment (init = ftyp box ++ moov box, then one moof box "
             "++ mdat box per part, one Write call each) and the crash model of the property (any prefix of the "
             "concatenated writes, optionally followed by zero bytes, the duration rewrite absent, complete or torn): every "
             "crash image is the complete parts plus at most one proper prefix of the next part; the moof/mdat walk of the "
             "reader (the model that C28 ties to segmentFMP4ReadDurationFromParts) ends, for every cut and every number of "
             "zero bytes, on the last part whose moof box and mdat header are on disk, i.e. the last complete part or the "
             "one right after it - complete parts are never skipped, the loss is bounded by one part; a normal close "
             "records endDTS-startDTS truncated to a millisecond; consecutive segments (same stream id, n and n+1) are "
             "recognised as continuous. The real recorder records generated streams, and the real reader functions are "
             "run on every recorded segment cut at every box boundary +-8 and at sampled offsets, with and without zero "
             "tails.",
        note="PARTIAL: the segmenter's switching rules (formatFMP4Track.write: segment starts on a sync sample, part "
             "switching) are not modelled - the properties 'starts with a random-access sample' and 'continuous' are "
             "checked on the recorded segments only; that each part is ONE write call and that the close rewrites "
             "the mvhd payload in place is read from the source, not observed (no strace); the filesystem's own crash "
             "semantics are the property's prefix+zero-fill model; the mediacommon encoders are trusted to produce the "
             "box layout (checked on every recorded file by a structural walk).",
        technique="Coq proof (induction over the part list with the running prefix, list surgery on firstn/skipn/app; "
                  "monotonicity of the walk in its fuel) + correspondence by vm_compute")
    rule = ("two recordings per run in the quick tier (MPEG-4 Video with generated GOP lengths 3..14 at 25 fps, with and "
            "without AAC audio; part 100/200 ms, segment 1000/800 ms -> 3 segments each), eight in thorough; per segment: "
            "closed-duration, first-video-sample and concatenation checks; crash points = every part start, +8, end of "
            "moof, end of mdat header, each -8..+8, with 0 and 64 zero bytes, the complete file with 0 and 4096 zero "
            "bytes, then random offsets with random zero tails; non-trivial = all cases; distinct = distinct descriptions")
    trusted_base = ["Coq 8.16.1 kernel + VM",
                    "in-package Go drivers zz_verif_c27_rec_test.go (package recorder) and zz_verif_c27_test.go (package playback)",
                    "Model/C28_SegRead.v moof_loop as the meaning of the reader's walk (tied to the code by C28's correspondence run)",
                    "oracle: mediacommon fmp4.Init/Parts Marshal+Unmarshal (layout and per-part durations of the recorded files)"]
    assumptions = ["crash model of the property: file = prefix of the concatenated writes + optional zero bytes",
                   "writeInit and writePart issue one Write call each (read from the source)",
                   "boxes are shorter than 2^32 bytes"]

    def run_drivers(self, ctx, n, seed, replay=None):
        # only this property's driver files (and C28's, whose helpers the playback driver uses) go into the overlay
        orig = vlib.build_overlay

        def only_mine(workdir, pkgdirs):
            ov = orig(workdir, pkgdirs)
            with open(ov) as fh:
                d = json.load(fh)
            d["Replace"] = {k: v for k, v in d["Replace"].items()
                            if not re.match(r"zz_verif_c\d", os.path.basename(k))
                            or re.match(r"zz_verif_c2[78]_", os.path.basename(k))}
            with open(ov, "w") as fh:
                json.dump(d, fh, indent=1)
            return ov
        vlib.build_overlay = only_mine
        try:
            return Prop.run_drivers(self, ctx, n, seed, replay)
        finally:
            vlib.build_overlay = orig


PROP = C27()
