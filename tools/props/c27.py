import json
import os
import re

from check import Prop
import vlib


class C27(Prop):
    pid = "C27"
    check_mod = "C27"
    drivers = [dict(pkg="internal/recorder", test="TestVerifC27Rec", timeout=600),
               dict(pkg="internal/playback", test="TestVerifC27", timeout=900)]
    n_quick = 2000
    n_thorough = 60000
    shard = 500
    search_factor = 3
    level = "proof"
    ready = True
    manifest = dict(
        text="Coq theorems at two levels. (1) Byte layout and crash model of one recorded fMP4 segment (init = ftyp box ++ "
             "moov box, then one moof box ++ mdat box per part, one Write call each; a crash image = any prefix of the "
             "concatenated writes, optionally followed by zero bytes; the duration rewrite absent, complete or torn): every "
             "crash image is the complete parts plus at most one proper prefix of the next part; the moof/mdat walk of the "
             "reader (the model that C28 ties to segmentFMP4ReadDurationFromParts) ends, for every cut and every number of "
             "zero bytes, on the last part whose moof box and mdat header are on disk, i.e. the last complete part or the "
             "one right after it - complete parts are never skipped, the loss is bounded by one part; a normal close "
             "records endDTS-startDTS truncated to a millisecond; consecutive segments (same stream id, n and n+1) are "
             "recognised as continuous. (2) The segmenter (formatFMP4Track.write, formatFMP4Segment.write/closeCurPart/"
             "close, formatFMP4Part.write, nextSegmentStartingPos, the first-key-frame gate) as a state machine over "
             "samples (track, dts, ntp, non-sync, size) that produces the log of file operations; for ALL configurations "
             "and ALL sample sequences: the log is create 0, parts, close 0, create 1, ... (files numbered 0,1,2,..., all "
             "closed at the end, the log at any earlier time a prefix of it); the parts of all files concatenated are exactly "
             "the samples accepted by formatFMP4Segment.write, in order; every part obeys the size and duration bounds the "
             "code enforces; with one video track every file starts on a sync sample; read as calls on a file the log of "
             "a file IS the write log of level 1, so the crash theorems apply to every file of every run; the duration given to "
             "writeDuration and onSegmentComplete at close is the TRUE duration of the file with any number of tracks "
             "interleaved in any order - (end of the sample that ends last, the maximum over every sample of the file) - "
             "(segment start), not the end of the sample written last: for every file of every run, also the one closed "
             "after a failed write (C27_true_duration, _at_switch, _scan; repaired code, fix b7e594b); with "
             "non-decreasing sample ends per track it is the maximum over the tracks of the end of their last sample. (3) The duration "
             "rewrite at close at the granularity of Write calls: the file after any number of complete calls (+ a torn, "
             "zero-filled appending call) is a crash image with the header of writeInit (duration 0) or the closed file, and "
             "/list (header duration 0 -> scan the parts, else trust the header) reports the scan result resp. the true "
             "duration truncated to a millisecond at every such point - no state with a wrong non-zero header. The real fMP4 "
             "format is driven with generated sample streams (direct calls of formatFMP4Track.write, and whole recordings "
             "through Recorder+Stream), the files are read back and compared with the model; the same runs once more in a "
             "child process under strace, so that the write(2) calls per file are observed; the real reader functions are "
             "run on every recorded segment cut at every box boundary +-8 and at sampled offsets, with and without zero tails.",
        note="FIXED FINDING (2f5314e): a late video key frame was discarded and the non-sync frames after it were written, so "
             "a segment could begin with undecodable video. KNOWN FINDING (segmenter: name-collision): with a segment duration below the lag between two tracks (needs recordSegmentDuration < 1 s) consecutive segments get the same start time and file name and truncate each other. " 
             "FIXED FINDING (c1e6a8d): the duration rewrite at close was ~100 one-byte write(2) calls (go-mp4 marshalled the mvhd "
             "payload byte by byte into the unbuffered file); stopped after the third byte of DurationV0 the header held a wrong "
             "non-zero duration that /list trusts, so complete parts were not listed (C27_list_any_write_crash_pinned_refuted; "
             "driver family CTorn replays every prefix of the observed Write calls through the real /list code). The repaired "
             "code writes the payload with one call; C27_list_any_write_crash covers every crash point at write granularity; "
             "what one write(2) leaves behind when the machine stops inside it is the file system's business (assumption). "
             "FIXED FINDING (b7e594b): formatFMP4Segment.write raised endDTS before formatFMP4Part.write could refuse a sample "
             "('reached maximum part size'), so the segment closed after that error recorded the end of a sample it does not hold "
             "(max part size 100, samples of 50 and 80 bytes: 80 ms recorded, 40 ms held; C27_true_duration_pinned_refuted on "
             "run_pinned; driver family 'oversize' forces the error in every run). REFUTED for two video tracks (C27_starts_on_sync_two_video_"
             "refuted): the switch follows the key frames of one track. The filesystem's own crash "
             "semantics are the property's prefix+zero-fill model; the mediacommon encoders are oracles (box sizes read "
             "back from the files); timestamp sums other than timestampToDuration are on Z (no int64 wrap); I/O errors are "
             "not modelled.",
        technique="Coq proof (induction over the part list with the running prefix, list surgery on firstn/skipn/app; "
                  "monotonicity of the walk in its fuel; for the segmenter: invariants by induction over the sample "
                  "sequence through a case classification of formatFMP4Track.write, with a weaker invariant after the first "
                  "failed write) + correspondence by vm_compute + strace of the real process")
    rule = ("recorder driver: two recordings through Recorder+Stream in the quick tier (MPEG-4 Video with generated GOP "
            "lengths 3..14 at 25 fps, two leading non-key frames; with AAC audio that starts 10 ms after the first key "
            "frame and arrives first - the late-key-frame case - and without audio), eight in thorough, ended by an end "
            "marker instead of a sleep; 24 (thorough 1500) generated sample streams handed to formatFMP4Track.write: 0-2 "
            "video tracks (H.264 / MPEG-4 Video) and 0-2 audio tracks (Opus / AAC), GOP 1..12, 10/25/30 fps with jitter, "
            "backward steps and gaps, track offsets up to +-1.6 s, negative timestamps, NTP jitter and drift beyond the "
            "tolerance, small max part sizes (oversize samples), ungated streams; plus n/3 (at least 8) streams of the families "
            "in which the tracks are out of step when a segment is closed: 'ahead' (one track, mostly audio, handed in 200-900 ms "
            "ahead of the others), 'sparse' (an audio track of 0.3-1.2 s samples handed in ahead), 'behind' (one track, mostly "
            "the video track that switches segments, handed in 200-900 ms late), 'oversize' (small maximum part size and one "
            "sample beyond it in the second half: the write fails, the format is closed, the last segment must record what it "
            "holds), the stream ending while every track is still "
            "being handed in and on a call of a track that is not the furthest - class suffix '+end-not-last' = a closed segment "
            "whose last written sample ends before one written earlier (count in the driver summary); for every file of every "
            "stream spec_fail recomputes the true duration (maximum end over the samples that must be in the file) from the input "
            "and the outcomes and demands it in the mvhd header (ms) and in OnSegmentComplete (ns); two more recordings through "
            "Recorder+Stream with the audio handed in 200-600 ms ahead of the video and ending on a video unit (one with a sparse "
            "audio track of 8-27 AAC frames per sample): header and reported duration must equal the media end read off the parts "
            "of the file (base time + sample durations per track, maximum over tracks; tolerance one time scale unit); 3 (thorough 12) of these streams again in "
            "a child under strace; the real writeDuration once more on the pre-close state of every closed segment through a "
            "logging ReadWriteSeeker (its Write calls go into the manifest). Playback driver: every closed segment in the "
            "state after k = 0..n of these Write calls handed to the real parseAndConcatenate of /list (CTorn); per recorded segment closed-duration, first-video-sample and "
            "concatenation checks; crash points = every part start, +8, end of moof, end of mdat header, each -8..+8, with "
            "0 and 64 zero bytes, the complete file with 0 and 4096 zero bytes, then random offsets with random zero "
            "tails; non-trivial = all cases; distinct = distinct descriptions")
    trusted_base = ["Coq 8.16.1 kernel + VM",
                    "in-package Go drivers zz_verif_c27_rec_test.go, zz_verif_c27_seg_test.go, zz_verif_c27_strace_test.go, "
                    "zz_verif_c27_torn_test.go (package recorder) and zz_verif_c27_test.go, zz_verif_c27_torn_test.go (package playback)",
                    "oracle: go-mp4 decoding of a version-0 mvhd box: DurationV0 = big-endian 32 bits at payload offset 16 "
                    "(field_at; the driver reads the field from the bytes and the real reader's answer is compared with it)",
                    "Model/C28_SegRead.v moof_loop as the meaning of the reader's walk (tied to the code by C28's correspondence run)",
                    "oracle: mediacommon fmp4.Init/Parts Marshal+Unmarshal (layout, per-part durations, samples of the recorded files)",
                    "strace 6.x output format (openat/read/write/lseek/close lines, unfinished/resumed pairs)"]
    assumptions = ["crash model of the property: file = prefix of the concatenated writes + optional zero bytes",
                   "writeInit, writePart and (since fix c1e6a8d) the duration rewrite issue one write(2) each (observed by strace in "
                   "every run and asserted by spec_fail; if ptrace is not permitted the run says so in the driver summary; the "
                   "rewrite is then still observed as Write calls on the io.ReadWriteSeeker)",
                   "a single write(2) that overwrites bytes in place is, when the machine stops, either not done or done: tearing "
                   "INSIDE one write(2) (the 100-byte mvhd payload lies within one sector-aligned block only by luck) is the file "
                   "system's business and not modelled",
                   "boxes are shorter than 2^32 bytes", "timestamps far from 2^63; no I/O errors"]

    def run_drivers(self, ctx, n, seed, replay=None):
        # only this property's driver files (and C28's, whose helpers the playback driver uses) go into the overlay
        orig = vlib.build_overlay

        def only_mine(workdir, pkgdirs):
            ov = orig(workdir, pkgdirs)
            with open(ov) as fh:
                d = json.load(fh)
            d["Replace"] = {k: v for k, v in d["Replace"].items()
                            if not re.match(r"zz_verif_c\d", os.path.basename(k))
                            or re.match(r"zz_verif_c2[78]_", os.path.basename(k))}
            with open(ov, "w") as fh:
                json.dump(d, fh, indent=1)
            return ov
        vlib.build_overlay = only_mine
        try:
            return Prop.run_drivers(self, ctx, n, seed, replay)
        finally:
            vlib.build_overlay = orig


PROP = C27()
