import os
from concurrent.futures import ThreadPoolExecutor

import vlib
from check import Prop


class C34(Prop):
    pid = "C34"
    check_mod = "C34"
    drivers = [dict(pkg="internal/servers/srt", test="TestVerifC34Srt"),
               dict(pkg="internal/protocols/whip", test="TestVerifC34Whip"),
               dict(pkg="internal/protocols/httpp", test="TestVerifC34Http"),
               dict(pkg="internal/protocols/rtsp", test="TestVerifC34Rtsp")]
    n_quick = 400          # per driver
    n_thorough = 8000
    shard = 250
    ready = True
    rule = ("per driver VERIF_N cases from one seed. SRT: legacy ids printed from (action,path,user,pass,query) fields "
            "(with/without '#feedbackplay', fields with ':' as precondition-off cases), standard ids printed from key=value "
            "items (known/unknown/duplicate keys, bad modes, values with '=' ':' and hostile bytes), boundary and mutated raw "
            "ids. WHIP: quoteCredential/readQuotedCredential on hostile strings (quotes, backslashes, ';', '>', control and "
            "non-UTF-8 bytes, long values), LinkHeaderMarshal->LinkHeaderUnmarshal on 0..3 ICE servers, mutated and boundary "
            "headers. HTTP: Authorization value lists with Basic (Go base64), 'Bearer user:pass', Bearer tokens at any "
            "position among noise values, hostile values (case variants, broken base64/padding/CRLF), plus "
            "base64.StdEncoding Decode/Encode against Lib/Base64.v. RTSP: Basic/Digest headers printed by gortsplib and "
            "hostile values through rtsp.Credentials with gortsplib's parse shipped as oracle. All calls run under "
            "recover(). Non-trivial = accepted with credentials / special bytes present; distinct = distinct descriptions")
    trusted_base = ["Coq 8.16.1 kernel + VM (vm_compute for cases)",
                    "in-package Go drivers zz_verif_c34_test.go (srt, whip, httpp, rtsp)",
                    "models Model/C34_Descriptors.v and Lib/Base64.v hand-written, tied by correspondence on every run",
                    "oracle: gortsplib headers.Authorization.Unmarshal (Digest branch; the Basic branch is modelled and compared)",
                    "net/http Request.BasicAuth/parseBasicAuth and encoding/base64 StdEncoding are modelled and compared "
                    "(B64Dec/B64Enc cases), not assumed",
                    "strings.NewReplacer with one-byte patterns replaces byte-wise (exercised by the QuoteRT cases)"]
    assumptions = ["strings are byte strings; HTTP/RTSP header transport (net/http replaces CR/LF in values, trims spaces) is outside "
                   "the functions checked", "streamID.unmarshal is called on a zero streamID (as in srt/conn.go)",
                   "LinkHeaderMarshal is given a string Credential whenever Username is non-empty (otherwise it panics by type assertion)"]
    manifest = dict(
        text="Coq theorems over byte strings for Gallina transliterations of the four parsers: SRT stream ids in the legacy "
             "syntax (all fields free of ':'; one trailing '#feedbackplay' is dropped) and the standard '#!::' syntax (values "
             "free of ','; any item list reads left to right, later items win) come back exactly, with exact acceptance "
             "conditions for malformed ids; every byte string survives quoteCredential/readQuotedCredential and the Link "
             "header round-trips with a precondition on the URL only; HTTP Basic (with a verified base64), 'Bearer "
             "user:pass' and bearer tokens are returned exactly, incl. which value wins when several are present; RTSP "
             "credentials on gortsplib's parse. Each model is compared with the real function on every run.",
        note="Findings on the unchanged tree: RTSP Basic passwords containing ':' are lost (gortsplib splits on every colon) "
             "- KNOWN_FINDINGS. By-design limits stated as preconditions with refutation witnesses: ':' in any legacy field, "
             "a last legacy field ending in '#feedbackplay', a Bearer token with exactly one ':', Basic only as first value.",
        technique="Coq proofs by list induction (print/parse inverses, lia for base64 arithmetic) + correspondence by vm_compute")

    def run_drivers(self, ctx, n, seed, replay=None):
        """Same as Prop.run_drivers, but the four packages are built and run concurrently (each with its own overlay
        directory); cases keep the driver order, so ids are reproducible."""
        def one(kd):
            k, d = kd
            wd = os.path.join(ctx.workdir, "drv%d_%d" % (k, n))
            os.makedirs(wd, exist_ok=True)
            outp = os.path.join(ctx.workdir, "driver_%d_%d.jsonl" % (k, n))
            if os.path.exists(outp):
                os.remove(outp)
            env = {"VERIF_SEED": seed, "VERIF_N": n, "VERIF_OUT": outp, "VERIF_TIER": ctx.tier, "VERIF_WORK": wd}
            env.update(d.get("env", {}))
            if replay:
                env["VERIF_REPLAY"] = replay
            rc, out = vlib.run_driver(wd, d["pkg"], d["test"], env, timeout=d.get("timeout", 900))
            return d, rc, out, vlib.read_jsonl(outp)

        cases, summaries, errors = [], [], []
        with ThreadPoolExecutor(max_workers=len(self.drivers)) as ex:
            results = list(ex.map(one, enumerate(self.drivers)))
        for d, rc, out, rows in results:
            for r in rows:
                if "summary" in r:
                    summaries.append(r["summary"])
                else:
                    r["driver"] = d["test"]
                    r["id"] = len(cases)
                    cases.append(r)
            if rc != 0:
                errors.append("driver %s failed (rc=%d):\n%s" % (d["test"], rc, out[-6000:]))
        return cases, summaries, errors


PROP = C34()
