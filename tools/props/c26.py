import re

from check import Prop

TOKS = ["%path", "%Y", "%m", "%d", "%H", "%M", "%S", "%f", "%z", "%s"]
GROUP = {"%path": "(.*?)", "%Y": "([0-9]{4})", "%f": "([0-9]{6})", "%s": "([0-9]{10})",
         "%z": r"(Z|\+[0-9]{4}|-[0-9]{4})"}


def tokenize(f):
    out, i = [], 0
    while i < len(f):
        for t in TOKS:
            if f.startswith(t, i):
                out.append(t)
                i += len(t)
                break
        else:
            out.append(f[i])
            i += 1
    return out


def degenerate(f):
    """formats outside wf_format: a '%' starting no placeholder, %path not exactly once, >1 %z after %path"""
    toks = tokenize(f)
    if "%" in toks or toks.count("%path") != 1:
        return True
    return toks[toks.index("%path"):].count("%z") > 1


def whole_name(f, v):
    """independent third implementation (Python re, fullmatch) of 'v is an instance of the format'"""
    pat = "".join(GROUP.get(t, "([0-9]{2})") if len(t) > 1 else re.escape(t) for t in tokenize(f))
    return re.fullmatch(pat, v) is not None


class C26(Prop):
    pid = "C26"
    check_mod = "C26"
    drivers = [dict(pkg="internal/recordstore", test="TestVerifC26")]
    n_quick = 2400
    n_thorough = 120000
    shard = 500
    ready = True
    manifest = dict(
        text="Coq theorems over a Gallina model of recordstore.Path.Encode (the ten sequential ReplaceAll passes) and "
             "Path.Decode (leftmost-first backtracking match of the anchored pattern the code builds: lazy (.*?) for %path, "
             "fixed-width digit groups, Z|+dddd|-dddd; last group of a placeholder wins; time.Date / time.Unix via a proved "
             "proleptic-Gregorian calendar; the final `Encode(format) == v` comparison) with the local zone as the two "
             "functions the code uses (offset time.Date subtracts for a wall-clock reading; offset in force at an instant), "
             "instantiated by fixed offsets and by zone-database tables with Location.lookup and time.Date's resolution "
             "rule transliterated from the Go source: for every well-formed format, path name without newline/'%' and "
             "instant the fixed-width fields can hold, Decode(Encode) returns that path and that start to the microsecond "
             "- with %z or %s always; without them exactly when time.Date maps the instant's reading back to its offset, "
             "which in every zone with offsets within B of UTC and changes more than 2B apart is every instant outside the "
             "repeated hours (proved), while inside one two instants share one file name and Decode reports the one the "
             "proved pick rule selects (refuted with Europe/Rome and America/New_York 2024; known finding, data loss in the "
             "recorder replayed); every name the recorder writes is still recognised with the right path; and a name is "
             "recognised ONLY if it is what Encode writes for the decoded path and start (full strength, all zones and "
             "formats). The model is tied to the code by running the real Encode/Decode on generated formats, names, "
             "instants, fixed and 12 real zones (around every offset change of 2019-2031 +-2 h at 1-minute steps, gap "
             "readings, mutated names) and comparing inside Coq. The finder of segment.go (FindSegments, "
             "fixedPathHasSegments, regexpPathFindPathsWithSegments) is modelled as far as names go: %path substituted "
             "first, filepath.Abs/Clean afterwards (Clean transliterated for rooted Unix paths), matched against the clean "
             "name WalkDir reports for the recorder's file; proved for every record path, working directory and every "
             "name IsValidPathName accepts: the finder's format depends on the name only through its non-empty elements "
             "(runs of slashes such as site//cam1, the only thing Clean changes in a valid name), so a name and its clean "
             "form get the same answer; the clean-first order is refuted (site//cam1: the recorder's own file not found). "
             "Tied to the code by creating segment files on a real directory tree the way the recorder does and "
             "running the three finder functions: every written segment of a valid name is found again under that "
             "name and under every name with the same elements, nothing else is.",
        note="Found and fixed: the pattern was compiled without anchors (fix 2b44fe1); Decode accepted fields Encode never "
             "writes - month 13, +0000, disagreeing duplicates, gap readings (fix: re-encode comparison). Known findings "
             "kept: the repeated hour at the end of DST (two instants, one name; the recorder truncates the earlier file); "
             "formats with several %path or a stray '%' do not round-trip. Trusted: Coq kernel+VM, the driver, Go regexp "
             "implementing leftmost-first semantics for the generated pattern (checked on every case), Go's zone data as "
             "reported by Time.Zone / ZoneBounds (shipped as tables, validated against the offset function by a scan and "
             "against zone_ok in Coq). ASCII formats only. The recorder is assumed to hold segment starts in time.Local "
             "(a source that delivers absolute times in another Location, e.g. HLS EXT-X-PROGRAM-DATE-TIME in UTC, would "
             "have its civil fields written in that Location and read back as local: outside the theorems' hypothesis).",
        technique="Coq proof (induction over the token list; length/last-byte argument for the lazy group; 400-year calendar "
                  "cycle swept by vm_compute and lifted by forallb_forall; zone part: abstract section over any lookup "
                  "function that partitions the time line into periods longer than 2B, case analysis on where the "
                  "reading taken as UTC falls, instantiated for sorted transition tables) + correspondence by vm_compute")
    rule = ("formats from a grammar over the ten placeholders and literal separators (realistic, time-before-path, random "
            "token soup incl. regex metacharacters and stray '%', degenerate ones); names valid, look-alike (embedded "
            "timestamps) and invalid; instants 2000-2041, boundaries (10^9, 10^10, years 999/1000/9999/10000, negative), "
            "DST changes; fixed local zones (nice and odd offsets); 12 real zones (Rome, New_York, London, St_Johns, Lord_Howe, "
            "Azores, Apia, Casablanca, Sao_Paulo, Kathmandu, Chatham, Cairo) with the table of offset changes shipped: round "
            "trips at instants 75% within 3 h of a change (zround), candidate names that read the UTC fields locally (gap "
            "readings) and structural mutations (zdec), one sweep per offset change of 2019-2031 (thorough 2000-2037): +-2 h "
            "at 60 s (20 s) steps, run-length encoded (zsweep), one scan of Go's offset function per zone every 6 h (1 h) "
            "(zscan); candidates = encodings and their suffix/prefix/infix/delete/replace/double/truncate/field mutations "
            "and random strings; finder cases (find, n/30, at least 21): a fresh directory tree per case, 13 record path "
            "shapes (relative/absolute, './', '..', doubled slashes in the literal part, %path as directories, glued to "
            "literals, first), 2-6 valid path names per tree - clean ones and valid-but-not-clean ones (runs of 2-4 "
            "slashes, dots inside elements), aliases with the same elements in the same tree -, 1-3 segment files each "
            "created as the recorder does, the name asked for = a written one / its squeezed form / a slash-doubled "
            "form / a fresh one; classes find-{clean-names,slash-runs,query-slash-runs}-{all-found,none,MISSING}. "
            "Non-trivial = recognised; distinct = distinct (input, output) descriptions")
    trusted_base = ["Coq 8.16.1 kernel + VM (vm_compute for cases and the two calendar sweeps)",
                    "in-package Go driver zz_verif_c26_test.go",
                    "model Model/C26_Finder.v (filepath.Abs/Clean for rooted Unix paths, the kernel + WalkDir reporting the "
                    "lexically clean name of a file created without symlinks; IsValidPathName), tied by the find cases",
                    "models Model/C26_RecPath.v, Model/C26_Zone.v hand-written (time.Date transliterated from go1.26 src/time/time.go), "
                    "tied by correspondence (0 mismatches required)",
                    "oracle: Go's zone data through Time.Zone / Time.ZoneBounds (table of offset changes shipped per case; every "
                    "sampled offset, every time.Date result and 'is the reading repeated' compared with the model); "
                    "Go regexp = leftmost-first match",
                    "known_class: the dst-repeated-hour class is accepted only when Go's own offset function says the reading is "
                    "repeated, the format has no %z/%s and the decoded start re-encodes to the same name"]
    assumptions = ["formats are ASCII (bytes >= 0x80 in a format are not modelled: regexp works on runes)",
                   "time.Time nanoseconds are in 0..999999999",
                   "theorems need wf_format: every '%' starts a placeholder, %path exactly once, at most one %z after %path",
                   "zone theorems need zone_ok B: |offset| <= B and successive offset changes more than 2B apart "
                   "(checked in Coq for every shipped table with B = 16 h)",
                   "segment starts are held in time.Local (Encode formats p.Start in its own Location)",
                   "finder: Unix path syntax, no symbolic links below the record directory, directories named before a "
                   "'..' of the record path exist"]

    def known_class(self, case, entries):
        d = case.get("desc", {}) or {}
        for e in entries:
            if e.get("class") != case.get("class"):
                continue
            try:
                if e["class"] == "dst-repeated-hour" and d.get("kind") == "zround" and d.get("repeated") is True \
                        and "%z" not in tokenize(d["format"]) and "%s" not in tokenize(d["format"]) \
                        and isinstance(d.get("decoded"), dict) and d["decoded"]["path"] == d["path"] \
                        and 0 < abs(d["decoded"]["unix"] - d["unix"]) <= 2 * 57600 \
                        and d["decoded"]["reencoded"] == d["encoded"]:
                    # the other instant of the repeated hour, same file name; anything else is still a violation
                    return e
                if e["class"] == "degenerate-format" and d.get("kind") == "roundtrip" and degenerate(d["format"]):
                    return e
            except Exception:
                return None
        return None


PROP = C26()
