from check import Prop


class C26(Prop):
    pid = "C26"
    check_mod = "C26"
    drivers = [dict(pkg="internal/recordstore", test="TestVerifC26")]
    n_quick = 3000
    n_thorough = 120000
    shard = 500
    ready = False
    manifest = dict(text="", note="", technique="")
    rule = ""
    trusted_base = []
    assumptions = []


PROP = C26()
