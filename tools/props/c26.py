import re

from check import Prop

TOKS = ["%path", "%Y", "%m", "%d", "%H", "%M", "%S", "%f", "%z", "%s"]
GROUP = {"%path": "(.*?)", "%Y": "([0-9]{4})", "%f": "([0-9]{6})", "%s": "([0-9]{10})",
         "%z": r"(Z|\+[0-9]{4}|-[0-9]{4})"}


def tokenize(f):
    out, i = [], 0
    while i < len(f):
        for t in TOKS:
            if f.startswith(t, i):
                out.append(t)
                i += len(t)
                break
        else:
            out.append(f[i])
            i += 1
    return out


def degenerate(f):
    """formats outside wf_format: a '%' starting no placeholder, %path not exactly once, >1 %z after %path"""
    toks = tokenize(f)
    if "%" in toks or toks.count("%path") != 1:
        return True
    return toks[toks.index("%path"):].count("%z") > 1


def whole_name(f, v):
    """independent third implementation (Python re, fullmatch) of 'v is an instance of the format'"""
    pat = "".join(GROUP.get(t, "([0-9]{2})") if len(t) > 1 else re.escape(t) for t in tokenize(f))
    return re.fullmatch(pat, v) is not None


class C26(Prop):
    pid = "C26"
    check_mod = "C26"
    drivers = [dict(pkg="internal/recordstore", test="TestVerifC26")]
    n_quick = 2400
    n_thorough = 120000
    shard = 500
    ready = True
    manifest = dict(
        text="Coq theorems over a Gallina model of recordstore.Path.Encode (the ten sequential ReplaceAll passes) and "
             "Path.Decode (leftmost-first backtracking match of the anchored pattern the code builds: lazy (.*?) for %path, "
             "fixed-width digit groups, Z|+dddd|-dddd; last group of a placeholder wins; time.Date / time.Unix via a proved "
             "proleptic-Gregorian calendar): for every well-formed format, every path name without newline/'%' and every "
             "instant the fixed-width fields can hold, Decode(Encode) returns that path and that start to the microsecond; "
             "every recognised name is as a whole the format's literals with well-shaped fields in between (no foreign "
             "prefix/suffix/infix). The model is tied to the code by running the real Encode/Decode on generated formats, "
             "names, instants, zones and mutated candidate names and comparing inside Coq.",
        note="Found and fixed: the pattern was compiled without anchors (fix 2b44fe1). Known findings kept: Decode accepts "
             "fields Encode never writes (month 13, +0000, disagreeing duplicates); formats with several %path or a stray '%' "
             "do not round-trip. Trusted: Coq kernel+VM, the driver, Go regexp implementing leftmost-first semantics for the "
             "generated pattern (checked on every case), the zone offsets Go computes (shipped per case). ASCII formats only.",
        technique="Coq proof (induction over the token list; length/last-byte argument for the lazy group; 400-year calendar "
                  "cycle swept by vm_compute and lifted by forallb_forall) + correspondence by vm_compute")
    rule = ("formats from a grammar over the ten placeholders and literal separators (realistic, time-before-path, random "
            "token soup incl. regex metacharacters and stray '%', degenerate ones); names valid, look-alike (embedded "
            "timestamps) and invalid; instants 2000-2041, boundaries (10^9, 10^10, years 999/1000/9999/10000, negative), "
            "DST changes; fixed local zones (nice and odd offsets) and five real zones (applied offset shipped); candidates = "
            "encodings and their suffix/prefix/infix/delete/replace/double/truncate/field mutations and random strings. "
            "Non-trivial = recognised; distinct = distinct (input, output) descriptions")
    trusted_base = ["Coq 8.16.1 kernel + VM (vm_compute for cases and the two calendar sweeps)",
                    "in-package Go driver zz_verif_c26_test.go",
                    "model Model/C26_RecPath.v hand-written, tied by correspondence (0 mismatches required)",
                    "oracle: offset time.Date applied in a real zone (shipped per case); Go regexp = leftmost-first match",
                    "known_class: Python re.fullmatch as independent whole-name check before a finding is accepted as known"]
    assumptions = ["formats are ASCII (bytes >= 0x80 in a format are not modelled: regexp works on runes)",
                   "time.Time nanoseconds are in 0..999999999",
                   "theorems need wf_format: every '%' starts a placeholder, %path exactly once, at most one %z after %path"]

    def known_class(self, case, entries):
        d = case.get("desc", {}) or {}
        for e in entries:
            if e.get("class") != case.get("class"):
                continue
            try:
                if e["class"] == "dec-recognised-not-reencodable" and d.get("kind") == "decode" \
                        and whole_name(d["format"], d["candidate"]):
                    return e
                if e["class"] == "degenerate-format" and d.get("kind") == "roundtrip" and degenerate(d["format"]):
                    return e
            except Exception:
                return None
        return None


PROP = C26()
