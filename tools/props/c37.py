from check import Prop


class C37(Prop):
    pid = "C37"
    check_mod = "C37"
    drivers = [dict(pkg="internal/logger", test="TestVerifC37")]
    n_quick = 700          # messages; each is logged to two destinations (two cases)
    n_thorough = 15000
    shard = 150
    ready = True
    manifest = dict(
        text="Coq theorems for ALL byte strings: the structured log line (model of destinationStdout/File.log after the "
             "fix: commit that replaced strconv.Quote by encoding/json) is exactly one line, and a JSON parser written in Coq "
             "reads it back as the object {timestamp, level, message} with the message's ill-formed UTF-8 bytes replaced by "
             "U+FFFD. The model is tied to the code by logging generated messages (all 256 single bytes, pairs of the "
             "interesting classes, UTF-8 boundary sequences, random text) through the real Logger into both destinations and "
             "comparing byte for byte inside Coq; every real line is also parsed by Go's encoding/json and time.Parse.",
        note="Assumed: time.Format(RFC3339Nano) yields printable ASCII without quote/backslash (checked on every case) and "
             "round-trips through time.Parse (checked on every case, years 1..9999); fmt.Sprintf output is the 'formatted "
             "message'. The model of the pinned strconv.Quote code treats IsPrint as a parameter.",
        technique="Coq proof (induction over the UTF-8 rune decomposition; finite sweep of the 128 ASCII escapes) + "
                  "correspondence via vm_compute")
    rule = ("messages: every single byte 0..255 in context (exhaustive), refutation witnesses and UTF-8 boundary corpus, pairs "
            "of 30 interesting byte classes, random/hostile/long text; random times/zones/levels; each logged to stdout and file "
            "destinations of the real Logger. Non-trivial = the message needs escaping or sanitising; distinct = distinct "
            "(input, line) descriptions")
    trusted_base = ["Coq 8.16.1 kernel + VM (vm_compute for cases)", "in-package Go driver zz_verif_c37_test.go",
                    "oracle: time.Format / time.Parse (timestamp text and its round trip)",
                    "oracle: fmt.Sprintf (formatted message)",
                    "independent oracle: encoding/json.Unmarshal on every real line",
                    "models Model/C37_LogJson.v, Lib/Json.v, Lib/Utf8.v hand-written, tied by correspondence"]
    assumptions = ["timestamps are in years 1..9999 (time.Now)", "fmt.Sprintf(format, args...) is the record's formatted message",
                   "syslog destination is not structured and not covered"]


PROP = C37()
