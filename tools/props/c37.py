from check import Prop


class C37(Prop):
    pid = "C37"
    check_mod = "C37"
    drivers = [dict(pkg="internal/logger", test="TestVerifC37")]
    n_quick = 700          # messages; each is logged to two destinations (two cases); + 4 burst and ~46 syslog cases
    n_thorough = 15000
    shard = 150
    ready = True
    manifest = dict(
        text="Coq theorems for ALL byte strings: the structured log line (model of destinationStdout/File.log after the "
             "fix: commit that replaced strconv.Quote by encoding/json) is exactly one line, and a JSON parser written in Coq "
             "reads it back as the object {timestamp, level, message} with the message's ill-formed UTF-8 bytes replaced by "
             "U+FFFD. The model is tied to the code by logging generated messages (all 256 single bytes, pairs of the "
             "interesting classes, UTF-8 boundary sequences, random text) through the real Logger into both destinations and "
             "comparing byte for byte inside Coq; every real line is also parsed by Go's encoding/json and time.Parse. "
             "The destination model (Model/C37_LogDest.v) covers EVERY configuration destination x Structured x "
             "destinationStdout.useColor (stdout is a terminal) x gookit/color on/off: theorems say the structured line is the "
             "same JSON line in all of them, that a coloured level tag would make every record of a colour terminal invalid "
             "JSON (and be invisible everywhere else), and that any stream of records splits at the newlines into exactly its "
             "records (all histories). The driver runs all 16 configurations on every quick run (useColor=true obtained from "
             "newDestionationStdout itself with os.Stdout swapped for a pty), bursts of concurrent records from several "
             "goroutines through one Logger, and the syslog destination on a log/syslog Writer dialled to its own socket.",
        note="Assumed: time.Format(RFC3339Nano) yields printable ASCII without quote/backslash (checked on every case) and "
             "round-trips through time.Parse (checked on every case, years 1..9999); fmt.Sprintf output is the 'formatted "
             "message'. The model of the pinned strconv.Quote code treats IsPrint as a parameter. The plain-text branch "
             "(writePlainTime, coloured writeLevel; gookit/color RenderString with its colour codes) is modelled and compared "
             "byte for byte but the property does not constrain it. color.Enable && color.SupportColor() and t.Date()/t.Clock() "
             "are inputs shipped by the driver. newDestinationSyslog (syslog.New -> /dev/log) is not run: the sandbox has no "
             "system logger.",
        technique="Coq proof (induction over the UTF-8 rune decomposition; finite sweep of the 128 ASCII escapes) + "
                  "correspondence via vm_compute")
    rule = ("messages: every single byte 0..255 in context (exhaustive), refutation witnesses and UTF-8 boundary corpus, pairs "
            "of 30 interesting byte classes, random/hostile/long text; random times/zones/levels; each logged to the stdout and file "
            "destinations of a real Logger in one of the configurations Structured x useColor (terminal, via pty) x gookit colour "
            "state (Enable off / no colour support / 16 colours / true colour): the 256 single bytes walk through the 4 colour "
            "combinations x 4 levels with Structured on, three quarters of the other messages are structured; class = "
            "'<dest> <json|plain> tty=<useColor> color=<colour on> <ascii|escaping|invalid-utf8>'. Plus bursts (8 goroutines x 3 "
            "hostile records through one structured Logger, both destinations, colour terminal and pipe; class 'burst ...'; 12 more "
            "bursts of 8 x 12 records are judged by encoding/json in the driver and shipped only if damaged) and "
            "~46 syslog records (all levels incl. out-of-range; class 'syslog'). Non-trivial = the message needs escaping or "
            "sanitising, or the configuration is a colour terminal; distinct = distinct (input, line) descriptions")
    trusted_base = ["Coq 8.16.1 kernel + VM (vm_compute for cases)", "in-package Go driver zz_verif_c37_test.go",
                    "oracle: time.Format / time.Parse (timestamp text and its round trip)",
                    "oracle: fmt.Sprintf (formatted message)",
                    "independent oracle: encoding/json.Unmarshal on every real line",
                    "oracle: color.Enable && color.SupportColor() (gookit/color global state), t.Date()/t.Clock()",
                    "log/syslog Writer (header format '<pri>stamp tag[pid]: ') between destinationSysLog and the driver's socket",
                    "models Model/C37_LogJson.v, Model/C37_LogDest.v, Lib/Json.v, Lib/Utf8.v hand-written, tied by correspondence"]
    assumptions = ["timestamps are in years 1..9999 (time.Now)", "fmt.Sprintf(format, args...) is the record's formatted message",
                   "the syslog destination is never structured (upstream design): its records are checked for severity and text only",
                   "concurrent records: Logger.Log holds the mutex (the burst cases observe it, the stream theorem assumes it)"]


PROP = C37()
