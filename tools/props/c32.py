from check import Prop


class C32(Prop):
    pid = "C32"
    check_mod = "C32"
    drivers = [dict(pkg="internal/protocols/moq/subgroup", test="TestVerifC32")]
    n_quick = 5000
    n_thorough = 150000
    shard = 320
    ready = True
    manifest = dict(
        text="Coq theorems over a Gallina transliteration of the MoQ codecs (varint with its 9 length classes, namespace, "
             "delta-typed parameters and properties, the nine control messages, sub-group header/object/stream), built "
             "bottom-up in parser-combinator style: dec (enc x ++ rest) = Ok (x, rest) for every value satisfying the "
             "boolean well-formedness predicate of its type (all 2^64 varints, both varint decoders, canonical/minimal "
             "size), and for every byte string every decoder ends in Ok or Err: no slice/index panic, no make() above the "
             "protocol limit (8, 32 fields, 65535, 128 KiB, 10 MiB), loops bounded by the input. The model is tied to the "
             "code by running the real Marshal/Unmarshal/Read on generated values, the repository's fuzz corpora, mutated "
             "encodings and random bytes and comparing encodings, outcome class, decoded value and consumed count inside Coq.",
        note="Control messages: the full round trip is refuted (C32_message_roundtrip_refuted, payload >= 2^16: length field "
             "silently truncated; KNOWN_FINDINGS) and proved under the guard payload < 2^16. Trusted: Coq kernel+VM, the "
             "in-package driver, that bytes.Reader/io.ReadFull behave as a list of bytes, that make(n) is the only "
             "size-driven allocation; shifts/masks are written as div/mod/+ and tied to Go's >>,&,| by the correspondence "
             "run only. Heap use is additionally observed through runtime.MemStats.TotalAlloc and bounded in spec_fail.",
        technique="Coq proof (bottom-up codec lemmas, induction over lists and fuel; lia with div/mod equations) + "
                  "correspondence by vm_compute")
    rule = ("boundary varints (every 7k-, 8k-2- and 8k-bit boundary +-1, limits) through both varint decoders; all 256 first "
            "bytes; class-boundary first bytes with 0..9 following bytes; the repository's seven fuzz corpora; directed "
            "cases around the 16-bit length field, the 32-field, 128 KiB and 10 MiB limits and lengths that wrap int; then "
            "random structured values of all six types (round trip through the real Marshal and decoder), every truncation "
            "and a flip of every byte of short valid encodings, trailing/inserted/deleted bytes, encodings fed to another "
            "decoder, random bytes. Non-trivial = round trips and successful decodes; distinct = distinct descriptions")
    trusted_base = ["Coq 8.16.1 kernel + VM (vm_compute for cases and for the _refuted witness)",
                    "in-package Go driver zz_verif_c32_test.go (package subgroup) and its Gallina printers",
                    "model Model/C32_Moq.v hand-written, tied by correspondence (encodings, outcome class, value, consumed)",
                    "runtime.MemStats.TotalAlloc as the measure of heap bytes requested by a decoder run"]
    assumptions = ["a Go slice is shorter than 2^63 bytes (int is 64 bit)",
                   "bytes.Reader / io.ReadFull deliver the bytes of the input in order and fail when it is exhausted",
                   "make([]T, n) is the only allocation of the decoders whose size is driven by the input"]

    def known_class(self, case, entries):
        # the finding covers only: a control message with payload >= 2^16 that marshals without
        # complaint and then does not read back; a panic on such a case is still reported
        e = Prop.known_class(self, case, entries)
        if e is None:
            return None
        d = case.get("desc", {}) or {}
        if d.get("case") != "roundtrip" or d.get("decoder") != "message":
            return None
        if str(d.get("observed", "")).startswith("panic") or d.get("len", 0) < 65536 + 3:
            return None
        return e


PROP = C32()
