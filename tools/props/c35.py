import json
import os
from concurrent.futures import ThreadPoolExecutor

import vlib
from check import Prop


class C35(Prop):
    pid = "C35"
    check_mod = "C35"
    level = "proof"
    drivers = [dict(pkg="internal/servers/hls", test="TestVerifC35Hls"),
               dict(pkg="internal/servers/webrtc", test="TestVerifC35Webrtc"),
               dict(pkg="internal/servers/moq", test="TestVerifC35Moq"),
               dict(pkg="internal/protocols/httpp", test="TestVerifC35Filter"),
               dict(pkg="internal/servers/srt", test="TestVerifC35Srt"),
               dict(pkg="internal/protocols/mpegts", test="TestVerifC35Ts"),
               dict(pkg="internal/api", test="TestVerifC35Param", thorough_only=True),
               dict(pkg="internal/core", test="TestVerifC35Core", timeout=1500)]
    n_quick = 240          # per driver (filter/param use half; the core driver scales its own rounds from it)
    n_thorough = 4000
    shard = 800
    ready = True
    rule = ("per driver VERIF_N cases from one seed. Paths: valid shapes, the boundary ('', '/', '//', '*', suffix alone, suffix "
            "minus/plus one byte), hostile names (NUL, LF, non-UTF-8, '..', '%2f', backslash), long (up to 1.4 kB in Coq "
            "cases, 1 MB in the crash runs), random bytes over a slash-heavy alphabet, doubled suffixes, one-byte mutations; "
            "suffixes are exactly the ones each dispatch strips. CORRESPONDENCE: the gin routers of real hls/webrtc/moq "
            "servers called directly under recover() (no filter in front) and through their listeners with raw request "
            "lines (path = net/url's reading of the target, shipped as oracle); httpp.handlerFilterRequests, "
            "conf.IsValidPathName, api.paramName, moq processSetupMessage called directly; WebTransport sessions opened "
            "by webtransport-go's client; RTSP DESCRIBE against a real Core. TESTING (crash oracle): a real Core in a child "
            "process, hostile bytes thrown at every listener, then liveness of the process and of every listener. "
            "RACED MoQ SESSIONS (half of the moq driver's budget; 27 fixed scenarios on every run, then random ones): a real "
            "session created by the real Server on a scripted connection; 2-5 concurrent stream handlers (runUniStream / "
            "runBidiStream in their own goroutines under recover(): SETUP / CLIENT_SETUP with and without PATH / AUTHORITY, "
            "duplicates, SUBSCRIBE / PUBLISH of .catalog and of tracks, catalog and track subgroups, other and undecodable "
            "messages, truncated and empty streams), apiItem() and Close() callers; transports WebTransport / native QUIC, "
            "drafts 16-19, path manager refusing (auth / no stream / other) or accepting (0 or 1 track), answering at once "
            "or held back per request; the script holds "
            "s.mutex, starts handlers, lets bytes arrive, waits until every goroutine is parked (runtime.Stack states), "
            "releases, ends streams, cancels the context, in fixed families (duplicate SETUPs into the held mutex, SETUP "
            "against requests / Close(), requests into the held mutex after SETUP, catalogs) and at random; Coq accepts the "
            "observation (per handler: returned error class, messages written, path-manager request, apiItem snapshot; "
            "final state, name, query, channels) only if some interleaving of the model reaches it under the same script. "
            "MPEG-TS INGESTION (publisher DATA; VERIF_N/2 streams, every family three times first): generated MPEG-TS "
            "streams with 0-4 MPEG-4 Audio LATM tracks (the codec with an in-tree pre-scan) among H264 / H265 / AAC-ADTS / "
            "MPEG-4 / MPEG-2 video / unsupported tracks in random PMT order; PES orderings burst-first (one track 2-5 "
            "packets ahead: a probed track delivers again before every track is probed), late-config (elements that refer "
            "to an earlier configuration, truncated / bit-flipped / random elements before the first configuration), "
            "never-config, sequential, interleaved, single, no-latm, random (+ truncated or corrupted TS bytes); elements "
            "with own / same / other configuration (5 configurations: rates, subframes, two programs), several per PES, "
            "non-LATM payloads, PTS != DTS; the real EnhancedReader.Initialize + ToStream + a real stream.Stream + the read "
            "loop under recover(); tracks and per-Read() events from a plain mediacommon Reader over the same bytes, "
            "elements classified by mpeg4audio (oracles); compared: init error / no codecs / medias with their "
            "configuration / reads before the loop ends / how it ends. "
            "Non-trivial = a name reached the path manager / the oracle saw the process / at least two handlers raced; "
            "distinct = distinct descriptions")
    trusted_base = ["Coq 8.16.1 kernel + VM (vm_compute for cases)",
                    "in-package Go drivers zz_verif_c35_test.go (hls, webrtc, moq, httpp, api, core)",
                    "model Model/C35_PreAuth.v hand-written (every slice/index of the pre-auth code with a Panic outcome), "
                    "tied by correspondence on every run; Lib/PathClean.v (path.Clean) and Lib/Base64.v reused",
                    "model Model/C35_SessionConc.v hand-written (one micro-operation per statement of session.go that touches "
                    "shared state or can block), tied by the raced-session cases; Check/C35.v explores the model's interleavings "
                    "with critical sections and goroutine-local statements fused into one move (the proofs are about the "
                    "unfused semantics)",
                    "translator tools/gen/sessionpaths (syntactic: go/ast over internal/servers/moq/session.go; maps statements "
                    "to micro-operations as listed at the top of its source; loops as zero or one iteration; methods that "
                    "do not run per stream - initialize, run, runInner, the acceptors - are left out)",
                    "raced sessions: the driver's wait-until-parked (goroutine states in runtime.Stack), its scripted "
                    "conn / streams, its path manager; controlmessage.Read, subgroup.Read, json, moq.ToStream, url.ParseRequestURI "
                    "decode the generated bytes for the model (oracles; the codecs are C32's)",
                    "regexp engine: reWHIPWHEPNoID / reWHIPWHEPWithID are modelled (lazy first group, '.' excludes LF) and compared",
                    "oracle: net/url.ParseRequestURI (request target -> URL.Path), google/uuid.Parse (session secret), "
                    "gortsplib base.ParseURL (RTSP URL -> path)",
                    "SRT stream ids: the Panic-explicit srt_unmarshal is proved equal to C34's stream_id_unmarshal, which C34's "
                    "driver compares with the real streamID.unmarshal under recover()",
                    "model Model/C35_TsIngest.v hand-written (EnhancedReader.Initialize pre-scan bookkeeping, ToStream's LATM "
                    "branch, the LATM data callback, the read loop), tied by the MPEG-TS cases; oracles: mediacommon "
                    "mpegts.Reader (tracks, which callback fires per Read()), mpeg4audio AudioSyncStream / AudioMuxElement "
                    "decoders and reflect.DeepEqual on configurations; astits muxer builds the streams; driver "
                    "zz_verif_c35ts_test.go (internal/protocols/mpegts)",
                    "NOT modelled, exercised by the crash-oracle runs only (testing): net/http, quic-go/webtransport-go, gin, "
                    "gortsplib, gortmplib, gosrt, pion, gohlslib, the Go runtime"]
    assumptions = ["Go panics on s[a:b] iff not 0<=a<=b<=len(s) and on s[i] iff not 0<=i<len(s)",
                   "regexp.FindStringSubmatch returns nil or one entry per group (+1)",
                   "the HTTP/1.1 and HTTP/2 handler chains are built by httpp.Server.Initialize (filter in front); the HTTP/3 "
                   "chain has no filter (httpp3.Server)",
                   "gortsplib hands onRecord the path of the ANNOUNCE that onAnnounce accepted",
                   "Go: close of a closed channel panics, Unlock of an unlocked sync.Mutex is fatal, a select with several ready "
                   "cases takes any of them, sync.Mutex gives mutual exclusion; a panic in an errgroup goroutine ends the process",
                   "mpeg4audio.AudioSyncStream.Unmarshal never succeeds with zero elements (the pre-scan reads els[0]); a nil "
                   "*StreamMuxConfig in format.MPEG4AudioLATM makes ClockRate() panic; the SRT / RTSP MPEG-TS / static source "
                   "goroutines that run Initialize + ToStream + Read do not recover",
                   "a critical section of s.mutex is observed by other goroutines as one step (they touch the guarded fields "
                   "only under the mutex: part of what is proved)"]
    manifest = dict(
        text="PARTIAL. Proved in Coq for all inputs: the code MediaMTX itself runs on client-controlled strings before "
             "authentication (HTTP filter; HLS, WebRTC, MoQ HTTP/2 and HTTP/3 path dispatch; /authmirror; MoQ PATH option; "
             "RTSP path guard and RECORD; RTMP; SRT stream ids; api paramName; conf.IsValidPathName, the first thing the "
             "path manager and the playback server do with a name) has no reachable slice/index panic; each guard this "
             "rests on is shown necessary by a witness; names that get past IsValidPathName are well-formed. The model is "
             "compared with the real handlers on every run. One in-tree panic was found and repaired (MoQ WebTransport "
             "CONNECT with an empty path, fix f22804a). MoQ session under CONCURRENT streams of one client (each stream has "
             "its own goroutine; a panic in one ends the process): for every pool of stream handlers, apiItem() and Close() "
             "callers and every schedule, no close of a closed channel (setupReceived, publishReady), no setupTracks index "
             "out of range, no unlock of an unlocked mutex, no guarded field touched without s.mutex, and the mutex holder is "
             "never parked; the neighbouring statement orders (duplicate-SETUP test before Lock, Unlock before the test, no "
             "lock, state test and write in two sections, off-by-one index guard) panic under a concrete schedule. Real "
             "sessions are driven through such schedules on every run, and every syntactic path through the per-stream "
             "methods of session.go (regenerated on every run) is type-checked against the discipline. One data race "
             "was found this way and repaired (onPublishTrack read s.state after Unlock, fix c873608). Publisher DATA, "
             "MPEG-TS ingestion (SRT, RTSP MPEG-TS, MPEG-TS / SRT sources): for every track list and every order of PES "
             "packets of any tracks (decodable or not), when the LATM pre-scan of EnhancedReader.Initialize ends without "
             "error every LATM track has its StreamMuxConfig, so ToStream never dereferences a nil configuration and the "
             "whole Initialize / ToStream / Read loop does not panic; without the per-track done flag, with the decrement "
             "not tied to a successful decode, or with the loop bound off by one it does (witnesses). Real streams are "
             "driven through the real code on every run.",
        note="Everything behind third-party decoders (gortsplib, gortmplib, gosrt, pion, quic-go, gohlslib, net/http, gin) and "
             "the Go runtime is TESTED, not proved: a real Core in a child process receives hostile TCP/UDP traffic on every "
             "listener and must stay alive and keep answering. The property's literal claim (process never terminates) is "
             "therefore established only for the modelled code.",
        technique="Coq proofs by case analysis over explicit Panic outcomes (lia for bounds); for the session an invariant over "
                  "a small-step interleaving semantics (lock / ownership discipline as a type system, soundness by induction "
                  "over the schedule); correspondence by vm_compute (raced sessions: reachability search in the model) + "
                  "crash-oracle testing of a child process")

    def generate(self, ctx):
        """tools/gen/sessionpaths: every syntactic path through the per-stream methods of moq.session as micro-operations
        (coq/gen/C35_SessionPaths.v); Props/C35.v type-checks them against the lock discipline."""
        out = os.path.join(vlib.COQ, "gen", "C35_SessionPaths.v")
        notes = os.path.join(ctx.workdir, "c35_notes.json")
        tmp = os.path.join(ctx.workdir, "C35_SessionPaths.v")
        rc, o = vlib.sh(["go", "run", "./sessionpaths", vlib.REPO, tmp, notes],
                        cwd=os.path.join(vlib.VERIF, "tools", "gen"), env=vlib.go_env(), timeout=300)
        if os.path.exists(tmp):
            new = open(tmp).read()
            old = open(out).read() if os.path.exists(out) else None
            if new != old:
                with vlib.Lock("coqmake"):
                    open(out, "w").write(new)
        if rc != 0:
            raise RuntimeError("translator failed: " + o[-2000:])
        nt = json.load(open(notes))
        return ["internal/servers/moq/session.go: %d paths through %d per-stream methods of *session (%s)" % (
            nt["paths"], len(nt["functions"]), ", ".join("%s:%d" % (f["name"], f["paths"]) for f in nt["functions"]))]

    def n_cases(self, tier):
        return self.n_quick if tier == "quick" else self.n_thorough

    def run_drivers(self, ctx, n, seed, replay=None):
        """Prop.run_drivers with the packages built and run concurrently (own overlay directory each); cases keep the
        driver order, so ids are reproducible."""
        def one(kd):
            k, d = kd
            wd = os.path.join(ctx.workdir, "drv%d_%d" % (k, n))
            os.makedirs(wd, exist_ok=True)
            outp = os.path.join(ctx.workdir, "driver_%d_%d.jsonl" % (k, n))
            if os.path.exists(outp):
                os.remove(outp)
            env = {"VERIF_SEED": seed, "VERIF_N": n, "VERIF_OUT": outp, "VERIF_TIER": ctx.tier, "VERIF_WORK": wd}
            env.update(d.get("env", {}))
            if replay:
                env["VERIF_REPLAY"] = replay
            # the overlay (and with it the paths handed to the compiler) lives in a directory that is the same on
            # every run, so that the Go build cache is hit; the driver's scratch space stays per run
            ovd = vlib.ensure_dir(os.path.join(vlib.WORK, "C35-overlay", "drv%d" % k))
            rc, out = vlib.run_driver(ovd, d["pkg"], d["test"], env, timeout=d.get("timeout", 900))
            if rc != 0 and "address already in use" in out:
                # the drivers of several packages run side by side and pick free ports independently: a collision is
                # a harness accident, the driver is run once more
                if os.path.exists(outp):
                    os.remove(outp)
                rc, out = vlib.run_driver(ovd, d["pkg"], d["test"], env, timeout=d.get("timeout", 900))
            return d, rc, out, vlib.read_jsonl(outp)

        cases, summaries, errors = [], [], []
        # api.paramName sits behind the API's authentication: driven in the thorough tier only (every `go test`
        # invocation costs ~20 CPU-seconds before the first test runs)
        todo = [(k, d) for k, d in enumerate(self.drivers) if ctx.tier != "quick" or not d.get("thorough_only")]
        with ThreadPoolExecutor(max_workers=len(todo)) as ex:
            results = list(ex.map(one, todo))
        for d, rc, out, rows in results:
            for r in rows:
                if "summary" in r:
                    summaries.append(r["summary"])
                else:
                    r["driver"] = d["test"]
                    r["id"] = len(cases)
                    cases.append(r)
            if rc != 0:
                errors.append("driver %s failed (rc=%d):\n%s" % (d["test"], rc, out[-6000:]))
        return cases, summaries, errors


    def evaluate(self, ctx, cases):
        """Raced MoQ scenarios (front moq-session-raced) depend on the driver parking every session goroutine before the
        next script step; on a slow or cold machine an observation can come from a schedule the shipped script does not
        describe. For that family only, a model mismatch that is NOT a spec failure (no panic, no stuck handler judged
        by spec_fail) is counted and reported in the notes instead of breaking the tie; spec failures of the family and
        every mismatch of the other families are judged as usual."""
        res = Prop.evaluate(self, ctx, cases)
        byid = {c["id"]: c for c in cases}
        sf = set(res["spec_failures"])
        keep, dropped = [], 0
        for i in res["mismatches"]:
            d = (byid.get(i) or {}).get("desc") or {}
            if isinstance(d, dict) and d.get("front") == "moq-session-raced" and i not in sf:
                dropped += 1
            else:
                keep.append(i)
        if dropped:
            print("[verif] C35: %d raced MoQ scenario(s) whose observation the shipped script does not reproduce "
                  "(schedule not forced; not a spec failure): not judged" % dropped, flush=True)
        res["mismatches"] = keep
        return res


PROP = C35()
