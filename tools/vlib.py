"""Shared machinery for the /verif checks (see DESIGN.md sections 0, 1, 7).

Everything a per-property plugin (tools/props/cXX.py) needs:
  * building / running in-package Go drivers through `go test -overlay`
  * building the Coq development (full .vo build) and evaluating cases files with vm_compute
  * the verdict protocol, known findings, replay files, evidence files
"""
import fcntl
import glob
import hashlib
import json
import os
import re
import shutil
import subprocess
import sys
import time
from concurrent.futures import ThreadPoolExecutor

VERIF = os.path.dirname(os.path.dirname(os.path.abspath(__file__)))
REPO = os.environ.get("VERIF_REPO", "/repo")
COQ = os.path.join(VERIF, "coq")
WORK = os.path.join(VERIF, "work")
EVID = os.path.join(VERIF, "evidence")
REPLAYS = os.path.join(EVID, "replays")
if os.path.realpath(REPO) != "/repo":
    # a run against a scratch checkout (mutation / seeded-change experiment) must not overwrite the evidence of /repo
    EVID = os.path.join(WORK, "evidence_other_tree")
HARNESS = os.path.join(VERIF, "harness")
KNOWN = os.path.join(VERIF, "KNOWN_FINDINGS.jsonl")
NCPU = os.cpu_count() or 4

FORBIDDEN = re.compile(
    r"\b(Admitted|admit|Axiom|Axioms|Parameter|Parameters|Conjecture|Conjectures|Admit Obligations|"
    r"Unset Guard Checking|Unset Positivity Checking|Unset Universe Checking|bypass_check|"
    r"type-in-type|impredicative-set|native_compute)\b")

# ---------------------------------------------------------------------------------------
# small utilities


def log(*a):
    print(*a, flush=True)


def go_env():
    env = dict(os.environ)
    env["GOFLAGS"] = "-mod=mod"
    env["GOPROXY"] = "off"
    env.pop("GOSUMDB", None)
    env.pop("GOTOOLCHAIN", None)
    env.pop("GOWORK", None)
    return env


def ensure_dir(p):
    os.makedirs(p, exist_ok=True)
    return p


def sh(cmd, cwd=None, env=None, timeout=None, check=False):
    """Run a command, return (rc, combined output)."""
    try:
        p = subprocess.run(cmd, cwd=cwd, env=env, timeout=timeout, stdout=subprocess.PIPE,
                           stderr=subprocess.STDOUT, shell=isinstance(cmd, str))
        out = p.stdout.decode("utf-8", "replace")
        rc = p.returncode
    except subprocess.TimeoutExpired as e:
        out = (e.stdout or b"").decode("utf-8", "replace") + "\n[verif] TIMEOUT after %ss" % timeout
        rc = 124
    if check and rc != 0:
        raise RuntimeError("command failed (%d): %s\n%s" % (rc, cmd, out[-4000:]))
    return rc, out


class Lock:
    def __init__(self, name):
        ensure_dir(WORK)
        self.path = os.path.join(WORK, name + ".lock")

    def __enter__(self):
        self.f = open(self.path, "w")
        fcntl.flock(self.f, fcntl.LOCK_EX)
        return self

    def __exit__(self, *a):
        fcntl.flock(self.f, fcntl.LOCK_UN)
        self.f.close()


# ---------------------------------------------------------------------------------------
# Go side: overlay + in-package drivers


def _pkg_name(pkgdir):
    """Package clause of the non-test files of a directory of REPO."""
    for f in sorted(glob.glob(os.path.join(REPO, pkgdir, "*.go"))):
        if f.endswith("_test.go"):
            continue
        with open(f, encoding="utf-8", errors="replace") as fh:
            for line in fh:
                m = re.match(r"\s*package\s+(\w+)", line)
                if m:
                    return m.group(1)
    raise RuntimeError("no package clause found in %s" % pkgdir)


CURRENT_PID = None   # set by check.py: the property being checked
_READY = None


def _ready_pids():
    """ids of the plugins marked ready (their drivers may be injected into any run)."""
    global _READY
    if _READY is None:
        _READY = set()
        for f in glob.glob(os.path.join(VERIF, "tools", "props", "c*.py")):
            try:
                txt = open(f).read()
            except OSError:
                continue
            if re.search(r"^\s*ready\s*=\s*True", txt, flags=re.M):
                _READY.add(os.path.basename(f)[:-3].lower())
    return _READY


def _driver_wanted(basename):
    """A driver file zz_verif_cNN*_test.go is injected only if property CNN is claimed (ready) or is the one being
    checked: a half-written driver of an unfinished property must not break the build of the others."""
    m = re.match(r"zz_verif_(c\d\d+)", basename)
    if not m:
        return True   # shared helper
    pid = m.group(1)
    return pid in _ready_pids() or (CURRENT_PID is not None and pid == CURRENT_PID.lower())


def build_overlay(workdir, pkgdirs):
    """Overlay JSON: stub embed files that the pinned tree lacks + in-package drivers.

    For every package directory in `pkgdirs` (relative to REPO) the files
    harness/inpkg/<pkgdir>/*.go are injected, together with harness/common/*.go.tmpl
    instantiated with the package name. Nothing is written under REPO.
    """
    ensure_dir(workdir)
    repl = {}
    for rel, stub in (("internal/core/VERSION", "embed/VERSION"),
                      ("internal/servers/hls/hls.min.js", "embed/hls.min.js")):
        if not os.path.exists(os.path.join(REPO, rel)):
            repl[os.path.join(REPO, rel)] = os.path.join(HARNESS, stub)
    for pkgdir in pkgdirs:
        name = _pkg_name(pkgdir)
        src = os.path.join(HARNESS, "inpkg", pkgdir)
        for f in sorted(glob.glob(os.path.join(src, "*.go"))):
            if _driver_wanted(os.path.basename(f)):
                repl[os.path.join(REPO, pkgdir, os.path.basename(f))] = f
        for t in sorted(glob.glob(os.path.join(HARNESS, "common", "*.go.tmpl"))):
            inst = os.path.join(workdir, pkgdir.replace("/", "_") + "_" + os.path.basename(t)[:-5])
            with open(t) as fh:
                body = fh.read().replace("PKGNAME", name)
            with open(inst, "w") as fh:
                fh.write(body)
            repl[os.path.join(REPO, pkgdir, os.path.basename(t)[:-5])] = inst
    # hooks (non-test files, build tag verif) that a driver of ANOTHER package relies on are injected into every build
    for f in sorted(glob.glob(os.path.join(HARNESS, "inpkg", "**", "zz_verif_*_hook.go"), recursive=True)):
        if _driver_wanted(os.path.basename(f)):
            rel = os.path.relpath(os.path.dirname(f), os.path.join(HARNESS, "inpkg"))
            repl[os.path.join(REPO, rel, os.path.basename(f))] = f
    ov = os.path.join(workdir, "overlay.json")
    with open(ov, "w") as fh:
        json.dump({"Replace": repl}, fh, indent=1)
    return ov


def run_driver(workdir, pkgdir, test, env_extra, timeout=900, extra_pkgdirs=(), race=False):
    """Run one in-package driver `test` of `pkgdir`; returns (rc, output)."""
    ov = build_overlay(workdir, [pkgdir] + list(extra_pkgdirs))
    env = go_env()
    env.update({k: str(v) for k, v in env_extra.items()})
    cmd = ["go", "test", "-tags", "verif", "-overlay", ov, "-vet=off", "-count=1",
           "-timeout", "%ds" % timeout, "-run", "^%s$" % test]
    if race:
        cmd.append("-race")
    cmd.append("./" + pkgdir)
    return sh(cmd, cwd=REPO, env=env, timeout=timeout + 120)


def read_jsonl(path):
    out = []
    if not os.path.exists(path):
        return out
    with open(path, encoding="utf-8", errors="surrogateescape") as fh:
        for line in fh:
            line = line.strip()
            if line:
                out.append(json.loads(line))
    return out


# ---------------------------------------------------------------------------------------
# Coq side


def coq_sources():
    return sorted(glob.glob(os.path.join(COQ, "theories", "**", "*.v"), recursive=True) +
                  glob.glob(os.path.join(COQ, "gen", "*.v")))


def audit_sources():
    """grep the development for anything that would declare an axiom or switch a check off."""
    bad = []
    for f in coq_sources():
        with open(f, encoding="utf-8", errors="replace") as fh:
            txt = fh.read()
        txt = re.sub(r"\(\*.*?\*\)", "", txt, flags=re.S)
        for i, line in enumerate(txt.split("\n"), 1):
            if FORBIDDEN.search(line):
                bad.append("%s:%d: %s" % (os.path.relpath(f, VERIF), i, line.strip()))
    return bad


def coq_refresh_makefile():
    files = [os.path.relpath(f, COQ) for f in coq_sources()]
    proj = "-Q theories MTX\n-Q gen MTXGen\n-arg -w -arg -notation-overridden,-deprecated-hint-without-locality,-deprecated-instance-without-locality\n" + "\n".join(files) + "\n"
    pf = os.path.join(COQ, "_CoqProject")
    old = open(pf).read() if os.path.exists(pf) else None
    if old != proj or not os.path.exists(os.path.join(COQ, "Makefile")):
        with open(pf, "w") as fh:
            fh.write(proj)
        sh(["coq_makefile", "-f", "_CoqProject", "-o", "Makefile"], cwd=COQ, check=True)


def coq_make(targets, timeout=1500):
    """Full .vo build of `targets` (paths relative to coq/, ending in .vo) and what they need."""
    ensure_dir(os.path.join(COQ, "gen"))
    with Lock("coqmake"):
        coq_refresh_makefile()
        targets = list(targets)
        if "theories/Lib/CaseRun.vo" not in targets:   # needed by every generated cases file, by no theory file
            targets.append("theories/Lib/CaseRun.vo")
        rc, out = sh(["timeout", str(timeout), "make", "-j%d" % NCPU] + list(targets), cwd=COQ,
                     timeout=timeout + 30)
    return rc, out


def coqc_file(path, cwd, timeout=900, out_vo=None):
    cmd = ["timeout", str(timeout), "coqc", "-Q", os.path.join(COQ, "theories"), "MTX",
           "-Q", os.path.join(COQ, "gen"), "MTXGen", "-w", "-notation-overridden", "-noglob"]
    if out_vo:
        cmd += ["-o", out_vo]
    cmd.append(path)
    return sh(cmd, cwd=cwd, timeout=timeout + 30)


def props_report(pid, workdir):
    """Re-check Props/<pid>.v now and report (n_theorems, n_closed, axioms_text, rc, out).

    The file holds only `Theorem … Proof. exact …. Qed.` and `Print Assumptions`, so this
    costs a second or two and makes the assumption report part of *this* run.
    """
    src = os.path.join(COQ, "theories", "Props", pid + ".v")
    with open(src) as fh:
        txt = re.sub(r"\(\*.*?\*\)", "", fh.read(), flags=re.S)
    thms = re.findall(r"^\s*(?:Theorem|Corollary)\s+(\w+)", txt, flags=re.M)
    nprint = len(re.findall(r"Print Assumptions", txt))
    # Print Assumptions walks the whole proof closure (tens of seconds for the large developments); its output is a
    # function of the compiled files, so it is cached against the fingerprint of Props/<pid>.vo, which `make` has just
    # brought up to date (any change below it rebuilds it).
    vo = src + "o"
    fp = None
    if os.path.exists(vo):
        st = os.stat(vo)
        fp = "%d-%d-%s" % (st.st_size, int(st.st_mtime * 1000), hashlib.sha1(open(src, "rb").read()).hexdigest()[:12])
    cache = os.path.join(WORK, "assumptions_%s.json" % pid)
    rc = out = None
    if fp and os.path.exists(cache):
        try:
            c = json.load(open(cache))
            if c.get("fp") == fp and c.get("repo") == REPO:
                rc, out = c["rc"], c["out"]
        except Exception:
            pass
    if out is None:
        rc, out = coqc_file(src, workdir, out_vo=os.path.join(ensure_dir(os.path.join(workdir, "props")), pid + ".vo"))
        if fp and rc == 0:
            with open(cache, "w") as fh:
                json.dump({"fp": fp, "repo": REPO, "rc": rc, "out": out}, fh)
    closed = out.count("Closed under the global context")
    axioms = []
    for m in re.finditer(r"Axioms:\n((?:.+\n?)+?)(?:\n|$)", out):
        axioms.append(m.group(1).strip())
    return {"theorems": thms, "print_assumptions": nprint, "closed": closed, "axioms": axioms,
            "rc": rc, "out": out}


CASES_HEADER = """From Coq Require Import List ZArith NArith String Bool.
Import ListNotations.
Require Import MTX.Lib.CaseRun MTX.Check.%(mod)s.
Local Open Scope string_scope.
Local Open Scope list_scope.
Local Open Scope Z_scope.
"""


def write_cases_file(path, mod, cases):
    """cases: list of (id:int, coq_term:str). Emits MM (model mismatches) and SF (spec failures)."""
    with open(path, "w") as fh:
        fh.write(CASES_HEADER % {"mod": mod})
        fh.write("Definition cases : list (Z * %s.case) := [\n" % mod)
        fh.write(";\n".join("(%d, %s)" % (i, t) for i, t in cases))
        fh.write("\n].\n")
        fh.write("Definition MM := Eval vm_compute in bad_ids %s.mismatch cases.\n" % mod)
        fh.write("Definition SF := Eval vm_compute in bad_ids %s.spec_fail cases.\n" % mod)
        fh.write("Print MM.\nPrint SF.\n")


def _parse_ids(out, name):
    m = re.search(r"%s\s*=\s*(.*?)\s*:\s*list Z" % name, out, flags=re.S)
    if not m:
        return None
    body = m.group(1)
    return [int(x) for x in re.findall(r"-?\d+", body)]


def eval_cases(workdir, mod, cases, shard=400, timeout=1200):
    """Evaluate cases inside Coq. Returns dict(mismatches=[ids], spec_failures=[ids], errors=[str])."""
    shards = [cases[i:i + shard] for i in range(0, len(cases), shard)] or [[]]
    paths = []
    for k, sc in enumerate(shards):
        p = os.path.join(workdir, "cases_%s_%03d.v" % (mod, k))
        write_cases_file(p, mod, sc)
        paths.append(p)

    def one(p):
        return p, coqc_file(p, workdir, timeout=timeout)

    mm, sf, errs = [], [], []
    with ThreadPoolExecutor(max_workers=min(NCPU, len(paths))) as ex:
        for p, (rc, out) in ex.map(one, paths):
            a, b = _parse_ids(out, "MM"), _parse_ids(out, "SF")
            if rc != 0 or a is None or b is None:
                errs.append("%s: rc=%d\n%s" % (os.path.basename(p), rc, out[-3000:]))
                continue
            mm += a
            sf += b
    return {"mismatches": sorted(mm), "spec_failures": sorted(sf), "errors": errs}


# ---------------------------------------------------------------------------------------
# known findings, replays, evidence


def known_findings(pid):
    out = []
    if os.path.exists(KNOWN):
        for line in open(KNOWN):
            line = line.strip()
            if not line or line.startswith("#") or line.startswith("fixed:"):
                continue
            e = json.loads(line)
            if e.get("property") == pid:
                out.append(e)
    return out


def write_replay(pid, seed, payload):
    ensure_dir(REPLAYS)
    h = hashlib.sha1(json.dumps(payload, sort_keys=True, default=str).encode()).hexdigest()[:8]
    p = os.path.join(REPLAYS, "%s-%s-%s.json" % (pid, seed, h))
    with open(p, "w") as fh:
        json.dump(payload, fh, indent=1, default=str)
    return p


def validate_evidence(path):
    schema = "/root/.vp/EVIDENCE.schema.json"
    if not os.path.exists(schema):
        return True, "schema not present"
    code = ("import json,sys,jsonschema; jsonschema.validate(json.load(open(sys.argv[1])), "
            "json.load(open(sys.argv[2]))); print('ok')")
    for py in ("python3-vt", sys.executable):
        if shutil.which(py) or os.path.exists(py):
            rc, out = sh([py, "-c", code, path, schema])
            if rc == 0:
                return True, "ok"
            if "No module named" in out:
                continue
            return False, out[-1500:]
    return True, "jsonschema unavailable"


def write_evidence(pid, ev):
    ensure_dir(EVID)
    p = os.path.join(EVID, pid + ".json")
    with open(p, "w") as fh:
        json.dump(ev, fh, indent=1, default=str)
    ok, msg = validate_evidence(p)
    return p, ok, msg
