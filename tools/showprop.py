import json,sys
want=sys.argv[1:]
for l in open('/verif/properties.jsonl'):
    p=json.loads(l)
    if p['id'] in want:
        print('=====',p['id'],p['title'])
        print('STATEMENT:',p['statement'])
        print('QUANT:',p['quantifier']['text'])
        print('WHY:',p['why_tests_cant'])
        a=p['anchors']
        print('FILES:',a['files'])
        for m in a.get('mechanism',[]): print('  MECH:',m)
        for m in a.get('state',[]): print('  STATE:',m)
        print('OBS:',a.get('observe_at'),'HOOK:',a.get('hook_needed'))
