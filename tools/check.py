#!/usr/bin/env python3
"""Orchestrator: python3 tools/check.py Cxx [--tier quick|thorough] [--replay file] | --setup

Implements the verdict protocol of DESIGN.md section 0 for every property plugin in
tools/props/. Exit 0 = property held on everything explored (KNOWN-FINDING lines allowed),
exit 1 + `VIOLATION property=<id> replay=<path>` otherwise.
"""
import argparse
import importlib
import json
import os
import shutil
import sys
import time
import traceback

sys.path.insert(0, os.path.dirname(os.path.abspath(__file__)))
import vlib  # noqa: E402
from vlib import log  # noqa: E402


class Ctx:
    def __init__(self, pid, tier, seed):
        self.pid, self.tier, self.seed = pid, tier, seed
        vlib.CURRENT_PID = pid
        self.workdir = vlib.ensure_dir(os.path.join(vlib.WORK, "%s-%s-%d" % (pid, tier, os.getpid())))
        vlib.ensure_dir(os.path.join(vlib.COQ, "gen"))
        self.t0 = time.time()
        self.notes = []


class Prop:
    """Base class of a property plugin (H-style: hand model + correspondence, optional T step)."""
    pid = None
    check_mod = None            # Coq module MTX.Check.<check_mod> with `case`, `mismatch`, `spec_fail`
    drivers = []                # [dict(pkg=..., test=..., extra_pkgs=[...], env={...}, timeout=...)]
    n_quick = 500
    n_thorough = 20000
    search_factor = 10          # budget multiplier of the search run after a broken tie
    shard = 400
    level = "proof"
    rule = ""
    trusted_base = []
    assumptions = []
    allowed_axioms = []         # names of stdlib axioms that may appear under Print Assumptions
    extra_coq_targets = []

    # ---- hooks a plugin may override -------------------------------------------------
    def generate(self, ctx):
        """Translator step: (re)write coq/gen/*.v from REPO. Return list of notes; raise on failure."""
        return []

    def known_class(self, case, entries):
        """Return the KNOWN_FINDINGS entry that covers this failing case, or None."""
        for e in entries:
            m = e.get("match", {})
            if m and all(case.get("desc", {}).get(k) == v for k, v in m.items()):
                return e
            if e.get("class") and e.get("class") == case.get("class"):
                return e
        return None

    def n_cases(self, tier):
        return self.n_quick if tier == "quick" else self.n_thorough

    def extra_checks(self, ctx, cases):
        """Additional Python-side checks; return list of dict(kind='spec'|'tie', what=..., case=...)."""
        return []

    # ---- machinery -------------------------------------------------------------------
    def coq_targets(self):
        t = ["theories/Props/%s.vo" % self.pid]
        if self.check_mod:
            t.insert(0, "theories/Check/%s.vo" % self.check_mod)
        return t + list(self.extra_coq_targets)

    def run_drivers(self, ctx, n, seed, replay=None):
        cases, summaries, errors = [], [], []
        for k, d in enumerate(self.drivers):
            outp = os.path.join(ctx.workdir, "driver_%d_%d.jsonl" % (k, n))
            if os.path.exists(outp):
                os.remove(outp)
            env = {"VERIF_SEED": seed, "VERIF_N": n, "VERIF_OUT": outp, "VERIF_TIER": ctx.tier,
                   "VERIF_WORK": ctx.workdir}
            env.update(d.get("env", {}))
            if replay:
                env["VERIF_REPLAY"] = replay
            rc, out = vlib.run_driver(ctx.workdir, d["pkg"], d["test"], env,
                                      timeout=d.get("timeout", 900),
                                      extra_pkgdirs=d.get("extra_pkgs", ()), race=d.get("race", False))
            rows = vlib.read_jsonl(outp)
            for r in rows:
                if "summary" in r:
                    summaries.append(r["summary"])
                else:
                    r["driver"] = d["test"]
                    r["id"] = len(cases)
                    cases.append(r)
            if rc != 0:
                errors.append("driver %s failed (rc=%d):\n%s" % (d["test"], rc, out[-6000:]))
        return cases, summaries, errors

    def evaluate(self, ctx, cases):
        coq_cases = [(c["id"], c["coq"]) for c in cases if c.get("coq")]
        if not self.check_mod or not coq_cases:
            return {"mismatches": [], "spec_failures": [], "errors": []}
        return vlib.eval_cases(ctx.workdir, self.check_mod, coq_cases, shard=self.shard,
                               timeout=4800 if ctx.tier == "thorough" else 1200)


def load_plugin(pid):
    mod = importlib.import_module("props." + pid.lower())
    return mod.PROP


def finish(ctx, prop, status, ev_cov, violations, known_lines, extra=None):
    """Write evidence, print verdict lines, return exit code."""
    wall = time.time() - ctx.t0
    ev = {
        "property_id": ctx.pid, "tier": ctx.tier, "seed": int(ctx.seed), "level": prop.level,
        "coverage": ev_cov, "assumptions": list(prop.assumptions), "wall_s": round(wall, 2),
        "violations": len(violations),
    }
    if extra:
        ev["coverage"].update(extra)
    p, ok, msg = vlib.write_evidence(ctx.pid, ev)
    for k in known_lines:
        log(k)
    rc = 0
    for v in violations:
        log(v)
        rc = 1
    if not ok:
        log("evidence file does not validate: " + msg)
        rc = rc or 2
    log("[verif] %s %s tier=%s seed=%s wall=%.1fs evidence=%s" % (ctx.pid, status, ctx.tier, ctx.seed, wall, p))
    if os.environ.get("VERIF_KEEP") != "1":
        shutil.rmtree(ctx.workdir, ignore_errors=True)
    return rc


def run_check(pid, tier, seed, replay=None):
    prop = load_plugin(pid)
    ctx = Ctx(pid, tier, seed)
    ties_broken = []   # list of (what, detail)
    violations, known_lines = [], []

    if hasattr(prop, "run_custom"):
        return prop.run_custom(ctx, finish)

    # 0. audit of the Coq sources
    bad = vlib.audit_sources()
    if bad:
        ties_broken.append(("audit", "forbidden declaration(s): " + "; ".join(bad[:5])))

    # 1. translator step + build
    gen_notes = []
    try:
        gen_notes = prop.generate(ctx) or []
    except Exception as e:  # translator failed: tie broken
        ties_broken.append(("translator", "%s\n%s" % (e, traceback.format_exc()[-1500:])))
    targets = prop.coq_targets()
    model_ok, proofs_ok = True, True
    if prop.check_mod:
        rc, out = vlib.coq_make([targets[0]])
        if rc != 0:
            model_ok = False
            ties_broken.append(("model-build", out[-3000:]))
    rc, out = vlib.coq_make(targets)
    if rc != 0:
        proofs_ok = False
        ties_broken.append(("proof", "make %s failed:\n%s" % (" ".join(targets), out[-3000:])))
    rep = {"theorems": [], "closed": 0, "print_assumptions": 0, "axioms": []}
    if proofs_ok:
        rep = vlib.props_report(pid, ctx.workdir)
        if rep["rc"] != 0:
            proofs_ok = False
            ties_broken.append(("proof", "Props/%s.v no longer checks:\n%s" % (pid, rep["out"][-3000:])))
        else:
            unexpected = [a for a in rep["axioms"] if not any(x in a for x in prop.allowed_axioms)]
            if rep["closed"] + len(rep["axioms"]) < len(rep["theorems"]):
                ties_broken.append(("assumptions", "Print Assumptions missing under some theorem of Props/%s.v" % pid))
            if unexpected:
                ties_broken.append(("assumptions", "unexpected axioms: %s" % unexpected))

    # 1b. thorough tier: independent re-check of the property's .vo closure with coqchk (lists the axioms it relies on)
    coqchk_report = None
    if tier == "thorough" and proofs_ok and os.environ.get("VERIF_NO_COQCHK") != "1":
        rc, out = vlib.sh(["timeout", "3000", "coqchk", "-silent", "-o", "-Q", "theories", "MTX", "-Q", "gen", "MTXGen",
                           "MTX.Props." + pid], cwd=vlib.COQ, timeout=3100)
        tail = out[-1500:]
        coqchk_report = {"rc": rc, "summary": " ".join(tail.split())[-900:]}
        if rc == 124 or "TIMEOUT after" in out:
            # the independent re-check did not finish within its time limit: recorded in the evidence, not a verdict
            # (the theorems were checked by coqc's kernel in the full .vo build above and Print Assumptions was audited)
            coqchk_report["summary"] = "coqchk did not finish within 3000 s (not a verdict); " + coqchk_report["summary"]
            log("[verif] coqchk did not finish within its time limit; continuing without its report")
        elif rc != 0:
            ties_broken.append(("coqchk", tail))
        elif "* Axioms: <none>" not in out and not prop.allowed_axioms:
            ties_broken.append(("coqchk", "coqchk reports axioms: " + tail))

    # 2. correspondence run
    n = prop.n_cases(tier)
    cases, summaries, derrs = [], [], []
    res = {"mismatches": [], "spec_failures": [], "errors": []}
    if prop.drivers:
        cases, summaries, derrs = prop.run_drivers(ctx, n, seed, replay)
        for e in derrs:
            ties_broken.append(("driver", e))
        if model_ok:
            res = prop.evaluate(ctx, cases)
            for e in res["errors"]:
                ties_broken.append(("cases-eval", e))
    extra_findings = prop.extra_checks(ctx, cases) if cases or not prop.drivers else []

    # 3. broken tie but no failing input yet: search with a larger budget
    searched = 0
    if (ties_broken or res["mismatches"]) and not res["spec_failures"] and prop.drivers and model_ok \
            and not any(k == "driver" for k, _ in ties_broken) and not replay:
        n2 = n * prop.search_factor
        log("[verif] tie broken (%s); searching for a failing input with %d cases" %
            (", ".join(sorted({k for k, _ in ties_broken} | ({"mismatch"} if res["mismatches"] else set()))), n2))
        cases2, _, derrs2 = prop.run_drivers(ctx, n2, int(seed) + 1)
        if not derrs2:
            res2 = prop.evaluate(ctx, cases2)
            searched = len(cases2)
            if res2["spec_failures"]:
                cases, res = cases2, res2

    byid = {c["id"]: c for c in cases}
    entries = vlib.known_findings(pid)

    unknown = []   # (case, what) not covered by a known finding

    def handle_spec_failure(case, what):
        e = prop.known_class(case, entries)
        if e is not None:
            line = "KNOWN-FINDING: property=%s %s" % (pid, e.get("what_fails", e.get("class", "")))
            if line not in known_lines:
                known_lines.append(line)
            return
        unknown.append((case, what))

    for i in res["spec_failures"]:
        handle_spec_failure(byid.get(i, {"id": i}), "boolean form of the property is false on the implementation's observed output")
    for f in extra_findings:
        if f.get("kind") == "spec":
            handle_spec_failure(f.get("case", {}), f.get("what", ""))
        else:
            ties_broken.append((f.get("kind", "tie"), f.get("what", "")))
    if unknown:
        # "shrinking" across the run: report the smallest failing case, list the others in the replay file
        unknown.sort(key=lambda cw: len(json.dumps(cw[0].get("desc"), default=str)))
        case, what = unknown[0]
        keys = ("id", "driver", "desc", "class", "coq")
        payload = {"property": pid, "seed": int(seed), "tier": tier, "n": len(cases), "kind": "spec_failure",
                   "what": what, "case": {k: case.get(k) for k in keys},
                   "failing_cases_total": len(unknown),
                   "other_failures": [{k: c.get(k) for k in ("id", "desc", "class")} for c, _ in unknown[1:11]]}
        path = vlib.write_replay(pid, seed, payload)
        violations.append("VIOLATION property=%s replay=%s" % (pid, path))

    # mismatches on cases that are not spec failures are reported even when all spec failures are known findings
    mm_only = [i for i in res["mismatches"] if i not in set(res["spec_failures"])]
    if mm_only and not unknown:
        sample = [byid.get(i, {"id": i}) for i in mm_only[:5]]
        ties_broken.append(("correspondence", "model and implementation differ on %d case(s), e.g. %s" %
                            (len(mm_only), json.dumps([s.get("desc") for s in sample], default=str)[:1500])))

    if ties_broken and not violations:
        # the property is no longer shown to hold; no concrete failing input in hand
        payload = {"property": pid, "seed": int(seed), "tier": tier, "kind": "tie_broken",
                   "no_longer_checks": [{"what": k, "detail": d} for k, d in ties_broken],
                   "theorems": rep["theorems"], "searched_cases": searched,
                   "mismatch_samples": [byid.get(i, {"id": i}) for i in res["mismatches"][:10]]}
        path = vlib.write_replay(pid, seed, payload)
        violations.append("VIOLATION property=%s replay=%s no-failing-input-found" % (pid, path))
    elif ties_broken:
        for k, d in ties_broken:
            log("[verif] also: %s no longer checks: %s" % (k, d[:400]))

    # 4. evidence
    classes = {}
    for c in cases:
        classes[c.get("class", "?")] = classes.get(c.get("class", "?"), 0) + 1
    distinct = len({json.dumps(c.get("desc"), sort_keys=True, default=str) for c in cases if c.get("nontrivial", True)})
    nthm = len(rep["theorems"])
    cov = {
        "obligations": max(nthm, 1),
        "discharged": nthm if proofs_ok else 0,
        "checker_cmd": "make -C coq %s (coqc 8.16.1, full .vo) ; coqc Props/%s.v ; coqc cases_*.v (vm_compute)" % (" ".join(targets), pid),
        "trusted_base": list(prop.trusted_base) + ["Print Assumptions: %d/%d theorems 'Closed under the global context'%s" % (
            rep["closed"], nthm, ("; axioms: " + " | ".join(rep["axioms"])) if rep["axioms"] else "")],
        "theorems": rep["theorems"],
        "evaluations": len(cases) + searched,
        "distinct_nontrivial": distinct,
        "traces_validated_against_impl": len(cases),
        "rule": prop.rule,
        "samples": [c.get("desc") for c in cases[:3]] + [c.get("desc") for c in cases[-2:]] if cases else [],
        "input_distribution": classes,
        "driver_summaries": summaries,
        "mismatches": len(res["mismatches"]),
        "spec_failures": len(res["spec_failures"]),
        "known_findings_reported": known_lines,
        "translator_notes": gen_notes,
        "ties_broken": [k for k, _ in ties_broken],
        "coqchk": coqchk_report,
        "exhaustive": False,
    }
    if not proofs_ok:
        del cov["obligations"], cov["discharged"]
        cov["evaluations"] = max(cov["evaluations"], 1)
    status = "HELD" if not violations else "VIOLATION"
    return finish(ctx, prop, status, cov, violations, known_lines)


def setup():
    """Build what the claimed (ready) checks need: their Coq targets (full .vo) and a warm Go build cache."""
    t0 = time.time()
    vlib.ensure_dir(vlib.WORK)
    bad = vlib.audit_sources()
    if bad:
        log("audit: " + "\n".join(bad))
    import glob
    pids = sorted(os.path.basename(f)[:-3].upper() for f in glob.glob(os.path.join(vlib.VERIF, "tools", "props", "c*.py")))
    props = []
    for pid in pids:
        try:
            prop = load_plugin(pid)
        except Exception as e:
            log("[setup] plugin %s does not load: %s" % (pid, e))
            continue
        if getattr(prop, "ready", False):
            props.append(prop)
    # translators first (generated .v files are needed by the build)
    ctxs = []
    for prop in props:
        ctx = Ctx(prop.pid, "quick", 1)
        ctxs.append(ctx)
        try:
            prop.generate(ctx)
        except Exception as e:
            log("[setup] translator of %s failed: %s" % (prop.pid, e))
    targets = []
    for prop in props:
        for t in prop.coq_targets():
            if t not in targets:
                targets.append(t)
    rc, out = vlib.coq_make(["-k"] + targets, timeout=3000)
    log(out[-2500:])
    log("[setup] coq: %d targets rc=%d after %.0fs" % (len(targets), rc, time.time() - t0))
    # warm the Go build cache for every driven package
    pkgs = []
    for prop in props:
        for d in getattr(prop, "drivers", []):
            for p in [d["pkg"]] + list(d.get("extra_pkgs", [])):
                if p not in pkgs and os.path.isdir(os.path.join(vlib.REPO, p)):
                    pkgs.append(p)
        for p in getattr(prop, "warm_pkgs", []):
            if p not in pkgs and os.path.isdir(os.path.join(vlib.REPO, p)):
                pkgs.append(p)
    wd = vlib.ensure_dir(os.path.join(vlib.WORK, "setup"))
    rc2 = 0
    if pkgs:
        ov = vlib.build_overlay(wd, pkgs)
        rc2, out = vlib.sh(["go", "test", "-tags", "verif", "-overlay", ov, "-vet=off", "-count=1", "-run", "^$"] +
                           ["./" + p for p in pkgs], cwd=vlib.REPO, env=vlib.go_env(), timeout=3000)
        log(out[-2500:])
    for c in ctxs:
        shutil.rmtree(c.workdir, ignore_errors=True)
    shutil.rmtree(wd, ignore_errors=True)
    log("[setup] done in %.0fs coq_rc=%d go_rc=%d (a failing target only affects the checks that need it)" %
        (time.time() - t0, rc, rc2))
    return 0


def main():
    ap = argparse.ArgumentParser()
    ap.add_argument("pid", nargs="?")
    ap.add_argument("--tier", default=os.environ.get("VERIF_TIER", "quick"), choices=["quick", "thorough"])
    ap.add_argument("--replay")
    ap.add_argument("--setup", action="store_true")
    a = ap.parse_args()
    if a.setup:
        sys.exit(setup())
    seed = int(os.environ.get("VERIF_SEED", "1") or "1")
    if a.replay:
        payload = json.load(open(a.replay))
        seed = payload.get("seed", seed)
        log("[replay] %s" % json.dumps(payload.get("case", payload.get("no_longer_checks")), default=str)[:3000])
        os.environ["VERIF_KEEP"] = os.environ.get("VERIF_KEEP", "0")
        sys.exit(run_check(a.pid, payload.get("tier", a.tier), seed, replay=a.replay))
    sys.exit(run_check(a.pid, a.tier, seed))


if __name__ == "__main__":
    main()
