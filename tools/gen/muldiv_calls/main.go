// Call-site inventory for C24: finds every CALL of a timestamp scaling helper (multiplyAndDivide, multiplyAndDivide2,
// timestampToDuration, durationToTimestamp, durationGoToMp4, durationMp4ToGo) in the non-test files of <repo>/internal and
// prints, per call, the converted value expression and the source / destination rate expressions (go/printer text).
// The list is compared by Coq with the table of Model/C24_CallSites.v (which says which quantity each call converts).
//
// usage: muldiv_calls <repo> <out.v> <notes.json> [table]
//   with a 4th argument the Gallina rows of a fresh model table are written to that file (bootstrap aid, reviewed by hand).
package main

import (
	"bytes"
	"encoding/json"
	"fmt"
	"go/ast"
	"go/parser"
	"go/printer"
	"go/token"
	"os"
	"path/filepath"
	"sort"
	"strings"
)

var helperKinds = map[string]string{
	"multiplyAndDivide": "muldiv3", "multiplyAndDivide2": "muldiv3", "timestampToDuration": "to_nanos",
	"durationToTimestamp": "from_nanos", "durationGoToMp4": "from_nanos", "durationMp4ToGo": "to_nanos",
}

type call struct {
	File, Func, Callee, Value, From, To, Class string
	Line                                    int
	Spf                                     string
}

func text(fset *token.FileSet, e ast.Expr) string {
	var b bytes.Buffer
	printer.Fprint(&b, fset, e)
	return strings.Join(strings.Fields(b.String()), " ")
}

func strip(e ast.Expr) ast.Expr { // parentheses and single-argument conversions / calls such as int64(x), time.Duration(x)
	for {
		switch x := e.(type) {
		case *ast.ParenExpr:
			e = x.X
			continue
		case *ast.CallExpr:
			if len(x.Args) == 1 {
				switch f := x.Fun.(type) {
				case *ast.Ident:
					if f.Name == "int64" || f.Name == "int" || f.Name == "uint64" || f.Name == "uint32" || f.Name == "int32" {
						e = x.Args[0]
						continue
					}
				case *ast.SelectorExpr:
					if f.Sel.Name == "Duration" {
						e = x.Args[0]
						continue
					}
				}
			}
		}
		return e
	}
}

func isLeaf(e ast.Expr) bool {
	switch x := strip(e).(type) {
	case *ast.Ident, *ast.BasicLit:
		return true
	case *ast.SelectorExpr:
		return isLeaf(x.X)
	case *ast.IndexExpr:
		return isLeaf(x.X)
	case *ast.CallExpr: // method call / accessor without arithmetic arguments
		for _, a := range x.Args {
			if !isLeaf(a) {
				return false
			}
		}
		return true
	case *ast.StarExpr:
		return isLeaf(x.X)
	}
	return false
}

// classify the converted value by shape: var | frame (x + i*K) | diff (x - y) | expr (| accum: set by the caller)
func classify(fset *token.FileSet, e ast.Expr) (string, string) {
	e = strip(e)
	if isLeaf(e) {
		return "var", ""
	}
	if b, ok := e.(*ast.BinaryExpr); ok {
		if b.Op == token.SUB && isLeaf(b.X) && isLeaf(b.Y) {
			return "diff", ""
		}
		if b.Op == token.ADD && isLeaf(b.X) {
			if m, ok2 := strip(b.Y).(*ast.BinaryExpr); ok2 && m.Op == token.MUL && isLeaf(m.X) && isLeaf(m.Y) {
				return "frame", text(fset, m.Y)
			}
		}
	}
	return "expr", ""
}

func main() {
	repo := os.Args[1]
	var calls []call
	fset := token.NewFileSet()
	root := filepath.Join(repo, "internal")
	var files []string
	filepath.Walk(root, func(p string, info os.FileInfo, err error) error {
		if err == nil && !info.IsDir() && strings.HasSuffix(p, ".go") && !strings.HasSuffix(p, "_test.go") {
			files = append(files, p)
		}
		return nil
	})
	sort.Strings(files)
	for _, p := range files {
		src, err := os.ReadFile(p)
		if err != nil || !bytes.Contains(src, []byte("multiplyAndDivide")) && !bytes.Contains(src, []byte("timestampToDuration")) &&
			!bytes.Contains(src, []byte("durationToTimestamp")) && !bytes.Contains(src, []byte("durationGoToMp4")) &&
			!bytes.Contains(src, []byte("durationMp4ToGo")) {
			continue
		}
		f, err := parser.ParseFile(fset, p, src, parser.SkipObjectResolution)
		if err != nil {
			fmt.Fprintln(os.Stderr, "parse error:", err)
			os.Exit(1)
		}
		rel, _ := filepath.Rel(repo, p)
		// local definitions: `framePTS := u.PTS + int64(i)*K` used as the value of a call is reported with its definition
		for _, d := range f.Decls {
			fd, ok := d.(*ast.FuncDecl)
			if !ok || fd.Body == nil {
				continue
			}
			fname := fd.Name.Name
			if fd.Recv != nil && len(fd.Recv.List) == 1 {
				fname = "(" + text(fset, fd.Recv.List[0].Type) + ")." + fname
			}
			// innermost enclosing function (declaration or literal) of every call
			var lits []*ast.FuncLit
			ast.Inspect(fd.Body, func(n ast.Node) bool {
				if fl, ok := n.(*ast.FuncLit); ok {
					lits = append(lits, fl)
				}
				return true
			})
			scopeOf := func(pos token.Pos) ast.Node {
				var best ast.Node = fd.Body
				for _, fl := range lits {
					if fl.Pos() <= pos && pos < fl.End() && fl.Pos() >= best.Pos() {
						best = fl
					}
				}
				return best
			}
			// assignments to a name inside a scope: the defining right-hand sides (:=) and the increments (+=); ok=false when
			// the name is assigned in any other way
			assignsOf := func(scope ast.Node, name string) (defs []ast.Expr, incs []ast.Expr, ok bool) {
				ok = true
				ast.Inspect(scope, func(n ast.Node) bool {
					switch x := n.(type) {
					case *ast.AssignStmt:
						for k, l := range x.Lhs {
							if id, isId := l.(*ast.Ident); isId && id.Name == name {
								switch {
								case x.Tok == token.DEFINE && len(x.Lhs) == len(x.Rhs):
									defs = append(defs, x.Rhs[k])
								case x.Tok == token.ADD_ASSIGN && len(x.Lhs) == 1:
									incs = append(incs, x.Rhs[0])
								default:
									ok = false
								}
							}
						}
					case *ast.IncDecStmt:
						if id, isId := x.X.(*ast.Ident); isId && id.Name == name {
							ok = false
						}
					}
					return true
				})
				return
			}
			ast.Inspect(fd.Body, func(n ast.Node) bool {
				ce, ok := n.(*ast.CallExpr)
				if !ok {
					return true
				}
				id, ok := ce.Fun.(*ast.Ident)
				if !ok {
					return true
				}
				kind, ok := helperKinds[id.Name]
				if !ok {
					return true
				}
				c := call{File: rel, Func: fname, Callee: id.Name, Line: fset.Position(ce.Pos()).Line}
				val := ce.Args[0]
				c.Value = text(fset, val)
				// a local defined once by arithmetic: show (and classify) what it stands for
				accum := false
				if vid, ok := strip(val).(*ast.Ident); ok {
					defs, incs, okA := assignsOf(scopeOf(ce.Pos()), vid.Name)
					if okA && len(defs) == 1 && len(incs) == 0 {
						if _, isBin := strip(defs[0]).(*ast.BinaryExpr); isBin {
							val = defs[0]
							c.Value = vid.Name + " := " + text(fset, defs[0])
						}
					} else if okA && len(defs) == 1 && len(incs) > 0 && isLeaf(defs[0]) {
						// x := start; loop { call(x); x += step }: the running position of a frame inside the unit
						accum = true
						c.Value = vid.Name + " := " + text(fset, defs[0])
						for _, inc := range incs {
							c.Value += "; " + vid.Name + " += " + text(fset, inc)
						}
					}
				}
				c.Class, c.Spf = classify(fset, val)
				if accum {
					c.Class = "accum"
				}
				switch kind {
				case "muldiv3":
					if len(ce.Args) != 3 {
						fmt.Fprintf(os.Stderr, "%s:%d: %s with %d arguments\n", rel, c.Line, id.Name, len(ce.Args))
						os.Exit(1)
					}
					c.To, c.From = text(fset, ce.Args[1]), text(fset, ce.Args[2])
				case "to_nanos":
					c.From, c.To = text(fset, ce.Args[1]), "time.Second"
				case "from_nanos":
					c.From, c.To = "time.Second", text(fset, ce.Args[1])
				}
				calls = append(calls, c)
				return true
			})
		}
	}
	sort.SliceStable(calls, func(i, j int) bool {
		if calls[i].File != calls[j].File {
			return calls[i].File < calls[j].File
		}
		return calls[i].Line < calls[j].Line
	})
	q := func(s string) string { return "\"" + strings.ReplaceAll(s, "\"", "\"\"") + "\"" }
	row := func(c call) string {
		return fmt.Sprintf("(%s, %s, %s, %s, %s)", q(c.File+" "+c.Func), q(c.Callee), q(c.Value), q(c.From), q(c.To))
	}
	var b strings.Builder
	b.WriteString("(* GENERATED by /verif/tools/gen/muldiv_calls from the Go sources on every run. Do not edit. *)\n")
	b.WriteString("From Coq Require Import String List ZArith.\nImport ListNotations.\nLocal Open Scope string_scope.\n\n")
	b.WriteString("(* (file and enclosing function, helper called, converted value, source rate, destination rate) *)\n")
	b.WriteString("Definition call_sites : list (string * string * string * string * string) := [\n")
	for i, c := range calls {
		sep := ";"
		if i == len(calls)-1 {
			sep = ""
		}
		fmt.Fprintf(&b, "  %s%s\n", row(c), sep)
	}
	b.WriteString("].\n")
	fmt.Fprintf(&b, "Definition call_site_count : Z := %d%%Z.\n", len(calls))
	if err := os.WriteFile(os.Args[2], []byte(b.String()), 0o644); err != nil {
		panic(err)
	}
	js, _ := json.MarshalIndent(map[string]any{"calls": calls}, "", " ")
	os.WriteFile(os.Args[3], js, 0o644)
	if len(os.Args) > 4 {
		var t strings.Builder
		for i, c := range calls {
			sep := ";"
			if i == len(calls)-1 {
				sep = ""
			}
			qty := map[string]string{"var": "QVar", "diff": "QDiff", "expr": "QExpr", "accum": "QAccum"}[c.Class]
			if c.Class == "frame" {
				qty = "(QFrame " + q(c.Spf) + ")"
			}
			fmt.Fprintf(&t, "  mk_cs %s %s %s %s %s %s%s\n", q(c.File+" "+c.Func), q(c.Callee), q(c.Value), q(c.From), q(c.To), qty, sep)
		}
		os.WriteFile(os.Args[4], []byte(t.String()), 0o644)
	}
	fmt.Printf("%d call sites\n", len(calls))
}
